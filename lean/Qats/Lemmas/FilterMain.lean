import Qats.Model.Filter
import Qats.Lemmas.RealOpsSimp
import Mathlib.Tactic
/-!
Main lemmas behind the C12 property theorems (statements fixed by `Qats/Props/C12.lean`).

Part 1: algebra of the four Butterworth-squared shapes over ℝ.  Part 2: the bilinear warp `tan(π g dt)` on
`(0, Nyquist)`.  Part 3: gains in Hz, design plumbing.  Part 4: steady state of signals.  Part 5: `get` / `filter`.
-/
namespace Qats.Filter
open Qats

/-! ### real interpretation of the operator classes -/

-- (`TranscOps.cos/sin/pi` over ℝ: the simp lemmas `cos_real`, `sin_real`, `pi_real` of `RealOpsSimp.lean`)

theorem ipow_real (x : ℝ) (n : Nat) : ipow x n = x ^ n := by
  induction n with
  | zero => simp only [ipow]; norm_num
  | succ n ih => simp only [ipow, ih]; ring

theorem tan_real (x : ℝ) : Filter.tan x = Real.tan x := by
  simp only [Filter.tan, sin_real, cos_real, Real.tan_eq_sin_div_cos]

theorem warp_real (dt g : ℝ) : warp dt g = Real.tan (Real.pi * g * dt) := by
  simp only [warp, tan_real, pi_real]

theorem edge_real (wn : ℝ) : edge wn = Real.tan (Real.pi * wn / 2) := by
  simp only [edge, tan_real, pi_real]; norm_num

/-! ### Part 1: the shapes -/

theorem lowShape_real (n : Nat) (c w : ℝ) : lowShape n c w = c ^ (2 * n) / (c ^ (2 * n) + w ^ (2 * n)) := by
  simp only [lowShape, ipow_real]

theorem highShape_real (n : Nat) (c w : ℝ) : highShape n c w = w ^ (2 * n) / (c ^ (2 * n) + w ^ (2 * n)) := by
  simp only [highShape, ipow_real]

theorem passShape_real (n : Nat) (e1 e2 w : ℝ) :
    passShape n e1 e2 w = ((e2 - e1) * w) ^ (2 * n) / (((e2 - e1) * w) ^ (2 * n) + (w * w - e1 * e2) ^ (2 * n)) := by
  simp only [passShape, ipow_real]

theorem stopShape_real (n : Nat) (e1 e2 w : ℝ) :
    stopShape n e1 e2 w = (w * w - e1 * e2) ^ (2 * n) / (((e2 - e1) * w) ^ (2 * n) + (w * w - e1 * e2) ^ (2 * n)) := by
  simp only [stopShape, ipow_real]

theorem evpow_nonneg (n : Nat) (a : ℝ) : 0 ≤ a ^ (2 * n) := (even_two_mul n).pow_nonneg a
theorem evpow_pos (n : Nat) {a : ℝ} (ha : a ≠ 0) : 0 < a ^ (2 * n) := (even_two_mul n).pow_pos ha

/-- generic: `p/(p+q)` facts for `p > 0`, `q ≥ 0`. -/
theorem frac_add (p q : ℝ) (h : p + q ≠ 0) : p / (p + q) + q / (p + q) = 1 := by
  field_simp

theorem frac_half (p : ℝ) (hp : p ≠ 0) : p / (p + p) = 1 / 2 := by
  field_simp; ring

theorem frac_pos {p q : ℝ} (hp : 0 < p) (hq : 0 ≤ q) : 0 < p / (p + q) := by positivity

theorem frac_lt_one {p q : ℝ} (hp : 0 < p) (hq : 0 < q) : p / (p + q) < 1 := by
  rw [div_lt_one (by positivity)]; linarith

theorem frac_le_one {p q : ℝ} (hp : 0 ≤ p) (hq : 0 ≤ q) : p / (p + q) ≤ 1 := by
  rcases eq_or_lt_of_le (add_nonneg hp hq) with h | h
  · rw [← h]; simp
  · rw [div_le_one h]; linarith

theorem frac_nonneg {p q : ℝ} (hp : 0 ≤ p) (hq : 0 ≤ q) : 0 ≤ p / (p + q) := by positivity

/-- `q/(p+q) ≤ q/p`. -/
theorem frac_le_ratio {p q : ℝ} (hp : 0 < p) (hq : 0 ≤ q) : q / (p + q) ≤ q / p := by
  apply div_le_div_of_nonneg_left hq hp; linarith

theorem lowShape_cutoff (n : Nat) {c : ℝ} (hc : c ≠ 0) : lowShape n c c = 1 / 2 := by
  rw [lowShape_real]; exact frac_half _ (ne_of_gt (evpow_pos n hc))

theorem highShape_cutoff (n : Nat) {c : ℝ} (hc : c ≠ 0) : highShape n c c = 1 / 2 := by
  rw [highShape_real]; exact frac_half _ (ne_of_gt (evpow_pos n hc))

theorem low_add_high (n : Nat) {c : ℝ} (w : ℝ) (hc : c ≠ 0) : lowShape n c w + highShape n c w = 1 := by
  rw [lowShape_real, highShape_real]
  exact frac_add _ _ (ne_of_gt (add_pos_of_pos_of_nonneg (evpow_pos n hc) (evpow_nonneg n w)))

theorem lowShape_bounds (n : Nat) {c w : ℝ} (hc : c ≠ 0) (hw : w ≠ 0) : 0 < lowShape n c w ∧ lowShape n c w < 1 := by
  rw [lowShape_real]
  exact ⟨frac_pos (evpow_pos n hc) (evpow_nonneg n w), frac_lt_one (evpow_pos n hc) (evpow_pos n hw)⟩

theorem highShape_bounds (n : Nat) {c w : ℝ} (hc : c ≠ 0) (hw : w ≠ 0) : 0 < highShape n c w ∧ highShape n c w < 1 := by
  have h := low_add_high n w hc
  have := lowShape_bounds n hc hw
  constructor <;> linarith [this.1, this.2]

theorem lowShape_strictAnti (n : Nat) (hn : 1 ≤ n) {c w1 w2 : ℝ} (hc : c ≠ 0) (h1 : 0 ≤ w1) (h12 : w1 < w2) :
    lowShape n c w2 < lowShape n c w1 := by
  rw [lowShape_real, lowShape_real]
  have hp := evpow_pos n hc
  have hlt : w1 ^ (2 * n) < w2 ^ (2 * n) := pow_lt_pow_left₀ h12 h1 (by omega)
  rw [div_lt_div_iff_of_pos_left hp (by have := evpow_nonneg n w2; positivity) (by have := evpow_nonneg n w1; positivity)]
  linarith

theorem highShape_strictMono (n : Nat) (hn : 1 ≤ n) {c w1 w2 : ℝ} (hc : c ≠ 0) (h1 : 0 ≤ w1) (h12 : w1 < w2) :
    highShape n c w1 < highShape n c w2 := by
  have a := low_add_high n w1 hc
  have b := low_add_high n w2 hc
  have := lowShape_strictAnti n hn hc h1 h12
  linarith

theorem highShape_le_ratio (n : Nat) {c : ℝ} (w : ℝ) (hc : c ≠ 0) : highShape n c w ≤ (w / c) ^ (2 * n) := by
  rw [highShape_real, div_pow]
  exact frac_le_ratio (evpow_pos n hc) (evpow_nonneg n w)

theorem lowShape_le_ratio (n : Nat) (c : ℝ) {w : ℝ} (hw : w ≠ 0) : lowShape n c w ≤ (c / w) ^ (2 * n) := by
  rw [lowShape_real, div_pow, add_comm]
  exact frac_le_ratio (evpow_pos n hw) (evpow_nonneg n c)

theorem lowShape_dc (n : Nat) (hn : 1 ≤ n) {c : ℝ} (hc : c ≠ 0) : lowShape n c 0 = 1 := by
  rw [lowShape_real, zero_pow (by omega), add_zero]
  exact div_self (ne_of_gt (evpow_pos n hc))

theorem highShape_dc (n : Nat) (hn : 1 ≤ n) (c : ℝ) : highShape n c 0 = 0 := by
  rw [highShape_real, zero_pow (by omega), zero_div]

/-- For `n < m` and `0 < w < c` the order-`m` low-pass shape is strictly closer to 1. -/
theorem lowShape_order_lt (n m : Nat) (hnm : n < m) {c w : ℝ} (hw : 0 < w) (hwc : w < c) :
    lowShape n c w < lowShape m c w := by
  have hc : 0 < c := lt_trans hw hwc
  have key : ∀ k : Nat, lowShape k c w = 1 / (1 + (w / c) ^ (2 * k)) := by
    intro k
    rw [lowShape_real, div_pow]
    have : c ^ (2 * k) ≠ 0 := ne_of_gt (pow_pos hc _)
    field_simp
  rw [key, key]
  have hr0 : 0 < w / c := div_pos hw hc
  have hr1 : w / c < 1 := (div_lt_one hc).2 hwc
  have : (w / c) ^ (2 * m) < (w / c) ^ (2 * n) := pow_lt_pow_right_of_lt_one₀ hr0 hr1 (by omega)
  have h1 : 0 < 1 + (w / c) ^ (2 * m) := by positivity
  exact one_div_lt_one_div_of_lt h1 (by linarith)

/-! band shapes: `B = (e₂ − e₁) w`, `D = w² − e₁ e₂` never vanish together for `0 < e₁ < e₂` -/

theorem band_den_pos (n : Nat) {e1 e2 : ℝ} (w : ℝ) (h1 : 0 < e1) (h12 : e1 < e2) :
    0 < ((e2 - e1) * w) ^ (2 * n) + (w * w - e1 * e2) ^ (2 * n) := by
  by_cases hw : w = 0
  · subst hw
    have : (0 * 0 - e1 * e2 : ℝ) ≠ 0 := by
      have : 0 < e1 * e2 := mul_pos h1 (lt_trans h1 h12)
      linarith
    exact add_pos_of_nonneg_of_pos (evpow_nonneg n _) (evpow_pos n this)
  · have : (e2 - e1) * w ≠ 0 := mul_ne_zero (by linarith) hw
    exact add_pos_of_pos_of_nonneg (evpow_pos n this) (evpow_nonneg n _)

theorem pass_add_stop (n : Nat) {e1 e2 : ℝ} (w : ℝ) (h1 : 0 < e1) (h12 : e1 < e2) :
    passShape n e1 e2 w + stopShape n e1 e2 w = 1 := by
  rw [passShape_real, stopShape_real]
  exact frac_add _ _ (ne_of_gt (band_den_pos n w h1 h12))

theorem passShape_lower_edge (n : Nat) {e1 e2 : ℝ} (h1 : 0 < e1) (h12 : e1 < e2) : passShape n e1 e2 e1 = 1 / 2 := by
  rw [passShape_real]
  have hB : (e2 - e1) * e1 ≠ 0 := mul_ne_zero (by linarith) (ne_of_gt h1)
  have : (e1 * e1 - e1 * e2) ^ (2 * n) = ((e2 - e1) * e1) ^ (2 * n) := by
    rw [← (even_two_mul n).neg_pow]; congr 1; ring
  rw [this]
  exact frac_half _ (ne_of_gt (evpow_pos n hB))

theorem passShape_upper_edge (n : Nat) {e1 e2 : ℝ} (h1 : 0 < e1) (h12 : e1 < e2) : passShape n e1 e2 e2 = 1 / 2 := by
  rw [passShape_real]
  have hB : (e2 - e1) * e2 ≠ 0 := mul_ne_zero (by linarith) (by linarith)
  have : (e2 * e2 - e1 * e2) ^ (2 * n) = ((e2 - e1) * e2) ^ (2 * n) := by congr 1; ring
  rw [this]
  exact frac_half _ (ne_of_gt (evpow_pos n hB))

theorem stopShape_lower_edge (n : Nat) {e1 e2 : ℝ} (h1 : 0 < e1) (h12 : e1 < e2) : stopShape n e1 e2 e1 = 1 / 2 := by
  have := pass_add_stop n e1 h1 h12
  rw [passShape_lower_edge n h1 h12] at this; linarith

theorem stopShape_upper_edge (n : Nat) {e1 e2 : ℝ} (h1 : 0 < e1) (h12 : e1 < e2) : stopShape n e1 e2 e2 = 1 / 2 := by
  have := pass_add_stop n e2 h1 h12
  rw [passShape_upper_edge n h1 h12] at this; linarith

theorem passShape_bounds (n : Nat) {e1 e2 w : ℝ} (_h1 : 0 < e1) (h12 : e1 < e2) (hw : w ≠ 0) :
    0 < passShape n e1 e2 w ∧ passShape n e1 e2 w ≤ 1 := by
  rw [passShape_real]
  have hB : (e2 - e1) * w ≠ 0 := mul_ne_zero (by linarith) hw
  exact ⟨frac_pos (evpow_pos n hB) (evpow_nonneg n _), frac_le_one (evpow_nonneg n _) (evpow_nonneg n _)⟩

theorem stopShape_bounds (n : Nat) {e1 e2 w : ℝ} (h1 : 0 < e1) (h12 : e1 < e2) (hw : w ≠ 0) :
    0 ≤ stopShape n e1 e2 w ∧ stopShape n e1 e2 w < 1 := by
  have := pass_add_stop n w h1 h12
  have b := passShape_bounds n h1 h12 hw
  constructor <;> linarith [b.1, b.2]

/-- Full transmission exactly at the (warped) geometric centre of the band. -/
theorem passShape_eq_one_iff (n : Nat) (hn : 1 ≤ n) {e1 e2 w : ℝ} (h1 : 0 < e1) (h12 : e1 < e2) (hw : w ≠ 0) :
    passShape n e1 e2 w = 1 ↔ w * w = e1 * e2 := by
  rw [passShape_real]
  have hB : (e2 - e1) * w ≠ 0 := mul_ne_zero (by linarith) hw
  have hden := band_den_pos n w h1 h12
  rw [div_eq_one_iff_eq (ne_of_gt hden)]
  constructor
  · intro h
    have : (w * w - e1 * e2) ^ (2 * n) = 0 := by linarith
    have := pow_eq_zero_iff (n := 2 * n) (by omega) |>.1 this
    linarith
  · intro h
    rw [h, sub_self, zero_pow (by omega), add_zero]

theorem passShape_dc (n : Nat) (hn : 1 ≤ n) (e1 e2 : ℝ) : passShape n e1 e2 0 = 0 := by
  rw [passShape_real, mul_zero, zero_pow (by omega), zero_div]

theorem stopShape_dc (n : Nat) (hn : 1 ≤ n) {e1 e2 : ℝ} (h1 : 0 < e1) (h12 : e1 < e2) : stopShape n e1 e2 0 = 1 := by
  have := pass_add_stop n 0 h1 h12
  rw [passShape_dc n hn] at this; linarith

/-- Away from the band the transmission decays like `(B/D)^{2n}`; inside, the loss is at most `(D/B)^{2n}`. -/
theorem passShape_le_ratio (n : Nat) {e1 e2 w : ℝ} (hD : w * w - e1 * e2 ≠ 0) :
    passShape n e1 e2 w ≤ ((e2 - e1) * w / (w * w - e1 * e2)) ^ (2 * n) := by
  rw [passShape_real, div_pow, add_comm]
  exact frac_le_ratio (evpow_pos n hD) (evpow_nonneg n _)

theorem stopShape_le_ratio (n : Nat) {e1 e2 w : ℝ} (hB : (e2 - e1) * w ≠ 0) :
    stopShape n e1 e2 w ≤ ((w * w - e1 * e2) / ((e2 - e1) * w)) ^ (2 * n) := by
  rw [stopShape_real, div_pow]
  exact frac_le_ratio (evpow_pos n hB) (evpow_nonneg n _)

/-! monotonicity of the band-pass shape on either side of the centre -/

theorem passShape_eq_u (n : Nat) {e1 e2 w : ℝ} (h12 : e1 < e2) (hw : 0 < w) :
    passShape n e1 e2 w = 1 / (1 + ((w * w - e1 * e2) / ((e2 - e1) * w)) ^ (2 * n)) := by
  rw [passShape_real, div_pow]
  have hB : ((e2 - e1) * w) ^ (2 * n) ≠ 0 := ne_of_gt (evpow_pos n (mul_ne_zero (by linarith) (ne_of_gt hw)))
  field_simp

theorem u_lt {e1 e2 w1 w2 : ℝ} (h1 : 0 < e1) (h12 : e1 < e2) (hw1 : 0 < w1) (hw : w1 < w2) :
    (w1 * w1 - e1 * e2) / ((e2 - e1) * w1) < (w2 * w2 - e1 * e2) / ((e2 - e1) * w2) := by
  have hb : 0 < e2 - e1 := by linarith
  have hw2 : 0 < w2 := lt_trans hw1 hw
  have hP : 0 < e1 * e2 := mul_pos h1 (lt_trans h1 h12)
  rw [div_lt_div_iff₀ (by positivity) (by positivity)]
  have : (w2 * w2 - e1 * e2) * ((e2 - e1) * w1) - (w1 * w1 - e1 * e2) * ((e2 - e1) * w2)
      = (e2 - e1) * (w2 - w1) * (w1 * w2 + e1 * e2) := by ring
  have hpos : 0 < (e2 - e1) * (w2 - w1) * (w1 * w2 + e1 * e2) := by
    have : 0 < w2 - w1 := by linarith
    positivity
  linarith

theorem passShape_strictMono_below (n : Nat) (hn : 1 ≤ n) {e1 e2 w1 w2 : ℝ} (h1 : 0 < e1) (h12 : e1 < e2)
    (hw1 : 0 < w1) (hw : w1 < w2) (hc : w2 * w2 ≤ e1 * e2) : passShape n e1 e2 w1 < passShape n e1 e2 w2 := by
  have hw2 : 0 < w2 := lt_trans hw1 hw
  rw [passShape_eq_u n h12 hw1, passShape_eq_u n h12 hw2]
  have hu := u_lt h1 h12 hw1 hw
  have hu2 : (w2 * w2 - e1 * e2) / ((e2 - e1) * w2) ≤ 0 :=
    div_nonpos_of_nonpos_of_nonneg (by linarith) (by have : 0 < e2 - e1 := by linarith
                                                     positivity)
  set u1 := (w1 * w1 - e1 * e2) / ((e2 - e1) * w1)
  set u2 := (w2 * w2 - e1 * e2) / ((e2 - e1) * w2)
  have : (-u2) ^ (2 * n) < (-u1) ^ (2 * n) := pow_lt_pow_left₀ (by linarith) (by linarith) (by omega)
  rw [(even_two_mul n).neg_pow, (even_two_mul n).neg_pow] at this
  have h0 := evpow_nonneg n u2
  exact one_div_lt_one_div_of_lt (by positivity) (by linarith)

theorem passShape_strictAnti_above (n : Nat) (hn : 1 ≤ n) {e1 e2 w1 w2 : ℝ} (h1 : 0 < e1) (h12 : e1 < e2)
    (hw1 : 0 < w1) (hw : w1 < w2) (hc : e1 * e2 ≤ w1 * w1) : passShape n e1 e2 w2 < passShape n e1 e2 w1 := by
  have hw2 : 0 < w2 := lt_trans hw1 hw
  rw [passShape_eq_u n h12 hw1, passShape_eq_u n h12 hw2]
  have hu := u_lt h1 h12 hw1 hw
  have hu1 : 0 ≤ (w1 * w1 - e1 * e2) / ((e2 - e1) * w1) :=
    div_nonneg (by linarith) (by have : 0 < e2 - e1 := by linarith
                                 positivity)
  set u1 := (w1 * w1 - e1 * e2) / ((e2 - e1) * w1)
  set u2 := (w2 * w2 - e1 * e2) / ((e2 - e1) * w2)
  have : u1 ^ (2 * n) < u2 ^ (2 * n) := pow_lt_pow_left₀ hu hu1 (by omega)
  have h0 := evpow_nonneg n u1
  exact one_div_lt_one_div_of_lt (by positivity) (by linarith)

/-! ### Part 2: the bilinear warp on `[0, Nyquist)` -/

theorem nyquist_real (dt : ℝ) : nyquist dt = 1 / (2 * dt) := by
  simp only [nyquist]
  by_cases h : dt = 0
  · subst h; simp
  · field_simp; norm_num

theorem arg_bounds {dt g : ℝ} (hdt : 0 < dt) (hg0 : 0 ≤ g) (hg : g < nyquist dt) :
    0 ≤ Real.pi * g * dt ∧ Real.pi * g * dt < Real.pi / 2 := by
  rw [nyquist_real, lt_div_iff₀ (by positivity)] at hg
  have hpi := Real.pi_pos
  constructor
  · positivity
  · have : Real.pi * g * dt = Real.pi * (g * dt) := by ring
    rw [this, div_eq_mul_inv]
    apply mul_lt_mul_of_pos_left _ hpi
    linarith

theorem warp_zero (dt : ℝ) : warp dt 0 = 0 := by
  rw [warp_real]; simp

theorem warp_pos {dt g : ℝ} (hdt : 0 < dt) (hg0 : 0 < g) (hg : g < nyquist dt) : 0 < warp dt g := by
  rw [warp_real]
  have h := arg_bounds hdt (le_of_lt hg0) hg
  exact Real.tan_pos_of_pos_of_lt_pi_div_two (by have := Real.pi_pos; positivity) h.2

theorem warp_lt {dt f g : ℝ} (hdt : 0 < dt) (hf0 : 0 ≤ f) (hfg : f < g) (hg : g < nyquist dt) :
    warp dt f < warp dt g := by
  rw [warp_real, warp_real]
  have hf := arg_bounds hdt hf0 (lt_trans hfg hg)
  have hg' := arg_bounds hdt (le_trans hf0 (le_of_lt hfg)) hg
  apply Real.tan_lt_tan_of_nonneg_of_lt_pi_div_two hf.1 hg'.2
  have hpi := Real.pi_pos
  have : Real.pi * f < Real.pi * g := mul_lt_mul_of_pos_left hfg hpi
  exact mul_lt_mul_of_pos_right this hdt

/-- The normalised cut-off handed to `butter` is pre-warped to the same analogue edge as the cut-off in Hz. -/
theorem edge_design {dt : ℝ} (hdt : dt ≠ 0) (fc : ℝ) : edge (fc / nyquist dt) = warp dt fc := by
  rw [edge_real, warp_real, nyquist_real]
  congr 1
  field_simp

/-- Designed for step `dt'`, seen at step `dt`: the edge is that of the cut-off `fc · dt' / dt`. -/
theorem edge_design_other {dt dt' : ℝ} (hdt : dt ≠ 0) (hdt' : dt' ≠ 0) (fc : ℝ) :
    edge (fc / nyquist dt') = warp dt (fc * dt' / dt) := by
  rw [edge_design hdt', warp_real, warp_real]
  congr 1
  field_simp

/-! ### Part 3: gains in Hz -/

theorem response_design_other' {dt dt' : ℝ} (hdt : dt ≠ 0) (hdt' : dt' ≠ 0) (s : Spec ℝ) (f : ℝ) :
    responseOf (design s dt') dt f = gain defaultOrder dt (s.map fun fc => fc * dt' / dt) f := by
  cases s <;> simp only [design, responseOf, gain, Spec.map, edge_design_other hdt hdt']

theorem response_in_hz' {dt : ℝ} (hdt : dt ≠ 0) (s : Spec ℝ) (f : ℝ) :
    responseOf (design s dt) dt f = gain defaultOrder dt s f := by
  cases s <;> simp only [design, responseOf, gain, edge_design hdt]

section gains
variable {dt : ℝ} (hdt : 0 < dt) (n : Nat)
include hdt

theorem gain_cutoff_lp' {fc : ℝ} (h0 : 0 < fc) (h1 : fc < nyquist dt) : gain n dt (.lp fc) fc = 1 / 2 :=
  lowShape_cutoff n (ne_of_gt (warp_pos hdt h0 h1))

theorem gain_cutoff_hp' {fc : ℝ} (h0 : 0 < fc) (h1 : fc < nyquist dt) : gain n dt (.hp fc) fc = 1 / 2 :=
  highShape_cutoff n (ne_of_gt (warp_pos hdt h0 h1))

theorem edges_ok {f1 f2 : ℝ} (h0 : 0 < f1) (h12 : f1 < f2) (h2 : f2 < nyquist dt) :
    0 < warp dt f1 ∧ warp dt f1 < warp dt f2 :=
  ⟨warp_pos hdt h0 (lt_trans h12 h2), warp_lt hdt (le_of_lt h0) h12 h2⟩

theorem gain_cutoff_bp' {f1 f2 : ℝ} (h0 : 0 < f1) (h12 : f1 < f2) (h2 : f2 < nyquist dt) :
    gain n dt (.bp f1 f2) f1 = 1 / 2 ∧ gain n dt (.bp f1 f2) f2 = 1 / 2 := by
  obtain ⟨a, b⟩ := edges_ok hdt h0 h12 h2
  exact ⟨passShape_lower_edge n a b, passShape_upper_edge n a b⟩

theorem gain_cutoff_bs' {f1 f2 : ℝ} (h0 : 0 < f1) (h12 : f1 < f2) (h2 : f2 < nyquist dt) :
    gain n dt (.bs f1 f2) f1 = 1 / 2 ∧ gain n dt (.bs f1 f2) f2 = 1 / 2 := by
  obtain ⟨a, b⟩ := edges_ok hdt h0 h12 h2
  exact ⟨stopShape_lower_edge n a b, stopShape_upper_edge n a b⟩

theorem gain_bounds_lp' {fc f : ℝ} (h0 : 0 < fc) (h1 : fc < nyquist dt) (hf0 : 0 < f) (hf1 : f < nyquist dt) :
    0 < gain n dt (.lp fc) f ∧ gain n dt (.lp fc) f < 1 :=
  lowShape_bounds n (ne_of_gt (warp_pos hdt h0 h1)) (ne_of_gt (warp_pos hdt hf0 hf1))

theorem gain_bounds_hp' {fc f : ℝ} (h0 : 0 < fc) (h1 : fc < nyquist dt) (hf0 : 0 < f) (hf1 : f < nyquist dt) :
    0 < gain n dt (.hp fc) f ∧ gain n dt (.hp fc) f < 1 :=
  highShape_bounds n (ne_of_gt (warp_pos hdt h0 h1)) (ne_of_gt (warp_pos hdt hf0 hf1))

theorem gain_bounds_bp' {f1 f2 f : ℝ} (h0 : 0 < f1) (h12 : f1 < f2) (h2 : f2 < nyquist dt) (hf0 : 0 < f)
    (hf1 : f < nyquist dt) : 0 < gain n dt (.bp f1 f2) f ∧ gain n dt (.bp f1 f2) f ≤ 1 := by
  obtain ⟨a, b⟩ := edges_ok hdt h0 h12 h2
  exact passShape_bounds n a b (ne_of_gt (warp_pos hdt hf0 hf1))

theorem gain_bounds_bs' {f1 f2 f : ℝ} (h0 : 0 < f1) (h12 : f1 < f2) (h2 : f2 < nyquist dt) (hf0 : 0 < f)
    (hf1 : f < nyquist dt) : 0 ≤ gain n dt (.bs f1 f2) f ∧ gain n dt (.bs f1 f2) f < 1 := by
  obtain ⟨a, b⟩ := edges_ok hdt h0 h12 h2
  exact stopShape_bounds n a b (ne_of_gt (warp_pos hdt hf0 hf1))

theorem bp_full_iff_centre' (hn : 1 ≤ n) {f1 f2 f : ℝ} (h0 : 0 < f1) (h12 : f1 < f2) (h2 : f2 < nyquist dt)
    (hf0 : 0 < f) (hf1 : f < nyquist dt) :
    gain n dt (.bp f1 f2) f = 1 ↔ warp dt f * warp dt f = warp dt f1 * warp dt f2 := by
  obtain ⟨a, b⟩ := edges_ok hdt h0 h12 h2
  exact passShape_eq_one_iff n hn a b (ne_of_gt (warp_pos hdt hf0 hf1))

theorem lp_strictAnti' (hn : 1 ≤ n) {fc f g : ℝ} (h0 : 0 < fc) (h1 : fc < nyquist dt) (hf0 : 0 ≤ f) (hfg : f < g)
    (hg : g < nyquist dt) : gain n dt (.lp fc) g < gain n dt (.lp fc) f := by
  have hw := warp_lt hdt hf0 hfg hg
  have hw0 : 0 ≤ warp dt f := by
    rcases eq_or_lt_of_le hf0 with h | h
    · rw [← h, warp_zero]
    · exact le_of_lt (warp_pos hdt h (lt_trans hfg hg))
  exact lowShape_strictAnti n hn (ne_of_gt (warp_pos hdt h0 h1)) hw0 hw

theorem hp_strictMono' (hn : 1 ≤ n) {fc f g : ℝ} (h0 : 0 < fc) (h1 : fc < nyquist dt) (hf0 : 0 ≤ f) (hfg : f < g)
    (hg : g < nyquist dt) : gain n dt (.hp fc) f < gain n dt (.hp fc) g := by
  have hw := warp_lt hdt hf0 hfg hg
  have hw0 : 0 ≤ warp dt f := by
    rcases eq_or_lt_of_le hf0 with h | h
    · rw [← h, warp_zero]
    · exact le_of_lt (warp_pos hdt h (lt_trans hfg hg))
  exact highShape_strictMono n hn (ne_of_gt (warp_pos hdt h0 h1)) hw0 hw

theorem lp_plus_hp' {fc : ℝ} (f : ℝ) (h0 : 0 < fc) (h1 : fc < nyquist dt) :
    gain n dt (.lp fc) f + gain n dt (.hp fc) f = 1 :=
  low_add_high n _ (ne_of_gt (warp_pos hdt h0 h1))

theorem bp_plus_bs' {f1 f2 : ℝ} (f : ℝ) (h0 : 0 < f1) (h12 : f1 < f2) (h2 : f2 < nyquist dt) :
    gain n dt (.bp f1 f2) f + gain n dt (.bs f1 f2) f = 1 := by
  obtain ⟨a, b⟩ := edges_ok hdt h0 h12 h2
  exact pass_add_stop n _ a b

theorem dc_gain_lp' (hn : 1 ≤ n) {fc : ℝ} (h0 : 0 < fc) (h1 : fc < nyquist dt) : gain n dt (.lp fc) 0 = 1 := by
  simp only [gain, warp_zero]; exact lowShape_dc n hn (ne_of_gt (warp_pos hdt h0 h1))

omit hdt in
theorem dc_gain_hp' (hn : 1 ≤ n) (fc : ℝ) : gain n dt (.hp fc) 0 = 0 := by
  simp only [gain, warp_zero]; exact highShape_dc n hn _

omit hdt in
theorem dc_gain_bp' (hn : 1 ≤ n) (f1 f2 : ℝ) : gain n dt (.bp f1 f2) 0 = 0 := by
  simp only [gain, warp_zero]; exact passShape_dc n hn _ _

theorem dc_gain_bs' (hn : 1 ≤ n) {f1 f2 : ℝ} (h0 : 0 < f1) (h12 : f1 < f2) (h2 : f2 < nyquist dt) :
    gain n dt (.bs f1 f2) 0 = 1 := by
  obtain ⟨a, b⟩ := edges_ok hdt h0 h12 h2
  simp only [gain, warp_zero]; exact stopShape_dc n hn a b

theorem lp_rolloff' {fc f : ℝ} (h0 : 0 < fc) (h1 : fc < nyquist dt) (hf0 : 0 < f) (hf1 : f < nyquist dt) :
    1 - gain n dt (.lp fc) f ≤ (warp dt f / warp dt fc) ^ (2 * n) ∧
      gain n dt (.lp fc) f ≤ (warp dt fc / warp dt f) ^ (2 * n) := by
  have hc := ne_of_gt (warp_pos hdt h0 h1)
  have hw := ne_of_gt (warp_pos hdt hf0 hf1)
  refine ⟨?_, lowShape_le_ratio n _ hw⟩
  have := low_add_high n (warp dt f) hc
  have h := highShape_le_ratio n (warp dt f) hc
  simp only [gain]; linarith

theorem hp_rolloff' {fc f : ℝ} (h0 : 0 < fc) (h1 : fc < nyquist dt) (hf0 : 0 < f) (hf1 : f < nyquist dt) :
    1 - gain n dt (.hp fc) f ≤ (warp dt fc / warp dt f) ^ (2 * n) ∧
      gain n dt (.hp fc) f ≤ (warp dt f / warp dt fc) ^ (2 * n) := by
  have hc := ne_of_gt (warp_pos hdt h0 h1)
  have hw := ne_of_gt (warp_pos hdt hf0 hf1)
  refine ⟨?_, highShape_le_ratio n _ hc⟩
  have := low_add_high n (warp dt f) hc
  have h := lowShape_le_ratio n (warp dt fc) hw
  simp only [gain]; linarith

theorem band_rolloff' {f1 f2 f : ℝ} (h0 : 0 < f1) (h12 : f1 < f2) (h2 : f2 < nyquist dt) (hf0 : 0 < f)
    (hf1 : f < nyquist dt) :
    (1 - gain n dt (.bp f1 f2) f = gain n dt (.bs f1 f2) f) ∧
    gain n dt (.bs f1 f2) f ≤
      ((warp dt f * warp dt f - warp dt f1 * warp dt f2) / ((warp dt f2 - warp dt f1) * warp dt f)) ^ (2 * n) ∧
    (warp dt f * warp dt f ≠ warp dt f1 * warp dt f2 →
      gain n dt (.bp f1 f2) f ≤
        ((warp dt f2 - warp dt f1) * warp dt f / (warp dt f * warp dt f - warp dt f1 * warp dt f2)) ^ (2 * n)) := by
  obtain ⟨a, b⟩ := edges_ok hdt h0 h12 h2
  have hw := ne_of_gt (warp_pos hdt hf0 hf1)
  have hB : (warp dt f2 - warp dt f1) * warp dt f ≠ 0 := mul_ne_zero (by linarith) hw
  refine ⟨?_, stopShape_le_ratio n hB, fun hne => passShape_le_ratio n (sub_ne_zero.2 hne)⟩
  have := pass_add_stop n (warp dt f) a b
  simp only [gain]; linarith

theorem order_separates' (m : Nat) (hnm : n < m) {fc f : ℝ} (hf0 : 0 < f) (hffc : f < fc) (h1 : fc < nyquist dt) :
    gain n dt (.lp fc) f < gain m dt (.lp fc) f :=
  lowShape_order_lt n m hnm (warp_pos hdt hf0 (lt_trans hffc h1)) (warp_lt hdt (le_of_lt hf0) hffc h1)

theorem bp_strictMono_below' (hn : 1 ≤ n) {f1 f2 f g : ℝ} (h0 : 0 < f1) (h12 : f1 < f2) (h2 : f2 < nyquist dt)
    (hf0 : 0 < f) (hfg : f < g) (hg : g < nyquist dt) (hc : warp dt g * warp dt g ≤ warp dt f1 * warp dt f2) :
    gain n dt (.bp f1 f2) f < gain n dt (.bp f1 f2) g := by
  obtain ⟨a, b⟩ := edges_ok hdt h0 h12 h2
  exact passShape_strictMono_below n hn a b (warp_pos hdt hf0 (lt_trans hfg hg)) (warp_lt hdt (le_of_lt hf0) hfg hg) hc

theorem bp_strictAnti_above' (hn : 1 ≤ n) {f1 f2 f g : ℝ} (h0 : 0 < f1) (h12 : f1 < f2) (h2 : f2 < nyquist dt)
    (hf0 : 0 < f) (hfg : f < g) (hg : g < nyquist dt) (hc : warp dt f1 * warp dt f2 ≤ warp dt f * warp dt f) :
    gain n dt (.bp f1 f2) g < gain n dt (.bp f1 f2) f := by
  obtain ⟨a, b⟩ := edges_ok hdt h0 h12 h2
  exact passShape_strictAnti_above n hn a b (warp_pos hdt hf0 (lt_trans hfg hg)) (warp_lt hdt (le_of_lt hf0) hfg hg) hc

end gains

/-! ### Part 4: steady state of signals -/

theorem foldr_eval (l : List (Comp ℝ)) (m t : ℝ) :
    l.foldr (fun c acc => c.eval t + acc) m = m + (l.map fun c => c.eval t).sum := by
  induction l with
  | nil => simp
  | cons c l ih => simp only [List.foldr_cons, ih, List.map_cons, List.sum_cons]; ring

theorem eval_eq (x : Signal ℝ) (t : ℝ) : x.eval t = x.mean + (x.comps.map fun c => c.eval t).sum :=
  foldr_eval _ _ _

theorem eval_real (c : Comp ℝ) (t : ℝ) : c.eval t = c.amp * Real.sin (2 * Real.pi * c.freq * t + c.phase) := by
  simp only [Comp.eval, sin_real, pi_real]
  norm_num

theorem eval_mul_right (c : Comp ℝ) (k t : ℝ) : ({ c with amp := c.amp * k } : Comp ℝ).eval t = k * c.eval t := by
  simp only [eval_real]; ring

theorem eval_mul_left (c : Comp ℝ) (k t : ℝ) : ({ c with amp := k * c.amp } : Comp ℝ).eval t = k * c.eval t := by
  simp only [eval_real]; ring

theorem sum_map_scaled (g : ℝ → ℝ) (l : List (Comp ℝ)) (t : ℝ) :
    ((l.map fun c => ({ c with amp := c.amp * g c.freq } : Comp ℝ)).map fun c => c.eval t).sum
      = (l.map fun c => g c.freq * c.eval t).sum := by
  induction l with
  | nil => simp
  | cons c l ih => simp only [List.map_cons, List.sum_cons, ih, eval_mul_right]

theorem sum_map_const_scaled (a : ℝ) (l : List (Comp ℝ)) (t : ℝ) :
    ((l.map fun c => ({ c with amp := a * c.amp } : Comp ℝ)).map fun c => c.eval t).sum
      = a * (l.map fun c => c.eval t).sum := by
  induction l with
  | nil => simp
  | cons c l ih => simp only [List.map_cons, List.sum_cons, ih, eval_mul_left]; ring

theorem zero_lit : (0.0 : ℝ) = 0 := by norm_num

theorem steadyState_eval (s : Spec ℝ) (dt : ℝ) (x : Signal ℝ) (t : ℝ) :
    (steadyState s dt x).eval t = x.mean * responseOf (design s dt) dt 0 +
      (x.comps.map fun c => responseOf (design s dt) dt c.freq * c.eval t).sum := by
  rw [eval_eq]
  simp only [steadyState, zero_lit]
  rw [sum_map_scaled (fun f => responseOf (design s dt) dt f)]

theorem comb_eval' (a b : ℝ) (x y : Signal ℝ) (t : ℝ) :
    (Signal.comb a x b y).eval t = a * x.eval t + b * y.eval t := by
  rw [eval_eq, eval_eq, eval_eq]
  simp only [Signal.comb, List.map_append, List.sum_append, sum_map_const_scaled]
  ring

theorem sum_map_mul_append (g : ℝ → ℝ) (a b : ℝ) (l1 l2 : List (Comp ℝ)) (t : ℝ) :
    (((l1.map fun c => ({ c with amp := a * c.amp } : Comp ℝ)) ++
        (l2.map fun c => ({ c with amp := b * c.amp } : Comp ℝ))).map fun c => g c.freq * c.eval t).sum
      = a * (l1.map fun c => g c.freq * c.eval t).sum + b * (l2.map fun c => g c.freq * c.eval t).sum := by
  have h : ∀ (k : ℝ) (l : List (Comp ℝ)),
      ((l.map fun c => ({ c with amp := k * c.amp } : Comp ℝ)).map fun c => g c.freq * c.eval t).sum
        = k * (l.map fun c => g c.freq * c.eval t).sum := by
    intro k l
    induction l with
    | nil => simp
    | cons c l ih => simp only [List.map_cons, List.sum_cons, ih, eval_mul_left]; ring
  rw [List.map_append, List.sum_append, h, h]

theorem steadyState_linear' (s : Spec ℝ) (dt a b : ℝ) (x y : Signal ℝ) (t : ℝ) :
    (steadyState s dt (Signal.comb a x b y)).eval t =
      a * (steadyState s dt x).eval t + b * (steadyState s dt y).eval t := by
  rw [steadyState_eval, steadyState_eval, steadyState_eval]
  simp only [Signal.comb]
  rw [sum_map_mul_append (fun f => responseOf (design s dt) dt f)]
  ring

theorem steadyState_single' {dt : ℝ} (hdt : dt ≠ 0) (s : Spec ℝ) (m : ℝ) (c : Comp ℝ) (t : ℝ) :
    (steadyState s dt ⟨m, [c]⟩).eval t =
      m * gain defaultOrder dt s 0 + gain defaultOrder dt s c.freq * ((⟨m, [c]⟩ : Signal ℝ).eval t - m) := by
  rw [steadyState_eval, eval_eq]
  simp only [response_in_hz' hdt, List.map_cons, List.map_nil, List.sum_cons, List.sum_nil]
  ring

theorem steadyState_shape' (s : Spec ℝ) (dt : ℝ) (x : Signal ℝ) :
    (steadyState s dt x).comps.map (fun c => (c.freq, c.phase)) = x.comps.map (fun c => (c.freq, c.phase)) := by
  simp only [steadyState, List.map_map]
  rfl

theorem sum_map_add (g h : ℝ → ℝ) (l : List (Comp ℝ)) (t : ℝ) (hgh : ∀ f, g f + h f = 1) :
    (l.map fun c => g c.freq * c.eval t).sum + (l.map fun c => h c.freq * c.eval t).sum
      = (l.map fun c => c.eval t).sum := by
  induction l with
  | nil => simp
  | cons c l ih =>
    simp only [List.map_cons, List.sum_cons]
    have := hgh c.freq
    have e : g c.freq * c.eval t + h c.freq * c.eval t = c.eval t := by rw [← add_mul, this, one_mul]
    linarith

theorem lp_hp_reconstruct' {dt : ℝ} (hdt : 0 < dt) {fc : ℝ} (h0 : 0 < fc) (h1 : fc < nyquist dt) (x : Signal ℝ)
    (t : ℝ) : (steadyState (.lp fc) dt x).eval t + (steadyState (.hp fc) dt x).eval t = x.eval t := by
  have hd := ne_of_gt hdt
  rw [steadyState_eval, steadyState_eval, eval_eq]
  simp only [response_in_hz' hd]
  have hs := sum_map_add (fun f => gain defaultOrder dt (.lp fc) f) (fun f => gain defaultOrder dt (.hp fc) f)
    x.comps t (fun f => lp_plus_hp' hdt defaultOrder f h0 h1)
  have h00 := lp_plus_hp' hdt defaultOrder 0 h0 h1
  have : x.mean * gain defaultOrder dt (.lp fc) 0 + x.mean * gain defaultOrder dt (.hp fc) 0 = x.mean := by
    rw [← mul_add, h00, mul_one]
  linarith

theorem bp_bs_reconstruct' {dt : ℝ} (hdt : 0 < dt) {f1 f2 : ℝ} (h0 : 0 < f1) (h12 : f1 < f2) (h2 : f2 < nyquist dt)
    (x : Signal ℝ) (t : ℝ) :
    (steadyState (.bp f1 f2) dt x).eval t + (steadyState (.bs f1 f2) dt x).eval t = x.eval t := by
  have hd := ne_of_gt hdt
  rw [steadyState_eval, steadyState_eval, eval_eq]
  simp only [response_in_hz' hd]
  have hs := sum_map_add (fun f => gain defaultOrder dt (.bp f1 f2) f) (fun f => gain defaultOrder dt (.bs f1 f2) f)
    x.comps t (fun f => bp_plus_bs' hdt defaultOrder f h0 h12 h2)
  have h00 := bp_plus_bs' hdt defaultOrder 0 h0 h12 h2
  have : x.mean * gain defaultOrder dt (.bp f1 f2) 0 + x.mean * gain defaultOrder dt (.bs f1 f2) 0 = x.mean := by
    rw [← mul_add, h00, mul_one]
  linarith

theorem steadyState_mean' {dt : ℝ} (hdt : 0 < dt) (x : Signal ℝ) :
    (∀ fc, 0 < fc → fc < nyquist dt → (steadyState (.lp fc) dt x).mean = x.mean) ∧
    (∀ fc, (steadyState (.hp fc) dt x).mean = 0) ∧
    (∀ f1 f2, (steadyState (.bp f1 f2) dt x).mean = 0) ∧
    (∀ f1 f2, 0 < f1 → f1 < f2 → f2 < nyquist dt → (steadyState (.bs f1 f2) dt x).mean = x.mean) := by
  have hd := ne_of_gt hdt
  have h5 : 1 ≤ defaultOrder := by decide
  refine ⟨fun fc h0 h1 => ?_, fun fc => ?_, fun f1 f2 => ?_, fun f1 f2 h0 h12 h2 => ?_⟩ <;>
    simp only [steadyState, zero_lit, response_in_hz' hd]
  · rw [dc_gain_lp' hdt _ h5 h0 h1, mul_one]
  · rw [dc_gain_hp' _ h5, mul_zero]
  · rw [dc_gain_bp' _ h5, mul_zero]
  · rw [dc_gain_bs' hdt _ h5 h0 h12 h2, mul_one]

/-! ### Part 5: `TimeSeries.get(filterargs)` and `TimeSeries.filter` (purely structural, any scalar type) -/

section ts
variable {α : Type} [Add α] [Sub α] [Mul α] [Div α] [Neg α] [LT α] [LE α] [DecidableLT α] [DecidableLE α]
  [NatCast α] [OfNat α 0] [OfScientific α]

/-- Whatever the window / resampling options: when `get` succeeds, the returned time array has at least two samples
and the returned data are scipy's routine applied with the design for the step `t'[1] − t'[0]` of the *returned*
(processed) time array. -/
theorem tsGet_design_dt' (rnd : α → Int) (F : Design α → List α → List α) (taper : List α → List α) (t x : List α)
    (s : Spec α) (twin : Option (α × α)) (rs : Option (Pipeline.Resample α)) (tp : Bool) (t' x' : List α)
    (h : tsGet rnd F taper t x s twin rs tp = .ok (t', x')) :
    ∃ a b rest x2, t' = a :: b :: rest ∧ x' = F (design s (b - a)) x2 := by
  unfold tsGet Pipeline.get at h
  simp only [bind, Except.bind, pure, Except.pure] at h
  repeat' split at h
  all_goals try (simp at h)
  all_goals try (obtain ⟨h1, h2⟩ := h; exact ⟨_, _, _, _, h1.symm, h2.symm⟩)
  all_goals try contradiction
  all_goals (obtain ⟨h1, h2⟩ := h; subst h1 h2; refine ⟨_, _, ?_, _, ?_, rfl⟩; rotate_left; (simp only at *; assumption))

omit [Add α] [Sub α] [Mul α] [Div α] [Neg α] [LT α] [LE α] [DecidableLT α] [DecidableLE α] [NatCast α] [OfNat α 0]
  [OfScientific α] in
theorem mkSpec_some_iff' (k : Kind) (freqs : List α) : (∃ s, mkSpec k freqs = some s) ↔ freqs.length = k.arity := by
  cases k <;> rcases freqs with _ | ⟨a, _ | ⟨b, _ | ⟨c, r⟩⟩⟩ <;> simp [mkSpec, Kind.arity]

omit [Add α] [Sub α] [Mul α] [Div α] [Neg α] [LT α] [LE α] [DecidableLT α] [DecidableLE α] [NatCast α] [OfNat α 0]
  [OfScientific α] in
theorem mkSpec_kind' (k : Kind) (freqs : List α) (s : Spec α) (h : mkSpec k freqs = some s) : s.kind = k := by
  cases k <;> rcases freqs with _ | ⟨a, _ | ⟨b, _ | ⟨c, r⟩⟩⟩ <;> simp_all [mkSpec, Spec.kind] <;> subst h <;> rfl

theorem tsFilter_delegates' (rnd : α → Int) (F : Design α → List α → List α) (taper : List α → List α) (t x : List α)
    (k : Kind) (freqs : List α) (twin : Option (α × α)) (tp : Bool) :
    (freqs.length ≠ k.arity → tsFilter rnd F taper t x k freqs twin tp = .error .value) ∧
    (∀ s, mkSpec k freqs = some s →
      tsFilter rnd F taper t x k freqs twin tp = (tsGet rnd F taper t x s twin none tp).mapError Err.pipeline) := by
  constructor
  · intro h
    have : mkSpec k freqs = none := by
      cases k <;> rcases freqs with _ | ⟨a, _ | ⟨b, _ | ⟨c, r⟩⟩⟩ <;> simp_all [mkSpec, Kind.arity]
    simp only [tsFilter, this]
  · intro s hs
    simp only [tsFilter, hs]
    cases tsGet rnd F taper t x s twin none tp <;> rfl

end ts

/-- Over ℝ: the design `get` hands to scipy has, for the processed step, exactly the response in Hz of the request. -/
theorem tsGet_response_hz' (rnd : ℝ → Int) (F : Design ℝ → List ℝ → List ℝ) (taper : List ℝ → List ℝ) (t x : List ℝ)
    (s : Spec ℝ) (twin : Option (ℝ × ℝ)) (rs : Option (Pipeline.Resample ℝ)) (tp : Bool) (t' x' : List ℝ)
    (h : tsGet rnd F taper t x s twin rs tp = .ok (t', x')) :
    ∃ a b rest x2, t' = a :: b :: rest ∧ x' = F (design s (b - a)) x2 ∧
      (a < b → ∀ f, responseOf (design s (b - a)) (b - a) f = gain defaultOrder (b - a) s f) := by
  obtain ⟨a, b, rest, x2, h1, h2⟩ := tsGet_design_dt' rnd F taper t x s twin rs tp t' x' h
  exact ⟨a, b, rest, x2, h1, h2, fun hab f => response_in_hz' (ne_of_gt (sub_pos.2 hab)) s f⟩

end Qats.Filter
