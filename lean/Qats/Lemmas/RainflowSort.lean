import Qats.Lemmas.Rainflow
/-!
`rowLe` is a total preorder; the sorted table is pairwise ordered by (range, mean).
-/
namespace Qats.Rainflow
set_option linter.unusedSectionVars false
set_option linter.unnecessarySeqFocus false
variable {α : Type} [Field α] [LinearOrder α] [IsStrictOrderedRing α]

theorem rowLe_iff (a b : Row α) : rowLe a b = true ↔
    a.range < b.range ∨ (a.range = b.range ∧ (a.mean < b.mean ∨ (a.mean = b.mean ∧ a.count ≤ b.count))) := by
  unfold rowLe
  rcases lt_trichotomy a.range b.range with h | h | h
  · simp [h]
  · rcases lt_trichotomy a.mean b.mean with h' | h' | h'
    · simp [h, h']
    · simp [h, h']
    · simp [h, h', h'.not_gt, h'.ne']
  · simp [h, h.not_gt, h.ne']

instance rowLe_total : Std.Total (fun a b : Row α => rowLe a b = true) where
  total a b := by
    rw [rowLe_iff, rowLe_iff]
    rcases lt_trichotomy a.range b.range with h | h | h
    · exact Or.inl (Or.inl h)
    · rcases lt_trichotomy a.mean b.mean with h' | h' | h'
      · exact Or.inl (Or.inr ⟨h, Or.inl h'⟩)
      · rcases le_total a.count b.count with h'' | h''
        · exact Or.inl (Or.inr ⟨h, Or.inr ⟨h', h''⟩⟩)
        · exact Or.inr (Or.inr ⟨h.symm, Or.inr ⟨h'.symm, h''⟩⟩)
      · exact Or.inr (Or.inr ⟨h.symm, Or.inl h'⟩)
    · exact Or.inr (Or.inl h)

instance rowLe_trans : IsTrans (Row α) (fun a b : Row α => rowLe a b = true) where
  trans a b c := by
    rw [rowLe_iff, rowLe_iff, rowLe_iff]
    rintro (h1 | ⟨h1, h1' | ⟨h1', h1''⟩⟩) (h2 | ⟨h2, h2' | ⟨h2', h2''⟩⟩)
    · exact Or.inl (h1.trans h2)
    · exact Or.inl (h2 ▸ h1)
    · exact Or.inl (h2 ▸ h1)
    · exact Or.inl (h1 ▸ h2)
    · exact Or.inr ⟨h1.trans h2, Or.inl (h1'.trans h2')⟩
    · exact Or.inr ⟨h1.trans h2, Or.inl (h2' ▸ h1')⟩
    · exact Or.inl (h1 ▸ h2)
    · exact Or.inr ⟨h1.trans h2, Or.inl (h1' ▸ h2')⟩
    · exact Or.inr ⟨h1.trans h2, Or.inr ⟨h1'.trans h2', h1''.trans h2''⟩⟩

theorem isort_rowLe_pairwise (l : List (Row α)) :
    (isort rowLe l).Pairwise (fun a b => a.range < b.range ∨ (a.range = b.range ∧ a.mean ≤ b.mean)) := by
  rw [isort_eq]
  refine (List.pairwise_insertionSort (fun a b : Row α => rowLe a b = true) l).imp ?_
  intro a b h
  rw [rowLe_iff] at h
  rcases h with h | ⟨h, h' | ⟨h', _⟩⟩
  · exact Or.inl h
  · exact Or.inr ⟨h, h'.le⟩
  · exact Or.inr ⟨h, h'.le⟩

end Qats.Rainflow
