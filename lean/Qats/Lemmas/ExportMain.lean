import Qats.Model.Export
import Qats.Lemmas.PipelineMain
import Qats.Lemmas.ExportCheck
import Qats.Lemmas.ExportCommon
import Qats.Lemmas.ExportSafe
import Qats.Lemmas.ExportTrace
import Qats.Lemmas.ExportCodec
import Mathlib.Tactic
/-!
Main lemmas behind the C07 property theorems (statements fixed by `Qats/Props/C07.lean`).
`α` is any linearly ordered field; exact arithmetic.
-/
namespace Qats.Export
set_option linter.unusedSectionVars false
set_option linter.unusedVariables false
open Qats.Names (Str)
open Qats.Pipeline (Opts Resample Stages)
variable {α : Type} [Field α] [LinearOrder α] [IsStrictOrderedRing α]

/-- The tolerance of the final comparison in `export` (`np.allclose(t, c, rtol=1e-9, atol=1e-12)`). -/
def Close (c t : List α) : Prop := List.Forall₂ (fun ci ti => |ti - ci| ≤ (1.0e-12 : α) + (1.0e-9 : α) * |ci|) c t

theorem exist_refused' (cwd : Str) (rnd : α → Int) (st : Stages α) (r : Req α) (sel : List (Entry α))
    (h1 : r.targetExists = true) (h2 : r.existOk = false) : exportTrace cwd rnd st r sel = [.raise .fileExists] := by
  unfold exportTrace
  simp [h1, h2]

theorem raise_before_open' (cwd : Str) (rnd : α → Int) (st : Stages α) (r : Req α) (sel : List (Entry α)) (e : Err)
    (he : Effect.raise e ∈ exportTrace cwd rnd st r sel) :
    (∀ f ∈ exportTrace cwd rnd st r sel, f.touches = false) ∧ (exportTrace cwd rnd st r sel).getLast? = some (.raise e) := by
  rcases export_outcome cwd rnd st r sel with ⟨_, _, h⟩ | ⟨e', _, h⟩ | ⟨names, _, h⟩
  · rw [h] at he ⊢
    have : Outcome rnd st r [] sel ([] ++ [Effect.raise Err.fileExists]) := .refused [] _ (by simp)
    exact outcome_raise_last rnd st r [] sel _ this e he
  · rw [h] at he ⊢
    exact outcome_raise_last rnd st r [] sel _ (.refused _ _ (preamble_quiet r)) e he
  · exact outcome_raise_last rnd st r names sel _ h e he

theorem friendly_nodup' (cwd : Str) (keys : List Str) (base : Bool) (names : List Str)
    (h : friendlyNames cwd keys base = .ok names) :
    names.Nodup ∧ names.length = keys.length ∧ (base = true → names = keys.map Qats.Names.pathBasename) := by
  unfold friendlyNames at h
  split at h
  next hb =>
    obtain ⟨h1, h2⟩ := friendlyGo_spec _ [] keys names List.nodup_nil h
    simp only [List.nil_append] at h2
    exact ⟨h1, by rw [h2]; simp, fun _ => h2⟩
  next hb =>
    split at h
    · cases h
    next cm _ =>
      obtain ⟨h1, h2⟩ := friendlyGo_spec _ [] keys names List.nodup_nil h
      simp only [List.nil_append] at h2
      refine ⟨h1, by rw [h2]; simp, fun hbt => ?_⟩
      simp [hbt] at hb

theorem written_is_retrieval' (cwd : Str) (rnd : α → Int) (st : Stages α) (r : Req α) (sel : List (Entry α))
    (hw : writes (exportTrace cwd rnd st r sel) ≠ []) :
    ∃ names o, friendlyNames cwd (sel.map (·.key)) r.basename = .ok names ∧ names.Nodup ∧ names.length = sel.length ∧
      Written rnd st r names sel o (writes (exportTrace cwd rnd st r sel)) := by
  rcases export_outcome cwd rnd st r sel with ⟨_, _, h⟩ | ⟨e', _, h⟩ | ⟨names, hn, h⟩
  · rw [h] at hw; simp [writes] at hw
  · rw [h, writes_append, writes_quiet _ (preamble_quiet r)] at hw; simp [writes] at hw
  · obtain ⟨o, hwr⟩ := outcome_writes rnd st r names sel _ h hw
    obtain ⟨h1, h2, -⟩ := friendly_nodup' cwd _ _ names hn
    exact ⟨names, o, hn, h1, by simpa using h2, hwr⟩

theorem verified_close (items : List (Str × List α × List α)) (h : verified items = true) (n₁ : Str) (t₁ x₁ : List α)
    (hh : items.head? = some (n₁, t₁, x₁)) : ∀ w ∈ items, Close t₁ w.2.1 := by
  cases items with
  | nil => simp at hh
  | cons it items =>
    simp only [List.head?_cons, Option.some.injEq] at hh
    subst hh
    intro w hw
    simp only [verified, List.all_eq_true] at h
    exact closeTo_spec _ _ (h w hw)

theorem written_times_close' (cwd : Str) (rnd : α → Int) (st : Stages α) (r : Req α) (sel : List (Entry α))
    (n₁ : Str) (t₁ x₁ : List α) (h1 : (writes (exportTrace cwd rnd st r sel)).head? = some (n₁, t₁, x₁)) :
    ∀ w ∈ writes (exportTrace cwd rnd st r sel), Close t₁ w.2.1 := by
  have hne : writes (exportTrace cwd rnd st r sel) ≠ [] := by
    intro h; rw [h] at h1; simp at h1
  obtain ⟨names, o, _, _, _, hw⟩ := written_is_retrieval' cwd rnd st r sel hne
  exact verified_close _ hw.verified n₁ t₁ x₁ h1

/-- Nothing without samples is ever handed to a writer: every written record holds at least one time step. -/
theorem written_has_samples' (cwd : Str) (rnd : α → Int) (st : Stages α) (r : Req α) (sel : List (Entry α)) :
    ∀ w ∈ writes (exportTrace cwd rnd st r sel), w.2.1 ≠ [] := by
  intro w hwm
  have hne : writes (exportTrace cwd rnd st r sel) ≠ [] := by
    intro h; rw [h] at hwm; simp at hwm
  obtain ⟨names, o, _, _, _, hw⟩ := written_is_retrieval' cwd rnd st r sel hne
  generalize writes (exportTrace cwd rnd st r sel) = items at hw hwm
  cases items with
  | nil => simp at hwm
  | cons it items =>
    obtain ⟨n₁, t₁, x₁⟩ := it
    have hc := verified_close _ hw.verified n₁ t₁ x₁ rfl w hwm
    have hs := hw.samples
    cases t₁ with
    | nil => simp [noSamples] at hs
    | cons a t₁ =>
      intro he
      rw [he] at hc
      cases hc

theorem not_common_refused' (cwd : Str) (rnd : α → Int) (st : Stages α) (r : Req α) (sel : List (Entry α))
    (ss : List (Summary α)) (tc : TimeCheck α) (hs : summaries sel = some ss)
    (htc : checkTimeArrays ss r.opts.twin r.opts.resample = .ok tc) (hnc : tc.isCommon = false)
    (hr : r.opts.resample = none) (hf : r.force = false) :
    ∃ e, (exportTrace cwd rnd st r sel).getLast? = some (.raise e) ∧ ∀ f ∈ exportTrace cwd rnd st r sel, f.touches = false := by
  have key : ∀ names, Outcome rnd st r names sel (exportTrace cwd rnd st r sel) →
      ∃ e, Effect.raise e ∈ exportTrace cwd rnd st r sel := by
    intro names h
    generalize exportTrace cwd rnd st r sel = tr at h
    cases h with
    | refused pre e hq => exact ⟨e, by simp⟩
    | written pre o items hq hext hw =>
      exfalso
      obtain ⟨ss', tc', hs', htc', hcase⟩ := hw.options
      rw [hs] at hs'
      cases hs'
      rw [htc] at htc'
      cases htc'
      rcases hcase with ⟨-, hc | hc⟩ | ⟨hf', -⟩
      · rw [hnc] at hc; cases hc
      · rw [hr] at hc; simp at hc
      · rw [hf] at hf'; cases hf'
  have : ∃ e, Effect.raise e ∈ exportTrace cwd rnd st r sel := by
    rcases export_outcome cwd rnd st r sel with ⟨_, _, h⟩ | ⟨e', _, h⟩ | ⟨names, _, h⟩
    · exact ⟨Err.fileExists, by rw [h]; simp⟩
    · exact ⟨e', by rw [h]; simp⟩
    · exact key names h
  obtain ⟨e, he⟩ := this
  obtain ⟨h1, h2⟩ := raise_before_open' cwd rnd st r sel e he
  exact ⟨e, h2, h1⟩

/-- A positive answer without keyword arguments stays positive with a window. -/
theorem common_mono (ss : List (Summary α)) (twin : Option (α × α)) (tc tc0 : TimeCheck α)
    (h : checkTimeArrays ss twin none = .ok tc) (h0 : checkTimeArrays ss none none = .ok tc0) (hc0 : tc0.isCommon = true) :
    tc.isCommon = true := by
  obtain ⟨e, hd, he, hh, -, hdev, hic⟩ := check_ok ss twin none tc h
  obtain ⟨e0, hd0, he0, hh0, -, hdev0, hic0⟩ := check_ok ss none none tc0 h0
  rw [he] at he0
  cases he0
  rw [handled_none] at hh0
  cases hh0
  rw [hic0, hdev0] at hc0
  simp only [List.contains_eq_mem, List.not_mem_nil, decide_false, Bool.not_false, List.filter_true,
    List.isEmpty_iff] at hc0
  rw [hic, hdev, hc0]
  rfl

theorem forall₂_mem_right {β γ : Type} {R : β → γ → Prop} {l : List β} {r : List γ} (h : List.Forall₂ R l r) (b : γ)
    (hb : b ∈ r) : ∃ a ∈ l, R a b := by
  induction h with
  | nil => simp at hb
  | cons hab _ ih =>
    rcases List.mem_cons.mp hb with rfl | hb
    · exact ⟨_, List.mem_cons_self, hab⟩
    · obtain ⟨a, ha, hr⟩ := ih hb
      exact ⟨a, List.mem_cons_of_mem _ ha, hr⟩

theorem force_common' (cwd : Str) (rnd : α → Int) (st : Stages α) (r : Req α) (sel : List (Entry α))
    (hw : writes (exportTrace cwd rnd st r sel) ≠ []) (ss : List (Summary α)) (tc : TimeCheck α)
    (hs : summaries sel = some ss) (htc : checkTimeArrays ss r.opts.twin r.opts.resample = .ok tc)
    (hnc : tc.isCommon = false) (hr : r.opts.resample = none) :
    r.force = true ∧ ∃ ct, createCommonTime rnd ss ((sel.head?.map (·.t)).getD []) r.opts.twin = .ok ct ∧
      (∀ w ∈ writes (exportTrace cwd rnd st r sel), w.2.1 = ct) ∧
      (∀ q ∈ ct, ∀ e ∈ sel, ∃ lo hi, e.t.head? = some lo ∧ e.t.getLast? = some hi ∧ lo ≤ q ∧ q ≤ hi) := by
  obtain ⟨names, o, _, _, _, hwr⟩ := written_is_retrieval' cwd rnd st r sel hw
  obtain ⟨ss', tc', hs', htc', hcase⟩ := hwr.options
  rw [hs] at hs'
  cases hs'
  rw [htc] at htc'
  cases htc'
  rcases hcase with ⟨-, hc | hc⟩ | ⟨hf, -, -, ct, hct, ho⟩
  · rw [hnc] at hc; cases hc
  · rw [hr] at hc; simp at hc
  · refine ⟨hf, ct, hct, ?_, ?_⟩
    · intro w hwm
      obtain ⟨p, hp, hpw⟩ := forall₂_mem_right hwr.retrieval w hwm
      exact get_times_time rnd st p.2.t p.2.x ct o (by rw [ho]) _ _ hpw.2
    · -- the constructed array lies inside every span
      have hct' := hct
      unfold createCommonTime at hct'
      cases h0 : checkTimeArrays ss none none with
      | error e => simp [h0] at hct'
      | ok tc0 =>
        have hnc0 : tc0.isCommon = false := by
          by_contra hne
          have hc0 : tc0.isCommon = true := by simpa using hne
          have := common_mono ss r.opts.twin tc tc0 (by rw [← hr]; exact htc) h0 hc0
          rw [hnc] at this
          cases this
        intro q hq e he
        exact (common_time_inside' rnd sel ss hs _ r.opts.twin tc0 h0 hnc0 ct hct q hq).1 e he

end Qats.Export
