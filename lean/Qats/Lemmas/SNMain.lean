import Qats.Model.SN
import Qats.Lemmas.RealOps
import Mathlib.Analysis.SpecialFunctions.Gamma.Basic
import Mathlib.Analysis.SpecialFunctions.Gaussian.GaussianIntegral
import Mathlib.Topology.Algebra.Order.Field
import Mathlib.Tactic
/-!
Main lemmas behind the C05 / C06 property theorems (statements fixed by `Qats/Props/C05.lean`, `C06.lean`).
All over ℝ: `TranscOps.log10 = Real.logb 10`, `TranscOps.rpow x y = x ^ y`, `TranscOps.gamma = Real.Gamma`.
-/
namespace Qats.SN
open Qats Qats.Gen

/-- A valid parameter set: slopes and transition cycle number positive; thickness exponent ≥ 0, reference > 0. -/
structure Valid (c : Curve ℝ) : Prop where
  m1_pos : 0 < c.m1
  m2_pos : ∀ m2, c.m2 = some m2 → 0 < m2
  nswitch_pos : 0 < c.nswitch
  thick_ok : ∀ te tr, c.thick = some (te, tr) → 0 ≤ te ∧ 0 < tr

/-- Both branches of a bilinear curve give `nswitch` where the (thickness-corrected) stress equals `sswitch`. -/
theorem n_at_switch' (c : Curve ℝ) (hv : Valid c) (m2 : ℝ) (tc s : ℝ) (htc : 0 < tc)
    (hs : s * tc = c.sswitch) :
    sn_n_upper c.loga1 c.m1 s tc = c.nswitch ∧ sn_n_lower (c.loga2 m2) m2 s tc = c.nswitch := by
  sorry

theorem sswitch_pos' (c : Curve ℝ) : 0 < c.sswitch := by
  sorry

theorem nWith_pos' (c : Curve ℝ) (tc s : ℝ) : 0 < c.nWith tc s := by
  sorry

theorem nWith_continuousOn' (c : Curve ℝ) (hv : Valid c) (tc : ℝ) (htc : 0 < tc) :
    ContinuousOn (fun s => c.nWith tc s) (Set.Ioi 0) := by
  sorry

theorem nWith_strictAntiOn' (c : Curve ℝ) (hv : Valid c) (tc : ℝ) (htc : 0 < tc) :
    StrictAntiOn (fun s => c.nWith tc s) (Set.Ioi 0) := by
  sorry

theorem switch_iff' (c : Curve ℝ) (hv : Valid c) (m2 : ℝ) (hm : c.m2 = some m2) (tc s : ℝ) (htc : 0 < tc)
    (hs : 0 < s) : c.sswitch ≤ s * tc ↔ c.nWith tc s ≤ c.nswitch := by
  sorry

theorem strength_n' (c : Curve ℝ) (hv : Valid c) (tc s : ℝ) (htc : 0 < tc) (hs : 0 < s) :
    c.strengthWith tc (c.nWith tc s) = s := by
  sorry

theorem n_strength' (c : Curve ℝ) (hv : Valid c) (tc n : ℝ) (htc : 0 < tc) (hn : 0 < n) :
    c.nWith tc (c.strengthWith tc n) = n := by
  sorry

theorem tcorr_le_ref' (te tr t : ℝ) (htr : 0 < tr) (ht : t ≤ tr) : tcorr te tr t = 1 := by
  sorry

theorem tcorr_gt_ref' (te tr t : ℝ) (ht : tr < t) : tcorr te tr t = (t / tr) ^ te := by
  sorry

theorem tcorr_pos' (te tr t : ℝ) (htr : 0 < tr) (ht : 0 < t) : 0 < tcorr te tr t := by
  sorry

theorem nWith_scaling' (c : Curve ℝ) (tc s : ℝ) : c.nWith tc s = c.nWith 1 (s * tc) := by
  sorry

theorem n_array' (c : Curve ℝ) (s : List ℝ) (t : Option ℝ) :
    c.nArray s t = (c.tfactor t).bind fun _ => s.mapM fun si => c.n si t := by
  sorry

/-! ### C06 -/

theorem minersum_append' (c : Curve ℝ) (td scf : ℝ) (th : Option ℝ) (h1 h2 : List (ℝ × ℝ)) (d1 d2 : ℝ)
    (e1 : minersum c td scf th h1 = some d1) (e2 : minersum c td scf th h2 = some d2) :
    minersum c td scf th (h1 ++ h2) = some (d1 + d2) := by
  sorry

theorem minersum_perm' (c : Curve ℝ) (td scf : ℝ) (th : Option ℝ) (h1 h2 : List (ℝ × ℝ)) (hp : h1.Perm h2) :
    minersum c td scf th h1 = minersum c td scf th h2 := by
  sorry

theorem minersum_linear' (c : Curve ℝ) (td scf k l : ℝ) (th : Option ℝ) (h : List (ℝ × ℝ)) (d : ℝ)
    (e : minersum c td scf th h = some d) :
    minersum c (l * td) scf th (h.map fun p => (p.1, k * p.2)) = some (l * k * d) := by
  sorry

theorem minersum_scf' (c : Curve ℝ) (td scf : ℝ) (th : Option ℝ) (h : List (ℝ × ℝ)) :
    minersum c td scf th h = minersum c td 1 th (h.map fun p => (p.1 * scf, p.2)) := by
  sorry

/-- Weibull density of the stress ranges, scale `q`, shape `h`. -/
noncomputable def weibullPdf (q h s : ℝ) : ℝ := h / q * (s / q) ^ (h - 1) * Real.exp (-(s / q) ^ h)

/-- Single-slope closed form = expected damage: `v0·td·∫₀^∞ f_W(s)/N(s) ds` with `N(s) = a1·s^(-m1)`. -/
theorem weibull_single_closed_form' (a1 h m1 q td v0 : ℝ) (ha : 0 < a1) (hh : 0 < h) (hm : 0 < m1) (hq : 0 < q) :
    v0 * td * ∫ s in Set.Ioi (0 : ℝ), weibullPdf q h s / (a1 * s ^ (-m1)) = sn_mw_single a1 h m1 q td v0 := by
  sorry

theorem gh_zero_mean' (r uts : ℝ) (hu : uts ≠ 0) : gh_corrected (0 : ℝ) r uts = r := by
  sorry

theorem gh_formula' (m r uts : ℝ) (hu : uts - m ≠ 0) : gh_corrected m r uts = r * uts / (uts - m) := by
  sorry

theorem gh_tensile_enlarges' (m r uts : ℝ) (hm : 0 < m) (hmu : m < uts) (hr : 0 < r) : r < gh_corrected m r uts := by
  sorry

theorem gh_unit_free' (k m r uts : ℝ) (hk : 0 < k) (hu : uts - m ≠ 0) :
    gh_corrected (k * m) (k * r) (k * uts) = k * gh_corrected m r uts := by
  sorry

end Qats.SN
