import Qats.Lemmas.SNOps
import Qats.Lemmas.SNReal
import Mathlib.Tactic.Ring
import Mathlib.Tactic.NormNum
import Mathlib.Tactic.FieldSimp
import Mathlib.Tactic.Linarith
import Mathlib.Tactic.Positivity
/-!
Main lemmas behind the C05 property theorems and the `minersum` part of C06 (statements fixed by
`Qats/Props/C05.lean`, `C06.lean`).  All over ℝ: `TranscOps.log10 = Real.logb 10`, `TranscOps.rpow x y = x ^ y`.
Only the S-N curve formulas (`sn_loga2 … sn_tcorr_mask`) are used; the lemmas about the closed forms of
`minersum_weibull` and about `gh_corrected` (C06 only) are in `SN06Main.lean` / `SNBilinear.lean`.

Structure: `SNOps.lean` restates each generated formula in Mathlib notation (the only place that depends on the
shape of the generated terms), `SNReal.lean` is the real analysis in log coordinates; here the branch skeleton of
`Qats/Model/SN.lean` is connected to both.
-/
namespace Qats.SN
open Qats Qats.Gen

/-- A valid parameter set: slopes and transition cycle number positive; thickness exponent ≥ 0, reference > 0. -/
structure Valid (c : Curve ℝ) : Prop where
  m1_pos : 0 < c.m1
  m2_pos : ∀ m2, c.m2 = some m2 → 0 < m2
  nswitch_pos : 0 < c.nswitch
  thick_ok : ∀ te tr, c.thick = some (te, tr) → 0 ≤ te ∧ 0 < tr

/-! ### the branch skeleton in log coordinates -/

theorem curve_loga2_eq (c : Curve ℝ) (m2 : ℝ) : c.loga2 m2 = la2 c.loga1 c.m1 m2 c.nswitch := by
  unfold Curve.loga2 la2; exact loga2_eq _ _ _ _

theorem curve_sswitch_eq (c : Curve ℝ) : c.sswitch = (10 : ℝ) ^ lsw c.loga1 c.m1 c.nswitch := by
  unfold Curve.sswitch lsw; exact sswitch_eq _ _ _

theorem sswitch_le_iff (c : Curve ℝ) {σ : ℝ} (hσ : 0 < σ) :
    c.sswitch ≤ σ ↔ lsw c.loga1 c.m1 c.nswitch ≤ Real.logb 10 σ := by
  rw [curve_sswitch_eq, ten_rpow_le_iff_le_logb hσ]

theorem nWith_single (c : Curve ℝ) (hm : c.m2 = none) (tc s : ℝ) :
    c.nWith tc s = (10 : ℝ) ^ (c.loga1 - c.m1 * Real.logb 10 (s * tc)) := by
  unfold Curve.nWith; simp only [hm]; exact n_single_eq _ _ _ _

theorem nWith_bilinear (c : Curve ℝ) {m2 : ℝ} (hm : c.m2 = some m2) {tc s : ℝ} (hσ : 0 < s * tc) :
    c.nWith tc s = (10 : ℝ) ^ expo c.loga1 c.m1 m2 c.nswitch (Real.logb 10 (s * tc)) := by
  unfold Curve.nWith expo
  simp only [hm, mask_eq, decide_eq_true_eq, sswitch_le_iff c hσ, n_upper_eq, n_lower_eq, curve_loga2_eq]
  split_ifs <;> rfl

theorem strengthWith_single (c : Curve ℝ) (hm : c.m2 = none) (tc n : ℝ) :
    c.strengthWith tc n = 1 / tc * (10 : ℝ) ^ ((c.loga1 - Real.logb 10 n) / c.m1) := by
  unfold Curve.strengthWith; simp only [hm]; exact strength_eq _ _ _ _

theorem strengthWith_bilinear (c : Curve ℝ) {m2 : ℝ} (hm : c.m2 = some m2) (hnsw : 0 < c.nswitch) (tc : ℝ) {n : ℝ}
    (hn : 0 < n) :
    c.strengthWith tc n = 1 / tc * (10 : ℝ) ^ sexpo c.loga1 c.m1 m2 c.nswitch (Real.logb 10 n) := by
  unfold Curve.strengthWith sexpo
  simp only [hm, strength_mask_eq, decide_eq_true_eq, strength_eq, curve_loga2_eq,
    Real.logb_le_logb (b := 10) (by norm_num) hn hnsw]
  split_ifs <;> rfl

/-- `s·tc` recovered from a strength value. -/
theorem strength_mul_tc {tc : ℝ} (htc : 0 < tc) (x : ℝ) : 1 / tc * (10 : ℝ) ^ x * tc = (10 : ℝ) ^ x := by
  field_simp

/-! ### C05 -/

set_option linter.unusedVariables false in
/-- Both branches of a bilinear curve give `nswitch` where the (thickness-corrected) stress equals `sswitch`. -/
theorem n_at_switch' (c : Curve ℝ) (hv : Valid c) (m2 : ℝ) (tc s : ℝ) (htc : 0 < tc)
    (hs : s * tc = c.sswitch) :
    sn_n_upper c.loga1 c.m1 s tc = c.nswitch ∧ sn_n_lower (c.loga2 m2) m2 s tc = c.nswitch := by
  have hm1 := hv.m1_pos.ne'
  constructor
  · rw [n_upper_eq, hs, curve_sswitch_eq, logb_ten_rpow, expo_at_switch_upper hm1, ten_rpow_logb hv.nswitch_pos]
  · rw [n_lower_eq, hs, curve_sswitch_eq, logb_ten_rpow, curve_loga2_eq, expo_at_switch_lower hm1,
      ten_rpow_logb hv.nswitch_pos]

theorem sswitch_pos' (c : Curve ℝ) : 0 < c.sswitch := by
  rw [curve_sswitch_eq]; exact ten_rpow_pos _

theorem nWith_pos' (c : Curve ℝ) (tc s : ℝ) : 0 < c.nWith tc s := by
  unfold Curve.nWith
  split
  · rw [n_single_eq]; exact ten_rpow_pos _
  · split_ifs
    · rw [n_upper_eq]; exact ten_rpow_pos _
    · rw [n_lower_eq]; exact ten_rpow_pos _

theorem continuousOn_logb_mul (tc : ℝ) (htc : 0 < tc) :
    ContinuousOn (fun s : ℝ => Real.logb 10 (s * tc)) (Set.Ioi 0) :=
  ContinuousOn.logb (continuousOn_id.mul continuousOn_const) fun _ hs => (mul_pos hs htc).ne'

theorem nWith_continuousOn' (c : Curve ℝ) (hv : Valid c) (tc : ℝ) (htc : 0 < tc) :
    ContinuousOn (fun s => c.nWith tc s) (Set.Ioi 0) := by
  have hL := continuousOn_logb_mul tc htc
  cases hm : c.m2 with
  | none =>
    simp only [nWith_single c hm]
    exact continuous_ten_rpow.comp_continuousOn (continuousOn_const.sub (continuousOn_const.mul hL))
  | some m2 =>
    have h := continuous_ten_rpow.comp_continuousOn
      ((expo_continuous (loga1 := c.loga1) (m2 := m2) (nsw := c.nswitch) hv.m1_pos.ne').comp_continuousOn hL)
    exact h.congr fun s hs => nWith_bilinear c hm (mul_pos hs htc)

theorem nWith_strictAntiOn' (c : Curve ℝ) (hv : Valid c) (tc : ℝ) (htc : 0 < tc) :
    StrictAntiOn (fun s => c.nWith tc s) (Set.Ioi 0) := by
  intro a ha b hb hab
  have hL : Real.logb 10 (a * tc) < Real.logb 10 (b * tc) :=
    Real.logb_lt_logb (by norm_num) (mul_pos ha htc) (mul_lt_mul_of_pos_right hab htc)
  cases hm : c.m2 with
  | none =>
    simp only [nWith_single c hm, ten_rpow_lt_iff]
    have := mul_lt_mul_of_pos_left hL hv.m1_pos
    linarith
  | some m2 =>
    simp only [nWith_bilinear c hm (mul_pos ha htc), nWith_bilinear c hm (mul_pos hb htc), ten_rpow_lt_iff]
    exact expo_strictAnti hv.m1_pos (hv.m2_pos m2 hm) hL

theorem switch_iff' (c : Curve ℝ) (hv : Valid c) (m2 : ℝ) (hm : c.m2 = some m2) (tc s : ℝ) (htc : 0 < tc)
    (hs : 0 < s) : c.sswitch ≤ s * tc ↔ c.nWith tc s ≤ c.nswitch := by
  have hσ := mul_pos hs htc
  rw [nWith_bilinear c hm hσ, sswitch_le_iff c hσ, ten_rpow_le_iff_le_logb hv.nswitch_pos,
    expo_le_iff hv.m1_pos (hv.m2_pos m2 hm)]

theorem strength_n' (c : Curve ℝ) (hv : Valid c) (tc s : ℝ) (htc : 0 < tc) (hs : 0 < s) :
    c.strengthWith tc (c.nWith tc s) = s := by
  have hσ := mul_pos hs htc
  have hfin : 1 / tc * (10 : ℝ) ^ Real.logb 10 (s * tc) = s := by
    rw [ten_rpow_logb hσ]; field_simp
  cases hm : c.m2 with
  | none =>
    rw [strengthWith_single c hm, nWith_single c hm, logb_ten_rpow, sub_sub_cancel,
      mul_div_cancel_left₀ _ hv.m1_pos.ne', hfin]
  | some m2 =>
    rw [strengthWith_bilinear c hm hv.nswitch_pos tc (nWith_pos' c tc s), nWith_bilinear c hm hσ, logb_ten_rpow,
      sexpo_expo hv.m1_pos (hv.m2_pos m2 hm), hfin]

theorem n_strength' (c : Curve ℝ) (hv : Valid c) (tc n : ℝ) (htc : 0 < tc) (hn : 0 < n) :
    c.nWith tc (c.strengthWith tc n) = n := by
  cases hm : c.m2 with
  | none =>
    rw [strengthWith_single c hm, nWith_single c hm, strength_mul_tc htc, logb_ten_rpow,
      mul_div_cancel₀ _ hv.m1_pos.ne', sub_sub_cancel, ten_rpow_logb hn]
  | some m2 =>
    rw [strengthWith_bilinear c hm hv.nswitch_pos tc hn]
    have hσ : 0 < 1 / tc * (10 : ℝ) ^ sexpo c.loga1 c.m1 m2 c.nswitch (Real.logb 10 n) * tc := by
      rw [strength_mul_tc htc]; exact ten_rpow_pos _
    rw [nWith_bilinear c hm hσ, strength_mul_tc htc, logb_ten_rpow, expo_sexpo hv.m1_pos (hv.m2_pos m2 hm),
      ten_rpow_logb hn]

/-- `tcorr` in Mathlib notation. -/
theorem tcorr_eq (te tr t : ℝ) : tcorr te tr t = ((if t < tr then tr else t) / tr) ^ te := by
  unfold tcorr
  simp only [tcorr_mask_eq, tcorr_formula_eq, decide_eq_true_eq]

theorem tcorr_le_ref' (te tr t : ℝ) (htr : 0 < tr) (ht : t ≤ tr) : tcorr te tr t = 1 := by
  rw [tcorr_eq]
  have h : (if t < tr then tr else t) = tr := by
    split_ifs with h
    · rfl
    · exact le_antisymm ht (not_lt.1 h)
  rw [h, div_self htr.ne', Real.one_rpow]

theorem tcorr_gt_ref' (te tr t : ℝ) (ht : tr < t) : tcorr te tr t = (t / tr) ^ te := by
  rw [tcorr_eq, if_neg (not_lt.2 ht.le)]

theorem tcorr_pos' (te tr t : ℝ) (htr : 0 < tr) (ht : 0 < t) : 0 < tcorr te tr t := by
  rw [tcorr_eq]
  apply Real.rpow_pos_of_pos
  split_ifs
  · exact div_pos htr htr
  · exact div_pos ht htr

theorem nWith_scaling' (c : Curve ℝ) (tc s : ℝ) : c.nWith tc s = c.nWith 1 (s * tc) := by
  unfold Curve.nWith
  simp only [mask_eq, n_single_eq, n_upper_eq, n_lower_eq, mul_one]

theorem mapM_some_eq {α β : Type} (f : α → β) (l : List α) : (l.mapM fun a => some (f a)) = some (l.map f) := by
  induction l with
  | nil => rfl
  | cons a l ih => simp only [List.mapM_cons, ih, List.map_cons]; rfl

theorem n_array' (c : Curve ℝ) (s : List ℝ) (t : Option ℝ) :
    c.nArray s t = (c.tfactor t).bind fun _ => s.mapM fun si => c.n si t := by
  unfold Curve.nArray Curve.n
  cases c.tfactor t with
  | none => rfl
  | some tc =>
    simp only [Option.map_some, Option.bind_some]
    exact (mapM_some_eq (c.nWith tc) s).symm

/-! ### C06: `minersum` (per-bin sum over the C05 formulas) -/

theorem foldl_add_eq_sum (l : List ℝ) (a : ℝ) : l.foldl (· + ·) a = a + l.sum := by
  induction l generalizing a with
  | nil => simp
  | cons x l ih => rw [List.foldl_cons, ih, List.sum_cons, add_assoc]

/-- `minersum` as a `List.sum`. -/
theorem minersum_eq (c : Curve ℝ) (td scf : ℝ) (th : Option ℝ) (h : List (ℝ × ℝ)) :
    minersum c td scf th h =
      (c.tfactor th).map fun tc => (h.map fun p => td * p.2 / c.nWith tc (p.1 * scf)).sum := by
  unfold minersum
  congr 1
  funext tc
  rw [foldl_add_eq_sum, zero_add]

theorem minersum_append' (c : Curve ℝ) (td scf : ℝ) (th : Option ℝ) (h1 h2 : List (ℝ × ℝ)) (d1 d2 : ℝ)
    (e1 : minersum c td scf th h1 = some d1) (e2 : minersum c td scf th h2 = some d2) :
    minersum c td scf th (h1 ++ h2) = some (d1 + d2) := by
  rw [minersum_eq] at e1 e2 ⊢
  cases htf : c.tfactor th with
  | none => rw [htf] at e1; simp at e1
  | some tc =>
    rw [htf, Option.map_some, Option.some.injEq] at e1 e2
    rw [Option.map_some, List.map_append, List.sum_append, e1, e2]

theorem minersum_perm' (c : Curve ℝ) (td scf : ℝ) (th : Option ℝ) (h1 h2 : List (ℝ × ℝ)) (hp : h1.Perm h2) :
    minersum c td scf th h1 = minersum c td scf th h2 := by
  rw [minersum_eq, minersum_eq]
  congr 1
  funext tc
  exact (hp.map _).sum_eq

theorem minersum_linear' (c : Curve ℝ) (td scf k l : ℝ) (th : Option ℝ) (h : List (ℝ × ℝ)) (d : ℝ)
    (e : minersum c td scf th h = some d) :
    minersum c (l * td) scf th (h.map fun p => (p.1, k * p.2)) = some (l * k * d) := by
  rw [minersum_eq] at e ⊢
  cases htf : c.tfactor th with
  | none => rw [htf] at e; simp at e
  | some tc =>
    rw [htf, Option.map_some, Option.some.injEq] at e
    rw [Option.map_some, ← e, List.map_map, ← List.sum_map_mul_left]
    refine congrArg (fun x : List ℝ => some x.sum) (List.map_congr_left fun p _ => ?_)
    simp only [Function.comp_apply]
    ring

theorem minersum_scf' (c : Curve ℝ) (td scf : ℝ) (th : Option ℝ) (h : List (ℝ × ℝ)) :
    minersum c td scf th h = minersum c td 1 th (h.map fun p => (p.1 * scf, p.2)) := by
  simp only [minersum_eq, List.map_map, Function.comp_def, mul_one]

end Qats.SN
