import Qats.Lemmas.Rainflow
import Qats.Lemmas.RainflowRange
import Qats.Lemmas.RainflowSort
import Qats.Lemmas.RainflowEqns
import Qats.Lemmas.RainflowAffine
/-!
Main lemmas behind the C02 / C03 property theorems. Statements are fixed by `Qats/Props/C02.lean`, `C03.lean`.
-/
namespace Qats.Rainflow
set_option linter.unusedSectionVars false
set_option linter.unnecessarySeqFocus false
variable {α : Type} [Field α] [LinearOrder α] [IsStrictOrderedRing α]

/-- Strict alternation peak/valley/peak…; a pair must consist of two different values. -/
def Alt : List α → Prop
  | a :: b :: c :: rest => ((a < b ∧ c < b) ∨ (b < a ∧ b < c)) ∧ Alt (b :: c :: rest)
  | [a, b] => a ≠ b
  | _ => True

/-- `Refines s s'`: `s'` arises from `s` by inserting, any number of times, a sample `w` between two consecutive
samples `u v` with `min u v ≤ w ≤ max u v`. -/
inductive Refines : List α → List α → Prop
  | refl (s : List α) : Refines s s
  | insert (pre : List α) (u w v : α) (post : List α) (h : min u v ≤ w ∧ w ≤ max u v) :
      Refines (pre ++ u :: v :: post) (pre ++ u :: w :: v :: post)
  | trans {s₁ s₂ s₃ : List α} : Refines s₁ s₂ → Refines s₂ s₃ → Refines s₁ s₃

theorem reversals_alt (ep : Bool) (s pts : List α) (hp : reversals ep s = some pts) :
    Alt pts ∨ ∃ c, pts = [c, c] := by
  sorry

theorem cyclesOfPoints_range_nonneg (pts : List α) :
    ∀ c ∈ (cyclesOfPoints pts).1 ++ (cyclesOfPoints pts).2, 0 ≤ c.range := by
  exact cyclesOfPoints_range_nonneg_aux pts

theorem cyclesOfPoints_largest (ep : Bool) (s pts : List α) (hp : reversals ep s = some pts) (h2 : 2 ≤ pts.length)
    (M m : α) (hM : M ∈ pts ∧ ∀ p ∈ pts, p ≤ M) (hm : m ∈ pts ∧ ∀ p ∈ pts, m ≤ p) :
    (∃ c ∈ (cyclesOfPoints pts).1 ++ (cyclesOfPoints pts).2, c.range = M - m) ∧
      ∀ c ∈ (cyclesOfPoints pts).1 ++ (cyclesOfPoints pts).2, c.range ≤ M - m := by
  sorry

theorem countCycles_count_values (ep : Bool) (s : List α) (rows : List (Row α))
    (hr : countCycles ep s = some rows) : ∀ r ∈ rows, r.count = 1 ∨ r.count = 1 / 2 := by
  unfold countCycles at hr
  cases hc : cycles ep s with
  | none => simp [hc] at hr
  | some fh =>
    simp only [hc, Option.map_some, Option.some.injEq] at hr
    subst hr
    intro r hr
    rw [(isort_perm _ _).mem_iff] at hr
    simp only [tagged, List.mem_append, List.mem_map] at hr
    rcases hr with ⟨c, _, rfl⟩ | ⟨c, _, rfl⟩
    · left; norm_num
    · right; norm_num

theorem countCycles_sorted (ep : Bool) (s : List α) (rows : List (Row α)) (hr : countCycles ep s = some rows) :
    rows.Pairwise (fun a b => a.range < b.range ∨ (a.range = b.range ∧ a.mean ≤ b.mean)) := by
  unfold countCycles at hr
  cases hc : cycles ep s with
  | none => simp [hc] at hr
  | some fh =>
    simp only [hc, Option.map_some, Option.some.injEq] at hr
    subst hr
    exact isort_rowLe_pairwise _

theorem countCycles_total (ep : Bool) (s : List α) (h : 2 ≤ s.length) :
    ∃ pts rows, reversals ep s = some pts ∧ countCycles ep s = some rows ∧ (pts.length ≤ 1 → rows = []) := by
  rcases s with _ | ⟨x0, _ | ⟨x1, rest⟩⟩
  · simp at h
  · simp at h
  · obtain ⟨pts, hp⟩ : ∃ pts, reversals ep (x0 :: x1 :: rest) = some pts := ⟨_, rfl⟩
    refine ⟨pts, _, hp, by simp only [countCycles, cycles, hp, Option.map_some]; rfl, ?_⟩
    intro hl
    have := cyclesOfPoints_conservation pts
    have h1 : (cyclesOfPoints pts).1 = [] := List.eq_nil_of_length_eq_zero (by omega)
    have h2 : (cyclesOfPoints pts).2 = [] := List.eq_nil_of_length_eq_zero (by omega)
    simp [tagged, h1, h2, isort]

theorem cycles_affine' (a b : α) (ha : a ≠ 0) (ep : Bool) (s : List α) :
    cycles ep (s.map fun x => a * x + b) =
      (cycles ep s).map fun fh =>
        (fh.1.map (fun c => (⟨|a| * c.range, a * c.mean + b⟩ : Cyc α)),
         fh.2.map (fun c => (⟨|a| * c.range, a * c.mean + b⟩ : Cyc α))) := by
  exact cycles_affine_aux a b ha ep s

theorem count_affine_pos' (a b : α) (ha : 0 < a) (ep : Bool) (s : List α) :
    countCycles ep (s.map fun x => a * x + b) =
      (countCycles ep s).map fun rows => rows.map fun r => ⟨a * r.range, a * r.mean + b, r.count⟩ := by
  exact count_affine_pos_aux a b ha ep s

theorem reversals_refines' {s s' : List α} (h : Refines s s') (ep : Bool) :
    reversals ep s' = reversals ep s := by
  sorry

theorem recount_reversals' (s pts : List α) (hp : reversals false s = some pts) (h2 : 2 ≤ pts.length) :
    countCycles true pts = countCycles false s := by
  sorry

end Qats.Rainflow
