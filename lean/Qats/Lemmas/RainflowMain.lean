import Qats.Lemmas.Rainflow
import Qats.Lemmas.RainflowRange
import Qats.Lemmas.RainflowSort
import Qats.Lemmas.RainflowEqns
import Qats.Lemmas.RainflowAffine
import Qats.Lemmas.RainflowAlt
import Qats.Lemmas.RainflowNest
/-!
Main lemmas behind the C02 / C03 property theorems. Statements are fixed by `Qats/Props/C02.lean`, `C03.lean`.
-/
namespace Qats.Rainflow
set_option linter.unusedSectionVars false
set_option linter.unnecessarySeqFocus false
variable {α : Type} [Field α] [LinearOrder α] [IsStrictOrderedRing α]

/-- Strict alternation peak/valley/peak…; a pair must consist of two different values. -/
def Alt : List α → Prop
  | a :: b :: c :: rest => ((a < b ∧ c < b) ∨ (b < a ∧ b < c)) ∧ Alt (b :: c :: rest)
  | [a, b] => a ≠ b
  | _ => True

/-- `Refines s s'`: `s'` arises from `s` by inserting, any number of times, a sample `w` between two consecutive
samples `u v` with `min u v ≤ w ≤ max u v`. -/
inductive Refines : List α → List α → Prop
  | refl (s : List α) : Refines s s
  | insert (pre : List α) (u w v : α) (post : List α) (h : min u v ≤ w ∧ w ≤ max u v) :
      Refines (pre ++ u :: v :: post) (pre ++ u :: w :: v :: post)
  | trans {s₁ s₂ s₃ : List α} : Refines s₁ s₂ → Refines s₂ s₃ → Refines s₁ s₃

theorem AltD.alt {up : Bool} {l : List α} (h : AltD up l) : Alt l := by
  induction l generalizing up with
  | nil => trivial
  | cons a l ih =>
    rcases l with _ | ⟨b, _ | ⟨c, l⟩⟩
    · trivial
    · cases up
      · exact ((altD_false_cons _ _ _).mp h).1.ne'
      · exact ((altD_true_cons _ _ _).mp h).1.ne
    · refine ⟨?_, ih (up := !up) (by cases up <;> simp_all [AltD])⟩
      cases up
      · rw [altD_false_cons, altD_true_cons] at h
        exact Or.inr ⟨h.1, h.2.1⟩
      · rw [altD_true_cons, altD_false_cons] at h
        exact Or.inl ⟨h.1, h.2.1⟩

theorem Alt.altD {l : List α} (h : Alt l) : ∃ up, AltD up l := by
  induction l with
  | nil => exact ⟨true, by simp⟩
  | cons a l ih =>
    rcases l with _ | ⟨b, _ | ⟨c, l⟩⟩
    · exact ⟨true, by simp⟩
    · rcases lt_or_gt_of_ne (show a ≠ b from h) with h' | h'
      · exact ⟨true, by simp [AltD, h']⟩
      · exact ⟨false, by simp [AltD, h']⟩
    · obtain ⟨up, hup⟩ := ih h.2
      cases up
      · rw [altD_false_cons] at hup
        refine ⟨true, ?_⟩
        rw [altD_true_cons, altD_false_cons]
        rcases h.1 with h1 | h1
        · exact ⟨h1.1, hup⟩
        · exact absurd h1.2 (not_lt.mpr hup.1.le)
      · rw [altD_true_cons] at hup
        refine ⟨false, ?_⟩
        rw [altD_false_cons, altD_true_cons]
        rcases h.1 with h1 | h1
        · exact absurd h1.2 (not_lt.mpr hup.1.le)
        · exact ⟨h1.1, hup⟩

theorem reversals_alt (ep : Bool) (s pts : List α) (hp : reversals ep s = some pts) :
    Alt pts ∨ ∃ c, pts = [c, c] := by
  rcases s with _ | ⟨x0, _ | ⟨x1, rest⟩⟩
  · simp [reversals] at hp
  · simp [reversals] at hp
  · simp only [reversals, Option.some.injEq] at hp
    subst hp
    cases ep
    · left
      obtain ⟨up, h⟩ := reversals_false_altD x1 (x1 - x0) rest
      simpa using h.alt
    · rcases reversals_true_altD x0 x1 rest with ⟨up, h⟩ | h
      · left; simpa [revL] using h.alt
      · right; exact ⟨x0, by simpa [revL] using h⟩

theorem cyclesOfPoints_range_nonneg (pts : List α) :
    ∀ c ∈ (cyclesOfPoints pts).1 ++ (cyclesOfPoints pts).2, 0 ≤ c.range := by
  exact cyclesOfPoints_range_nonneg_aux pts

theorem cyclesOfPoints_largest (ep : Bool) (s pts : List α) (hp : reversals ep s = some pts) (h2 : 2 ≤ pts.length)
    (M m : α) (hM : M ∈ pts ∧ ∀ p ∈ pts, p ≤ M) (hm : m ∈ pts ∧ ∀ p ∈ pts, m ≤ p) :
    (∃ c ∈ (cyclesOfPoints pts).1 ++ (cyclesOfPoints pts).2, c.range = M - m) ∧
      ∀ c ∈ (cyclesOfPoints pts).1 ++ (cyclesOfPoints pts).2, c.range ≤ M - m := by
  refine ⟨?_, cyclesOfPoints_range_le pts M m hM.2 hm.2⟩
  rcases reversals_alt ep s pts hp with hA | ⟨c, rfl⟩
  · obtain ⟨up, hup⟩ := hA.altD
    exact cyclesOfPoints_largest_exists up pts h2 hup M m hM hm
  · have hMc : M = c := by simpa using hM.1
    have hmc : m = c := by simpa using hm.1
    rw [hMc, hmc]
    refine ⟨⟨|c - c|, 1 / 2 * (c + c)⟩, ?_, by simp⟩
    simp [cyclesOfPoints, feed_cons, feed_nil, reduce_nil, reduce_single, leftovers_cons_cons, leftovers_single]

theorem countCycles_count_values (ep : Bool) (s : List α) (rows : List (Row α))
    (hr : countCycles ep s = some rows) : ∀ r ∈ rows, r.count = 1 ∨ r.count = 1 / 2 := by
  unfold countCycles at hr
  cases hc : cycles ep s with
  | none => simp [hc] at hr
  | some fh =>
    simp only [hc, Option.map_some, Option.some.injEq] at hr
    subst hr
    intro r hr
    rw [(isort_perm _ _).mem_iff] at hr
    simp only [tagged, List.mem_append, List.mem_map] at hr
    rcases hr with ⟨c, _, rfl⟩ | ⟨c, _, rfl⟩
    · left; norm_num
    · right; norm_num

theorem countCycles_sorted (ep : Bool) (s : List α) (rows : List (Row α)) (hr : countCycles ep s = some rows) :
    rows.Pairwise (fun a b => a.range < b.range ∨ (a.range = b.range ∧ a.mean ≤ b.mean)) := by
  unfold countCycles at hr
  cases hc : cycles ep s with
  | none => simp [hc] at hr
  | some fh =>
    simp only [hc, Option.map_some, Option.some.injEq] at hr
    subst hr
    exact isort_rowLe_pairwise _

theorem countCycles_total (ep : Bool) (s : List α) (h : 2 ≤ s.length) :
    ∃ pts rows, reversals ep s = some pts ∧ countCycles ep s = some rows ∧ (pts.length ≤ 1 → rows = []) := by
  rcases s with _ | ⟨x0, _ | ⟨x1, rest⟩⟩
  · simp at h
  · simp at h
  · obtain ⟨pts, hp⟩ : ∃ pts, reversals ep (x0 :: x1 :: rest) = some pts := ⟨_, rfl⟩
    refine ⟨pts, _, hp, by simp only [countCycles, cycles, hp, Option.map_some]; rfl, ?_⟩
    intro hl
    have := cyclesOfPoints_conservation pts
    have h1 : (cyclesOfPoints pts).1 = [] := List.eq_nil_of_length_eq_zero (by omega)
    have h2 : (cyclesOfPoints pts).2 = [] := List.eq_nil_of_length_eq_zero (by omega)
    simp [tagged, h1, h2, isort]

theorem cycles_affine' (a b : α) (ha : a ≠ 0) (ep : Bool) (s : List α) :
    cycles ep (s.map fun x => a * x + b) =
      (cycles ep s).map fun fh =>
        (fh.1.map (fun c => (⟨|a| * c.range, a * c.mean + b⟩ : Cyc α)),
         fh.2.map (fun c => (⟨|a| * c.range, a * c.mean + b⟩ : Cyc α))) := by
  exact cycles_affine_aux a b ha ep s

theorem count_affine_pos' (a b : α) (ha : 0 < a) (ep : Bool) (s : List α) :
    countCycles ep (s.map fun x => a * x + b) =
      (countCycles ep s).map fun rows => rows.map fun r => ⟨a * r.range, a * r.mean + b, r.count⟩ := by
  exact count_affine_pos_aux a b ha ep s

theorem reversals_refines' {s s' : List α} (h : Refines s s') (ep : Bool) :
    reversals ep s' = reversals ep s := by
  induction h with
  | refl s => rfl
  | insert pre u w v post h => exact reversals_insert ep pre u w v post h
  | trans _ _ ih1 ih2 => rw [ih2, ih1]

theorem recount_reversals' (s pts : List α) (hp : reversals false s = some pts) (h2 : 2 ≤ pts.length) :
    countCycles true pts = countCycles false s := by
  have hA : Alt pts := by
    rcases reversals_alt false s pts hp with h | ⟨c, rfl⟩
    · exact h
    · rcases s with _ | ⟨x0, _ | ⟨x1, rest⟩⟩
      · simp [reversals] at hp
      · simp [reversals] at hp
      · simp only [reversals, Option.some.injEq] at hp
        obtain ⟨up, h⟩ := reversals_false_altD x1 (x1 - x0) rest
        have : (revLoop x1 (x1 - x0) rest).1 = [c, c] := by simpa using hp
        rw [this] at h
        exact h.alt
  obtain ⟨up, hup⟩ := hA.altD
  simp only [countCycles, cycles, reversals_true_of_altD up pts h2 hup, hp]

end Qats.Rainflow
