import Qats.Lemmas.RainflowAlt
import Qats.Lemmas.RainflowRange
namespace Qats.Rainflow
set_option linter.unusedSectionVars false
set_option linter.unnecessarySeqFocus false
variable {α : Type} [Field α] [LinearOrder α] [IsStrictOrderedRing α]

/-- Stack invariant (newest first). `NestD true (a :: b :: c :: _)`: the newest edge `b → a` goes up and `a` lies
strictly between `b` and `c`; this encodes both strict alternation and strictly growing ranges towards the
older end. -/
def NestD : Bool → List α → Prop
  | up, a :: b :: c :: rest => (if up then b < a ∧ a < c else a < b ∧ c < a) ∧ NestD (!up) (b :: c :: rest)
  | up, [a, b] => if up then b < a else a < b
  | _, _ => True

@[simp] theorem nestD_nil (up : Bool) : NestD up ([] : List α) := by simp [NestD]
@[simp] theorem nestD_single (up : Bool) (a : α) : NestD up [a] := by simp [NestD]
theorem nestD_pair (up : Bool) (a b : α) : NestD up [a, b] ↔ if up then b < a else a < b := by simp [NestD]
theorem nestD_cons3 (up : Bool) (a b c : α) (rest : List α) :
    NestD up (a :: b :: c :: rest) ↔
      (if up then b < a ∧ a < c else a < b ∧ c < a) ∧ NestD (!up) (b :: c :: rest) := by simp [NestD]

theorem NestD.tail {up : Bool} {a : α} {l : List α} (h : NestD up (a :: l)) : NestD (!up) l := by
  rcases l with _ | ⟨b, _ | ⟨c, l⟩⟩
  · simp
  · simp
  · exact ((nestD_cons3 _ _ _ _ _).mp h).2

theorem NestD.top {up : Bool} {a b : α} {l : List α} (h : NestD up (a :: b :: l)) :
    if up then b < a else a < b := by
  rcases l with _ | ⟨c, l⟩
  · exact (nestD_pair _ _ _).mp h
  · have := ((nestD_cons3 _ _ _ _ _).mp h).1
    cases up <;> simp_all

/-- an interval containing all of `l` -/
def InIcc (lo hi : α) (l : List α) : Prop := ∀ q ∈ l, lo ≤ q ∧ q ≤ hi

theorem abs_cmp_up {p1 p2 p3 : α} (h1 : p2 < p1) (h2 : p2 < p3) : |p2 - p1| < |p3 - p2| ↔ p1 < p3 := by
  rw [abs_of_neg (by linarith), abs_of_pos (by linarith)]
  constructor <;> intro <;> linarith

theorem abs_cmp_down {p1 p2 p3 : α} (h1 : p1 < p2) (h2 : p3 < p2) : |p2 - p1| < |p3 - p2| ↔ p3 < p1 := by
  rw [abs_of_pos (by linarith), abs_of_neg (by linarith)]
  constructor <;> intro <;> linarith

theorem reduce_inv (up : Bool) (p1 : α) (st : List α)
    (htop : ∀ p2 t, st = p2 :: t → if up then p2 < p1 else p1 < p2) (hN : NestD (!up) st) :
    NestD up (reduce p1 st).stack ∧ (∃ t, (reduce p1 st).stack = p1 :: t) ∧
      ∀ lo hi, InIcc lo hi (reduce p1 st).stack → InIcc lo hi (p1 :: st) := by
  fun_induction reduce p1 st with
  | case1 p2 p3 rest x y h =>
    simp only [x, y, abs'_eq_abs] at h
    refine ⟨?_, ⟨_, rfl⟩, fun lo hi hI => hI⟩
    have h1 := htop p2 _ rfl
    have h2 := hN.top
    rw [nestD_cons3]
    refine ⟨?_, hN⟩
    cases up
    · simp only [Bool.false_eq_true, if_false, Bool.not_false, if_true] at h1 h2 ⊢
      exact ⟨h1, (abs_cmp_down h1 h2).mp h⟩
    · simp only [Bool.false_eq_true, if_false, Bool.not_true, if_true] at h1 h2 ⊢
      exact ⟨h1, (abs_cmp_up h1 h2).mp h⟩
  | case2 p2 p3 rest x y m h h2 =>
    simp only [x, y, abs'_eq_abs] at h
    simp only [List.isEmpty_iff] at h2
    subst h2
    have h1 := htop p2 _ rfl
    have h2 := hN.top
    refine ⟨(nestD_pair _ _ _).mpr h1, ⟨_, rfl⟩, ?_⟩
    intro lo hi hI
    have hp1 := hI p1 (by simp)
    have hp2 := hI p2 (by simp)
    intro q hq
    simp only [List.mem_cons, List.not_mem_nil, or_false] at hq
    cases up
    · simp only [Bool.false_eq_true, if_false, Bool.not_false, if_true] at h1 h2
      have := not_lt.mp (mt (abs_cmp_down h1 h2).mpr h)
      rcases hq with rfl | rfl | rfl
      · exact hp1
      · exact hp2
      · exact ⟨by linarith, by linarith⟩
    · simp only [Bool.false_eq_true, if_false, Bool.not_true, if_true] at h1 h2
      have := not_lt.mp (mt (abs_cmp_up h1 h2).mpr h)
      rcases hq with rfl | rfl | rfl
      · exact hp1
      · exact hp2
      · exact ⟨by linarith, by linarith⟩
  | case3 p2 p3 rest x y m h h2 o ih =>
    simp only [x, y, abs'_eq_abs] at h
    simp only [List.isEmpty_iff] at h2
    obtain ⟨p4, rest', rfl⟩ := List.exists_cons_of_ne_nil h2
    have h1 := htop p2 _ rfl
    have h23 := hN.top
    have h34 := ((nestD_cons3 _ _ _ _ _).mp hN).1
    have hN' : NestD (!up) (p4 :: rest') := by simpa using hN.tail.tail
    have key : (if up then p4 < p2 ∧ p2 < p3 ∧ p3 ≤ p1 else p1 ≤ p3 ∧ p3 < p2 ∧ p2 < p4) := by
      cases up
      · simp only [Bool.false_eq_true, if_false, Bool.not_false, if_true] at h1 h23 h34 ⊢
        exact ⟨not_lt.mp (mt (abs_cmp_down h1 h23).mpr h), h23, h34.2⟩
      · simp only [Bool.false_eq_true, if_false, Bool.not_true, if_true] at h1 h23 h34 ⊢
        exact ⟨h34.2, h23, not_lt.mp (mt (abs_cmp_up h1 h23).mpr h)⟩
    have htop' : ∀ q t, p4 :: rest' = q :: t → if up then q < p1 else p1 < q := by
      intro q t e
      obtain ⟨rfl, -⟩ := List.cons.inj e
      cases up
      · simp only [Bool.false_eq_true, if_false] at h1 key ⊢; linarith [key.2.2]
      · simp only [if_true] at h1 key ⊢; linarith [key.1]
    obtain ⟨ihN, iht, ihI⟩ := ih htop' hN'
    refine ⟨ihN, iht, ?_⟩
    intro lo hi hI
    have hI' := ihI lo hi hI
    have hp1 := hI' p1 (by simp)
    have hp4 := hI' p4 (by simp)
    intro q hq
    simp only [List.mem_cons] at hq
    rcases hq with rfl | rfl | rfl | hq
    · exact hp1
    · cases up
      · simp only [Bool.false_eq_true, if_false] at key; exact ⟨by linarith [key.1, key.2.1], by linarith [key.2.2]⟩
      · simp only [if_true] at key; exact ⟨by linarith [key.1], by linarith [key.2.1, key.2.2]⟩
    · cases up
      · simp only [Bool.false_eq_true, if_false] at key; exact ⟨by linarith [key.1], by linarith [key.2.1, key.2.2]⟩
      · simp only [if_true] at key; exact ⟨by linarith [key.1, key.2.1], by linarith [key.2.2]⟩
    · exact hI' q (by simp only [List.mem_cons]; exact Or.inr hq)
  | case4 s hs =>
    rcases s with _ | ⟨p2, _ | ⟨p3, rest⟩⟩
    · exact ⟨by simp, ⟨_, rfl⟩, fun lo hi hI => hI⟩
    · exact ⟨(nestD_pair _ _ _).mpr (htop p2 _ rfl), ⟨_, rfl⟩, fun lo hi hI => hI⟩
    · exact absurd rfl (hs p2 p3 rest)

theorem reduce_stack_len (p : α) (s : List α) (hs : s ≠ []) : 2 ≤ (reduce p s).stack.length := by
  fun_induction reduce p s with
  | case1 => simp
  | case2 => simp
  | case3 p2 p3 rest x y m h h2 o ih => exact ih (by simpa using h2)
  | case4 s h =>
    rcases s with _ | ⟨p2, s⟩
    · exact absurd rfl hs
    · simp

theorem feed_stack_len (st pts : List α) (hs : 2 ≤ st.length) : 2 ≤ (feed st pts).stack.length := by
  induction pts generalizing st with
  | nil => simpa [feed_nil] using hs
  | cons r rs ih =>
    rw [feed_cons]
    exact ih _ (reduce_stack_len r st (by rintro rfl; simp at hs))

theorem feed_inv (pts : List α) (up : Bool) (top : α) (st : List α)
    (hN : NestD (!up) (top :: st)) (hA : AltD up (top :: pts)) :
    (∃ d, NestD d (feed (top :: st) pts).stack) ∧
      ∀ lo hi, InIcc lo hi (feed (top :: st) pts).stack → InIcc lo hi ((top :: st) ++ pts) := by
  induction pts generalizing up top st with
  | nil =>
    refine ⟨⟨_, hN⟩, fun lo hi hI => ?_⟩
    simpa [feed_nil] using hI
  | cons r rs ih =>
    have hA' : (if up then top < r else r < top) ∧ AltD (!up) (r :: rs) := by
      cases up
      · simpa using (altD_false_cons _ _ _).mp hA
      · simpa using (altD_true_cons _ _ _).mp hA
    obtain ⟨hN1, ⟨t, ht⟩, hI1⟩ := reduce_inv up r (top :: st)
      (fun p2 t e => by obtain ⟨rfl, -⟩ := List.cons.inj e; exact hA'.1) hN
    rw [feed_cons]
    simp only
    rw [ht] at hN1 hI1 ⊢
    obtain ⟨ihN, ihI⟩ := ih (!up) r t (by simpa using hN1) hA'.2
    refine ⟨ihN, fun lo hi hI => ?_⟩
    have h1 := ihI lo hi hI
    have h2 := hI1 lo hi (fun q hq => h1 q (by simp only [List.mem_append]; exact Or.inl hq))
    intro q hq
    simp only [List.cons_append, List.mem_cons, List.mem_append] at hq
    rcases hq with rfl | hq | rfl | hq
    · exact h2 q (by simp)
    · exact h2 q (by simp [hq])
    · exact h2 q (by simp)
    · exact h1 q (by simp [hq])

theorem leftovers_nest (up : Bool) (a b : α) (l : List α) (hN : NestD up (a :: b :: l)) :
    ∃ c ∈ leftovers (a :: b :: l), ∃ lo ∈ a :: b :: l, ∃ hi ∈ a :: b :: l,
      c.range = hi - lo ∧ InIcc lo hi (a :: b :: l) := by
  induction l generalizing up a b with
  | nil =>
    rw [nestD_pair] at hN
    refine ⟨_, by rw [leftovers_cons_cons]; exact List.mem_cons_self, ?_⟩
    cases up
    · simp only [Bool.false_eq_true, if_false] at hN
      refine ⟨a, by simp, b, by simp, abs_of_pos (sub_pos.mpr hN), ?_⟩
      intro q hq
      simp only [List.mem_cons, List.not_mem_nil, or_false] at hq
      rcases hq with rfl | rfl
      · exact ⟨le_rfl, hN.le⟩
      · exact ⟨hN.le, le_rfl⟩
    · simp only [if_true] at hN
      refine ⟨b, by simp, a, by simp, ?_, ?_⟩
      · show |b - a| = a - b
        rw [abs_of_neg (sub_neg.mpr hN)]; ring
      · intro q hq
        simp only [List.mem_cons, List.not_mem_nil, or_false] at hq
        rcases hq with rfl | rfl
        · exact ⟨hN.le, le_rfl⟩
        · exact ⟨le_rfl, hN.le⟩
  | cons c l ih =>
    rw [nestD_cons3] at hN
    obtain ⟨cy, hcy, lo, hlo, hi, hhi, hr, hI⟩ := ih (!up) b c hN.2
    refine ⟨cy, by rw [leftovers_cons_cons]; exact List.mem_cons_of_mem _ hcy,
      lo, List.mem_cons_of_mem _ hlo, hi, List.mem_cons_of_mem _ hhi, hr, ?_⟩
    have hb := hI b (by simp)
    have hc := hI c (by simp)
    intro q hq
    rcases List.mem_cons.mp hq with rfl | hq
    · cases up
      · simp only [Bool.false_eq_true, if_false] at hN
        exact ⟨by linarith [hN.1.2, hc.1], by linarith [hN.1.1, hb.2]⟩
      · simp only [if_true] at hN
        exact ⟨by linarith [hN.1.1, hb.1], by linarith [hN.1.2, hc.2]⟩
    · exact hI q hq

/-- Existence of a cycle spanning the whole range, for a directed alternating sequence of ≥ 2 points. -/
theorem cyclesOfPoints_largest_exists (up : Bool) (pts : List α) (h2 : 2 ≤ pts.length) (hA : AltD up pts)
    (M m : α) (hM : M ∈ pts ∧ ∀ p ∈ pts, p ≤ M) (hm : m ∈ pts ∧ ∀ p ∈ pts, m ≤ p) :
    ∃ c ∈ (cyclesOfPoints pts).1 ++ (cyclesOfPoints pts).2, c.range = M - m := by
  rcases pts with _ | ⟨r0, _ | ⟨r1, rs⟩⟩
  · simp at h2
  · simp at h2
  · have hst : (feed [] (r0 :: r1 :: rs)).stack = (feed [r1, r0] rs).stack := by
      simp [feed_cons, reduce_nil, reduce_single]
    have hA' : (if up then r0 < r1 else r1 < r0) ∧ AltD (!up) (r1 :: rs) := by
      cases up
      · simpa using (altD_false_cons _ _ _).mp hA
      · simpa using (altD_true_cons _ _ _).mp hA
    obtain ⟨⟨d, hN⟩, hI⟩ := feed_inv rs (!up) r1 [r0] (by simpa [nestD_pair] using hA'.1) hA'.2
    have hlen := feed_stack_len [r1, r0] rs (by simp)
    have hsub := (feed_mem (· ∈ r0 :: r1 :: rs) [] (r0 :: r1 :: rs) (by simp) (fun q hq => hq)).2.2
    rw [hst] at hsub
    obtain ⟨a, b, l, hl⟩ : ∃ a b l, (feed [r1, r0] rs).stack = a :: b :: l := by
      generalize (feed [r1, r0] rs).stack = S at hlen
      rcases S with _ | ⟨a, _ | ⟨b, l⟩⟩
      · simp at hlen
      · simp at hlen
      · exact ⟨a, b, l, rfl⟩
    rw [hl] at hN hI hsub
    obtain ⟨cy, hcy, lo, hlo, hi, hhi, hr, hIcc⟩ := leftovers_nest d a b l hN
    have hall := hI lo hi hIcc
    have hall' : ∀ q ∈ r0 :: r1 :: rs, lo ≤ q ∧ q ≤ hi := by
      intro q hq
      apply hall q
      simp only [List.mem_cons, List.cons_append, List.nil_append] at hq ⊢
      tauto
    have hM' : hi = M := le_antisymm (hM.2 hi (hsub hi hhi)) (hall' M hM.1).2
    have hm' : lo = m := le_antisymm (hall' m hm.1).1 (hm.2 lo (hsub lo hlo))
    refine ⟨cy, ?_, by rw [hr, hM', hm']⟩
    simp only [cyclesOfPoints, hst, hl, List.mem_append]
    exact Or.inr (Or.inr hcy)

end Qats.Rainflow
