import Qats.Lemmas.RegistryCoh
namespace Qats.Registry
open Qats.Names

def loadStep (file : Str) (indexed : Bool) (d : Db) (jk : Nat × Str) : Db :=
  addKey d jk.2 none (some file) (if indexed then some (jk.1 + 1) else none)

def cpStep (deep : Bool) (src : Db) (acc : Db × Nat) (kv : Str × Nat) : Db × Nat :=
  (addKey acc.1 kv.1 (some (if deep then acc.2 else kv.2)) ((lookup src.parents kv.1).getD none)
    ((lookup src.indices kv.1).getD none), if deep then acc.2 + 1 else acc.2)

theorem step_load (s : State) (w : Which) (file : Str) (names : List Str) (indexed read : Bool) :
    step s (.load w file names indexed read) =
      if ((names.map fun n => pathJoin file n).any fun k => hasKey (getDb s w).register k) then (s, .error .key)
      else if read then
        ({ setDb s w (readKeys ((List.zip (List.range names.length) (names.map fun n => pathJoin file n)).foldl
              (loadStep file indexed) (getDb s w)) s.next (names.map fun n => pathJoin file n) true).1 with
            next := (readKeys ((List.zip (List.range names.length) (names.map fun n => pathJoin file n)).foldl
              (loadStep file indexed) (getDb s w)) s.next (names.map fun n => pathJoin file n) true).2.1 }, .done)
      else (setDb s w ((List.zip (List.range names.length) (names.map fun n => pathJoin file n)).foldl
              (loadStep file indexed) (getDb s w)), .done) := rfl

theorem step_add (s : State) (w : Which) (name : Str) :
    step s (.add w name) =
      if hasKey (getDb s w).register (pathJoin (common (getDb s w).keys) name) then (s, .error .key)
      else ({ setDb s w (addKey (getDb s w) (pathJoin (common (getDb s w).keys) name) (some s.next) none none) with
                next := s.next + 1 }, .done) := rfl

theorem step_rename (s : State) (w : Which) (name newname : Str) :
    step s (.rename w name newname) =
      match listKeys (getDb s w).keys [name] with
      | [] => (s, .error .lookup)
      | [old] =>
        if (getDb s w).keys.contains (pathJoin (pathDirname old) newname) then (s, .error .value)
        else (setDb s w (renKey (getDb s w) old (pathJoin (pathDirname old) newname)), .done)
      | _ => (s, .error .value) := rfl

theorem step_clear (s : State) (w : Which) (pattern : Option Str) :
    step s (.clear w pattern) =
      (setDb s w ((match pattern with
        | none => (getDb s w).keys
        | some p => listKeys (getDb s w).keys [p]).foldl dropKey (getDb s w)), .done) := rfl

theorem step_update (s : State) (names : Option (List Str)) (deep : Bool) :
    step s (.update names deep) =
      let r := readKeys s.b s.next (select s.b names) true
      if r.2.2.any fun kv => hasKey s.a.register kv.1 then ({ s with b := r.1, next := r.2.1 }, .error .key)
      else ({ s with b := r.1, a := (r.2.2.foldl (cpStep deep r.1) (s.a, r.2.1)).1,
                     next := (r.2.2.foldl (cpStep deep r.1) (s.a, r.2.1)).2 }, .done) := rfl

theorem step_copy (s : State) (names : Option (List Str)) (deep : Bool) :
    step s (.copy names deep) =
      let r := readKeys s.a s.next (select s.a names) true
      ({ a := r.1, b := (r.2.2.foldl (cpStep deep r.1) (({} : Db), r.2.1)).1,
         next := (r.2.2.foldl (cpStep deep r.1) (({} : Db), r.2.1)).2 }, .done) := rfl

theorem step_getm (s : State) (w : Which) (names : Option (List Str)) (store : Bool) :
    step s (.getm w names store) =
      let r := readKeys (getDb s w) s.next (select (getDb s w) names) store
      ({ setDb s w r.1 with next := r.2.1 }, .series r.2.2) := rfl

theorem step_getInd (s : State) (w : Which) (ind : Nat) (store : Bool) :
    step s (.getInd w ind store) =
      match (getDb s w).keys[ind]? with
      | none => (s, .error .index)
      | some k =>
        let r := readKeys (getDb s w) s.next [k] store
        ({ setDb s w r.1 with next := r.2.1 }, .series r.2.2) := rfl

/-! ### plumbing for the two databases -/

theorem getDb_setDb (s : State) (w : Which) (d : Db) : getDb (setDb s w d) w = d := by cases w <;> rfl

theorem coh_getDb {s : State} (ha : Coh s.a) (hb : Coh s.b) (w : Which) : Coh (getDb s w) := by
  cases w <;> assumption

theorem coh_setDb {s : State} (ha : Coh s.a) (hb : Coh s.b) (w : Which) {d : Db} (hd : Coh d) :
    Coh (setDb s w d).a ∧ Coh (setDb s w d).b := by
  cases w
  · exact ⟨hd, hb⟩
  · exact ⟨ha, hd⟩

theorem coh_setDb_next {s : State} (ha : Coh s.a) (hb : Coh s.b) (w : Which) {d : Db} (hd : Coh d) (n : Nat) :
    Coh ({ setDb s w d with next := n } : State).a ∧ Coh ({ setDb s w d with next := n } : State).b :=
  coh_setDb ha hb w hd

/-! ### coherence, one operation at a time -/

theorem coh_load_fold (file : Str) (indexed : Bool) (d : Db) (hd : Coh d) (newKeys : List Str) (m : Nat)
    (hm : newKeys.length ≤ m)
    (hnd : newKeys.Nodup) (hnew : ∀ k ∈ newKeys, k ∉ d.keys) :
    Coh ((List.zip (List.range m) newKeys).foldl (loadStep file indexed) d) ∧
      ((List.zip (List.range m) newKeys).foldl (loadStep file indexed) d).keys = d.keys ++ newKeys := by
  have hsnd : (List.zip (List.range m) newKeys).map Prod.snd = newKeys :=
    List.map_snd_zip (by simpa using hm)
  have := coh_foldl_add (loadStep file indexed) id Prod.snd (fun st x => ⟨_, _, _, rfl⟩)
    (List.zip (List.range m) newKeys) d hd (by rw [hsnd]; exact hnd)
    (fun x hx => hnew _ (hsnd ▸ List.mem_map_of_mem (f := Prod.snd) hx))
  rw [hsnd] at this
  exact this

theorem coh_step_load (s : State) (w : Which) (file : Str) (names : List Str) (indexed read : Bool)
    (hw : (names.map fun n => pathJoin file n).Nodup) (ha : Coh s.a) (hb : Coh s.b) :
    Coh (step s (.load w file names indexed read)).1.a ∧ Coh (step s (.load w file names indexed read)).1.b := by
  rw [step_load]
  have hd := coh_getDb ha hb w
  split
  · exact ⟨ha, hb⟩
  · rename_i hany
    have hnew : ∀ k ∈ names.map (fun n => pathJoin file n), k ∉ (getDb s w).keys := by
      intro k hk
      rw [← hd.hasKey_register_false]
      simp only [List.any_eq_true, not_exists, not_and, Bool.not_eq_true] at hany
      exact hany k hk
    have hf := coh_load_fold file indexed (getDb s w) hd (names.map fun n => pathJoin file n) names.length
      (by simp) hw hnew
    split
    · refine coh_setDb_next ha hb w (coh_readKeys hf.1 _ _ _ ?_) _
      intro k hk
      rw [hf.2]; exact List.mem_append_right _ hk
    · exact coh_setDb ha hb w hf.1

theorem coh_step_add (s : State) (w : Which) (name : Str) (ha : Coh s.a) (hb : Coh s.b) :
    Coh (step s (.add w name)).1.a ∧ Coh (step s (.add w name)).1.b := by
  rw [step_add]
  have hd := coh_getDb ha hb w
  split
  · exact ⟨ha, hb⟩
  · rename_i hk
    rw [Bool.not_eq_true, hd.hasKey_register_false] at hk
    exact coh_setDb_next ha hb w (coh_addKey hd hk _ _ _) _

theorem coh_step_rename (s : State) (w : Which) (name newname : Str) (ha : Coh s.a) (hb : Coh s.b) :
    Coh (step s (.rename w name newname)).1.a ∧ Coh (step s (.rename w name newname)).1.b := by
  rw [step_rename]
  have hd := coh_getDb ha hb w
  split
  · exact ⟨ha, hb⟩
  · rename_i old hold
    split
    · exact ⟨ha, hb⟩
    · rename_i hc
      have ho : old ∈ (getDb s w).keys := by
        apply (listKeys_single_sublist (getDb s w).keys name).subset
        rw [hold]; exact List.mem_singleton_self _
      have hn : pathJoin (pathDirname old) newname ∉ (getDb s w).keys := by
        simpa using hc
      exact coh_setDb ha hb w (coh_renKey hd ho hn)
  · exact ⟨ha, hb⟩

theorem coh_step_clear (s : State) (w : Which) (pattern : Option Str) (ha : Coh s.a) (hb : Coh s.b) :
    Coh (step s (.clear w pattern)).1.a ∧ Coh (step s (.clear w pattern)).1.b := by
  rw [step_clear]
  exact coh_setDb ha hb w (coh_foldl_drop _ _ (coh_getDb ha hb w))

theorem coh_cp_fold (deep : Bool) (src : Db) (cont : List (Str × Nat)) (d : Db) (n : Nat) (hd : Coh d)
    (hnd : (cont.map (·.1)).Nodup) (hnew : ∀ kv ∈ cont, kv.1 ∉ d.keys) :
    Coh (cont.foldl (cpStep deep src) (d, n)).1 ∧
      (cont.foldl (cpStep deep src) (d, n)).1.keys = d.keys ++ cont.map (·.1) :=
  coh_foldl_add (cpStep deep src) Prod.fst Prod.fst (fun _ _ => ⟨_, _, _, rfl⟩) cont (d, n) hd hnd hnew

theorem coh_step_update (s : State) (names : Option (List Str)) (deep : Bool) (ha : Coh s.a) (hb : Coh s.b) :
    Coh (step s (.update names deep)).1.a ∧ Coh (step s (.update names deep)).1.b := by
  rw [step_update]
  have hb' : Coh (readKeys s.b s.next (select s.b names) true).1 :=
    coh_readKeys hb _ _ _ (select_subset s.b names)
  simp only
  split
  · exact ⟨ha, hb'⟩
  · rename_i hany
    refine ⟨?_, hb'⟩
    refine (coh_cp_fold deep _ _ s.a _ ha ?_ ?_).1
    · rw [readKeys_out_keys]; exact select_nodup _ _ hb.1
    · intro kv hkv
      rw [← ha.hasKey_register_false]
      simp only [List.any_eq_true, not_exists, not_and, Bool.not_eq_true] at hany
      exact hany kv hkv

theorem coh_step_copy (s : State) (names : Option (List Str)) (deep : Bool) (ha : Coh s.a) :
    Coh (step s (.copy names deep)).1.a ∧ Coh (step s (.copy names deep)).1.b := by
  rw [step_copy]
  refine ⟨coh_readKeys ha _ _ _ (select_subset s.a names), ?_⟩
  refine (coh_cp_fold deep _ _ {} _ coh_empty ?_ ?_).1
  · rw [readKeys_out_keys]; exact select_nodup _ _ ha.1
  · intro kv _; exact List.not_mem_nil

theorem coh_step_getm (s : State) (w : Which) (names : Option (List Str)) (store : Bool) (ha : Coh s.a)
    (hb : Coh s.b) :
    Coh (step s (.getm w names store)).1.a ∧ Coh (step s (.getm w names store)).1.b := by
  rw [step_getm]
  exact coh_setDb_next ha hb w (coh_readKeys (coh_getDb ha hb w) _ _ _ (select_subset _ names)) _

theorem coh_step_getInd (s : State) (w : Which) (ind : Nat) (store : Bool) (ha : Coh s.a) (hb : Coh s.b) :
    Coh (step s (.getInd w ind store)).1.a ∧ Coh (step s (.getInd w ind store)).1.b := by
  rw [step_getInd]
  split
  · exact ⟨ha, hb⟩
  · rename_i k hk
    refine coh_setDb_next ha hb w (coh_readKeys (coh_getDb ha hb w) _ _ _ ?_) _
    intro k' hk'
    rw [List.mem_singleton] at hk'
    subst hk'
    exact List.mem_of_getElem? hk

end Qats.Registry
