import Qats.Model.Motion
import Qats.Lemmas.RealOps
import Mathlib.Tactic
/-!
Main lemmas behind the C20 property theorems (statements fixed by `Qats/Props/C20.lean`).
-/
namespace Qats.Motion
open Qats Qats.Gen

/-! ### rotation (over ℝ; `TranscOps.cos = Real.cos`, `TranscOps.sin = Real.sin`) -/

/-- Elementary rotations (the "independent Euler rotation"). -/
noncomputable def rotX (r : ℝ) (v : V3 ℝ) : V3 ℝ := ⟨v.x, Real.cos r * v.y - Real.sin r * v.z, Real.sin r * v.y + Real.cos r * v.z⟩
noncomputable def rotY (r : ℝ) (v : V3 ℝ) : V3 ℝ := ⟨Real.cos r * v.x + Real.sin r * v.z, v.y, -Real.sin r * v.x + Real.cos r * v.z⟩
noncomputable def rotZ (r : ℝ) (v : V3 ℝ) : V3 ℝ := ⟨Real.cos r * v.x - Real.sin r * v.y, Real.sin r * v.x + Real.cos r * v.y, v.z⟩

def normSq (v : V3 ℝ) : ℝ := v.x ^ 2 + v.y ^ 2 + v.z ^ 2
def sub3 (a b : V3 ℝ) : V3 ℝ := ⟨a.x - b.x, a.y - b.y, a.z - b.z⟩

theorem rotate_eq_zyx' (rx ry rz : ℝ) (v : V3 ℝ) : rotate rx ry rz v = rotZ rz (rotY ry (rotX rx v)) := by
  sorry

theorem rotate_normSq' (rx ry rz : ℝ) (v : V3 ℝ) : normSq (rotate rx ry rz v) = normSq v := by
  sorry

theorem transform_rigid' (deg : Bool) (pos : V3 ℝ) (rx ry rz : ℝ) (a b : V3 ℝ) :
    normSq (sub3 (transformStep deg pos rx ry rz a) (transformStep deg pos rx ry rz b)) = normSq (sub3 a b) := by
  sorry

theorem transform_zero_rotation' (deg : Bool) (pos ref : V3 ℝ) :
    transformStep deg pos 0 0 0 ref = ⟨ref.x + pos.x, ref.y + pos.y, ref.z + pos.z⟩ := by
  sorry

theorem transform_deg_rad' (pos ref : V3 ℝ) (rx ry rz : ℝ) :
    transformStep true pos rx ry rz ref =
      transformStep false pos (rx * (Real.pi / 180)) (ry * (Real.pi / 180)) (rz * (Real.pi / 180)) ref := by
  sorry

/-! ### gradient (any linearly ordered field) -/
section grad
variable {α : Type} [Field α] [LinearOrder α] [IsStrictOrderedRing α] [OfScientific α] [TranscOps α]

theorem gradient_length' (t x g : List α) (h : gradient t x = some g) : g.length = x.length := by
  sorry

theorem gradient_some' (t x : List α) (hl : t.length = x.length) (h2 : 2 ≤ x.length) : ∃ g, gradient t x = some g := by
  sorry

/-- Linear in the signal. -/
theorem gradient_linear' (t x y gx gy : List α) (a b : α) (hxy : x.length = y.length)
    (hx : gradient t x = some gx) (hy : gradient t y = some gy) :
    gradient t (List.zipWith (fun u v => a * u + b * v) x y) = some (List.zipWith (fun u v => a * u + b * v) gx gy) := by
  sorry

/-- Exact everywhere for an affine signal on any strictly increasing time grid. -/
theorem gradient_affine' (t : List α) (p q : α) (ht : t.Pairwise (· < ·)) (h2 : 2 ≤ t.length) :
    gradient t (t.map fun u => p * u + q) = some (List.replicate t.length p) := by
  sorry

/-- Exact at interior samples for a quadratic signal on any strictly increasing time grid. -/
theorem gradient_quadratic' (t g : List α) (a b c : α) (ht : t.Pairwise (· < ·))
    (hg : gradient t (t.map fun u => a * u * u + b * u + c) = some g) (i : Nat) (hi : 1 ≤ i) (hi' : i + 1 < t.length)
    (ti : α) (hti : t[i]? = some ti) : g[i]? = some (2 * a * ti + b) := by
  sorry

/-- Acceleration (gradient applied twice) of a quadratic signal is exact from the third to the third-last sample. -/
theorem acceleration_quadratic' (t acc : List α) (a b c : α) (ht : t.Pairwise (· < ·))
    (hacc : acceleration (t.map fun u => a * u * u + b * u + c) (.inr t) = some acc) (i : Nat) (hi : 2 ≤ i)
    (hi' : i + 2 < t.length) : acc[i]? = some (2 * a) := by
  sorry

/-- The time grid of a scalar step is strictly increasing, so the scalar-step case is an instance of the above. -/
theorem stepTimes_spec' (h : α) (hh : 0 < h) (n : Nat) (s : α) :
    (stepTimes h n s).length = n ∧ (stepTimes h n s).Pairwise (· < ·) ∧
      ∀ i, i < n → (stepTimes h n s)[i]? = some (s + i * h) := by
  sorry

end grad
end Qats.Motion
