import Qats.Model.Motion
import Qats.Lemmas.RealOpsSimp
import Qats.Lemmas.MotionGrad
import Mathlib.Tactic
/-!
Main lemmas behind the C20 property theorems (statements fixed by `Qats/Props/C20.lean`).
-/
namespace Qats.Motion
open Qats Qats.Gen

/-! ### rotation (over ℝ; `TranscOps.cos = Real.cos`, `TranscOps.sin = Real.sin`) -/

/-- Elementary rotations (the "independent Euler rotation"). -/
noncomputable def rotX (r : ℝ) (v : V3 ℝ) : V3 ℝ := ⟨v.x, Real.cos r * v.y - Real.sin r * v.z, Real.sin r * v.y + Real.cos r * v.z⟩
noncomputable def rotY (r : ℝ) (v : V3 ℝ) : V3 ℝ := ⟨Real.cos r * v.x + Real.sin r * v.z, v.y, -Real.sin r * v.x + Real.cos r * v.z⟩
noncomputable def rotZ (r : ℝ) (v : V3 ℝ) : V3 ℝ := ⟨Real.cos r * v.x - Real.sin r * v.y, Real.sin r * v.x + Real.cos r * v.y, v.z⟩

def normSq (v : V3 ℝ) : ℝ := v.x ^ 2 + v.y ^ 2 + v.z ^ 2
def sub3 (a b : V3 ℝ) : V3 ℝ := ⟨a.x - b.x, a.y - b.y, a.z - b.z⟩

theorem V3.ext' {α : Type} {a b : V3 α} (hx : a.x = b.x) (hy : a.y = b.y) (hz : a.z = b.z) : a = b := by
  cases a; cases b; simp_all

theorem rotate_eq_zyx' (rx ry rz : ℝ) (v : V3 ℝ) : rotate rx ry rz v = rotZ rz (rotY ry (rotX rx v)) := by
  apply V3.ext' <;>
  simp only [rotate, rotX, rotY, rotZ, mo_r00, mo_r01, mo_r02, mo_r10, mo_r11, mo_r12, mo_r20, mo_r21, mo_r22,
    cos_real, sin_real] <;> ring

theorem rotX_normSq (r : ℝ) (v : V3 ℝ) : normSq (rotX r v) = normSq v := by
  simp only [normSq, rotX]
  linear_combination (v.y ^ 2 + v.z ^ 2) * Real.cos_sq_add_sin_sq r

theorem rotY_normSq (r : ℝ) (v : V3 ℝ) : normSq (rotY r v) = normSq v := by
  simp only [normSq, rotY]
  linear_combination (v.x ^ 2 + v.z ^ 2) * Real.cos_sq_add_sin_sq r

theorem rotZ_normSq (r : ℝ) (v : V3 ℝ) : normSq (rotZ r v) = normSq v := by
  simp only [normSq, rotZ]
  linear_combination (v.x ^ 2 + v.y ^ 2) * Real.cos_sq_add_sin_sq r

theorem rotate_normSq' (rx ry rz : ℝ) (v : V3 ℝ) : normSq (rotate rx ry rz v) = normSq v := by
  rw [rotate_eq_zyx', rotZ_normSq, rotY_normSq, rotX_normSq]

theorem rotate_sub3 (rx ry rz : ℝ) (a b : V3 ℝ) :
    sub3 (rotate rx ry rz a) (rotate rx ry rz b) = rotate rx ry rz (sub3 a b) := by
  apply V3.ext' <;> simp only [rotate, sub3] <;> ring

theorem transformStep_sub3 (deg : Bool) (pos : V3 ℝ) (rx ry rz : ℝ) (a b : V3 ℝ) :
    sub3 (transformStep deg pos rx ry rz a) (transformStep deg pos rx ry rz b) =
      rotate (if deg then radians rx else rx) (if deg then radians ry else ry) (if deg then radians rz else rz)
        (sub3 a b) := by
  rw [← rotate_sub3]
  apply V3.ext' <;> simp only [transformStep, sub3] <;> ring

theorem transform_rigid' (deg : Bool) (pos : V3 ℝ) (rx ry rz : ℝ) (a b : V3 ℝ) :
    normSq (sub3 (transformStep deg pos rx ry rz a) (transformStep deg pos rx ry rz b)) = normSq (sub3 a b) := by
  rw [transformStep_sub3, rotate_normSq']

theorem radians_zero : radians (0 : ℝ) = 0 := by simp [radians]

theorem rotate_zero (v : V3 ℝ) : rotate 0 0 0 v = v := by
  apply V3.ext' <;>
  simp [rotate, mo_r00, mo_r01, mo_r02, mo_r10, mo_r11, mo_r12, mo_r20, mo_r21, mo_r22]

theorem transform_zero_rotation' (deg : Bool) (pos ref : V3 ℝ) :
    transformStep deg pos 0 0 0 ref = ⟨ref.x + pos.x, ref.y + pos.y, ref.z + pos.z⟩ := by
  simp only [transformStep, radians_zero, ite_self, rotate_zero]

theorem radians_eq (d : ℝ) : radians d = d * (Real.pi / 180) := by
  simp only [radians, pi_real]; norm_num

theorem transform_deg_rad' (pos ref : V3 ℝ) (rx ry rz : ℝ) :
    transformStep true pos rx ry rz ref =
      transformStep false pos (rx * (Real.pi / 180)) (ry * (Real.pi / 180)) (rz * (Real.pi / 180)) ref := by
  simp only [transformStep, radians_eq, if_true, if_false, Bool.false_eq_true]

/-! ### gradient (any linearly ordered field) -/
section grad
-- the section variables are part of the fixed statements (shared with `Qats/Props/C20.lean`)
set_option linter.unusedSectionVars false
variable {α : Type} [Field α] [LinearOrder α] [IsStrictOrderedRing α] [OfScientific α] [TranscOps α]

theorem gradient_length' (t x g : List α) (h : gradient t x = some g) : g.length = x.length :=
  gradient_length_aux t x g h

theorem gradient_some' (t x : List α) (hl : t.length = x.length) (h2 : 2 ≤ x.length) : ∃ g, gradient t x = some g :=
  gradient_some_aux t x hl h2

/-- Linear in the signal. -/
theorem gradient_linear' (t x y gx gy : List α) (a b : α) (hxy : x.length = y.length)
    (hx : gradient t x = some gx) (hy : gradient t y = some gy) :
    gradient t (List.zipWith (fun u v => a * u + b * v) x y) = some (List.zipWith (fun u v => a * u + b * v) gx gy) :=
  gradient_linear_aux t x y gx gy a b hxy hx hy

/-- Exact everywhere for an affine signal on any strictly increasing time grid. -/
theorem gradient_affine' (t : List α) (p q : α) (ht : t.Pairwise (· < ·)) (h2 : 2 ≤ t.length) :
    gradient t (t.map fun u => p * u + q) = some (List.replicate t.length p) :=
  gradient_affine_aux t p q ht h2

/-- Exact at interior samples for a quadratic signal on any strictly increasing time grid. -/
theorem gradient_quadratic' (t g : List α) (a b c : α) (ht : t.Pairwise (· < ·))
    (hg : gradient t (t.map fun u => a * u * u + b * u + c) = some g) (i : Nat) (hi : 1 ≤ i) (hi' : i + 1 < t.length)
    (ti : α) (hti : t[i]? = some ti) : g[i]? = some (2 * a * ti + b) :=
  gradient_quadratic_aux t g a b c ht hg i hi hi' ti hti

/-- Acceleration (gradient applied twice) of a quadratic signal is exact from the third to the third-last sample. -/
theorem acceleration_quadratic' (t acc : List α) (a b c : α) (ht : t.Pairwise (· < ·))
    (hacc : acceleration (t.map fun u => a * u * u + b * u + c) (.inr t) = some acc) (i : Nat) (hi : 2 ≤ i)
    (hi' : i + 2 < t.length) : acc[i]? = some (2 * a) := by
  simp only [acceleration, velocity] at hacc
  obtain ⟨v, hv, hacc⟩ := Option.bind_eq_some_iff.mp hacc
  exact gradient_gradient_quadratic t v acc a b c ht hv hacc i hi hi'

/-- The time grid of a scalar step is strictly increasing, so the scalar-step case is an instance of the above. -/
theorem stepTimes_spec' (h : α) (hh : 0 < h) (n : Nat) (s : α) :
    (stepTimes h n s).length = n ∧ (stepTimes h n s).Pairwise (· < ·) ∧
      ∀ i, i < n → (stepTimes h n s)[i]? = some (s + i * h) :=
  stepTimes_spec_aux h hh n s

end grad
end Qats.Motion
