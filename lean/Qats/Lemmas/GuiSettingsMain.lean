import Qats.Model.GuiSettings
import Mathlib.Tactic
/-! Lemmas about the application-settings model `Qats.GuiSettings`. -/
namespace Qats.GuiSettings

theorem clamp_of_mem {lo hi v : Nat} (h1 : lo ≤ v) (h2 : v ≤ hi) : clamp lo hi v = v := by
  unfold clamp; omega

theorem clamp_mem {lo hi : Nat} (h : lo ≤ hi) (v : Nat) : lo ≤ clamp lo hi v ∧ clamp lo hi v ≤ hi := by
  unfold clamp; omega

theorem shown_of_inRange (a : App) (h : InRange a) : shown a = a := by
  obtain ⟨h1, h2, h3, h4, h5, h6⟩ := h
  cases a
  simp only [shown, App.mk.injEq, true_and]
  exact ⟨clamp_of_mem h1 h2, clamp_of_mem h3 h4, clamp_of_mem h5 h6⟩

theorem cancel_unchanged' (e : Edit) (a : App) : dialog false e a = a := rfl

theorem accept_untouched' (a : App) (h : InRange a) : dialog true {} a = a := by
  simp only [dialog, if_true, edited, Option.getD_none, Option.map_none]
  exact shown_of_inRange a h

theorem inRange_defaults : InRange defaults := by
  unfold InRange defaults; decide

theorem inRange_edited (e : Edit) (a : App) : InRange (edited e a) := by
  obtain ⟨n, p, b, d⟩ := e
  have hp := clamp_mem (show 100 ≤ 100000 by decide)
  have hb := clamp_mem (show 10 ≤ 1000 by decide)
  have hd := clamp_mem (show 1 ≤ 10 by decide)
  unfold InRange edited shown
  refine ⟨?_, ?_, ?_, ?_, ?_, ?_⟩
  · cases p with | none => exact (hp _).1 | some v => exact (hp v).1
  · cases p with | none => exact (hp _).2 | some v => exact (hp v).2
  · cases b with | none => exact (hb _).1 | some v => exact (hb v).1
  · cases b with | none => exact (hb _).2 | some v => exact (hb v).2
  · cases d with | none => exact (hd _).1 | some v => exact (hd v).1
  · cases d with | none => exact (hd _).2 | some v => exact (hd v).2

theorem inRange_dialog (ok : Bool) (e : Edit) (a : App) (h : InRange a) : InRange (dialog ok e a) := by
  cases ok
  · exact h
  · exact inRange_edited e a

theorem inRange_session (l : List (Bool × Edit)) : InRange (session l) := by
  unfold session
  suffices ∀ a, InRange a → InRange (l.foldl (fun a d => dialog d.1 d.2 a) a) from this _ inRange_defaults
  induction l with
  | nil => intro a h; exact h
  | cons d l ih => intro a h; exact ih _ (inRange_dialog d.1 d.2 a h)

/-- An accepted dialog sets exactly the edited widgets (to the value typed, clamped to the widget's range). -/
theorem accept_sets_edited' (e : Edit) (a : App) (h : InRange a) :
    (dialog true e a).norm = e.norm.getD a.norm ∧
    (dialog true e a).nperseg = (e.nperseg.map (clamp 100 100000)).getD a.nperseg ∧
    (dialog true e a).nbins = (e.nbins.map (clamp 10 1000)).getD a.nbins ∧
    (dialog true e a).ndec = (e.ndec.map (clamp 1 10)).getD a.ndec := by
  simp only [dialog, if_true, edited, shown_of_inRange a h, and_self]

end Qats.GuiSettings
