import Qats.Model.Rebin
import Mathlib.Tactic
import Mathlib.Algebra.Order.Floor.Defs
import Mathlib.Algebra.Order.Floor.Ring
/-!
Helper lemmas for the re-binning model: generated edges are strictly increasing; the count of edges `≤ v` on a strictly
increasing list is a prefix length; `minOf`/`maxOf`.
-/
namespace Qats.Rebin
set_option linter.unusedSectionVars false
variable {α : Type} [Field α] [LinearOrder α] [IsStrictOrderedRing α]

/-! ### edges as maps of `range` -/

theorem map_range_props (f : Nat → α) (n : Nat) (hf : ∀ i j, i < j → f i < f j) :
    ((List.range (n + 1)).map f).Pairwise (· < ·) ∧ ((List.range (n + 1)).map f).head? = some (f 0) ∧
      ((List.range (n + 1)).map f).getLast? = some (f n) ∧ ((List.range (n + 1)).map f).length = n + 1 := by
  refine ⟨?_, ?_, ?_, ?_⟩
  · rw [List.pairwise_map]
    exact List.Pairwise.imp (fun {a b} h => hf a b h) List.pairwise_lt_range
  · simp [List.head?_map, List.head?_range]
  · simp [List.getLast?_map, List.getLast?_range]
  · simp

/-! ### the number of edges `≤ v` -/

/-- On a strictly increasing list the elements `≤ v` are exactly those at positions below their number. -/
theorem filter_le_prefix (l : List α) (hp : l.Pairwise (· < ·)) (v : α) (i : Nat) (hi : i < l.length) :
    l[i] ≤ v ↔ i < (l.filter fun e => e ≤ v).length := by
  induction l generalizing i with
  | nil => simp at hi
  | cons a t ih =>
    rw [List.pairwise_cons] at hp
    by_cases hav : a ≤ v
    · have hf : ((a :: t).filter fun e => e ≤ v) = a :: (t.filter fun e => e ≤ v) := by
        simp [hav]
      rw [hf]
      cases i with
      | zero => simp [hav]
      | succ i =>
        simp only [List.getElem_cons_succ, List.length_cons, Nat.add_lt_add_iff_right]
        exact ih hp.2 i (by simpa using hi)
    · have hall : ∀ e ∈ a :: t, ¬ e ≤ v := by
        intro e he
        rcases List.mem_cons.1 he with rfl | he
        · exact hav
        · exact fun h => hav ((hp.1 e he).le.trans h)
      have hf : ((a :: t).filter fun e => e ≤ v) = [] := by
        rw [List.filter_eq_nil_iff]
        intro e he
        simpa using hall e he
      rw [hf]
      simp only [List.length_nil, Nat.not_lt_zero, iff_false]
      exact hall _ (List.getElem_mem hi)

theorem filter_length_le (l : List α) (v : α) : (l.filter fun e => e ≤ v).length ≤ l.length :=
  List.length_filter_le _ _

/-! ### `minOf` / `maxOf` -/

theorem foldl_max_spec (l : List α) (a : α) :
    a ≤ l.foldl (fun a b => if a < b then b else a) a ∧
      (∀ v ∈ l, v ≤ l.foldl (fun a b => if a < b then b else a) a) ∧
      (l.foldl (fun a b => if a < b then b else a) a = a ∨ l.foldl (fun a b => if a < b then b else a) a ∈ l) := by
  induction l generalizing a with
  | nil => simp
  | cons x t ih =>
    rw [List.foldl_cons]
    obtain ⟨h1, h2, h3⟩ := ih (if a < x then x else a)
    have hle : a ≤ (if a < x then x else a) ∧ x ≤ (if a < x then x else a) := by
      split
      · exact ⟨le_of_lt ‹_›, le_rfl⟩
      · exact ⟨le_rfl, not_lt.1 ‹_›⟩
    refine ⟨hle.1.trans h1, ?_, ?_⟩
    · intro v hv
      rcases List.mem_cons.1 hv with rfl | hv
      · exact hle.2.trans h1
      · exact h2 v hv
    · rcases h3 with h3 | h3
      · rw [h3]
        split
        · exact Or.inr List.mem_cons_self
        · exact Or.inl rfl
      · exact Or.inr (List.mem_cons_of_mem _ h3)

theorem foldl_min_spec (l : List α) (a : α) :
    l.foldl (fun a b => if b < a then b else a) a ≤ a ∧
      (∀ v ∈ l, l.foldl (fun a b => if b < a then b else a) a ≤ v) ∧
      (l.foldl (fun a b => if b < a then b else a) a = a ∨ l.foldl (fun a b => if b < a then b else a) a ∈ l) := by
  induction l generalizing a with
  | nil => simp
  | cons x t ih =>
    rw [List.foldl_cons]
    obtain ⟨h1, h2, h3⟩ := ih (if x < a then x else a)
    have hle : (if x < a then x else a) ≤ a ∧ (if x < a then x else a) ≤ x := by
      split
      · exact ⟨le_of_lt ‹_›, le_rfl⟩
      · exact ⟨le_rfl, not_lt.1 ‹_›⟩
    refine ⟨h1.trans hle.1, ?_, ?_⟩
    · intro v hv
      rcases List.mem_cons.1 hv with rfl | hv
      · exact h1.trans hle.2
      · exact h2 v hv
    · rcases h3 with h3 | h3
      · rw [h3]
        split
        · exact Or.inr List.mem_cons_self
        · exact Or.inl rfl
      · exact Or.inr (List.mem_cons_of_mem _ h3)

theorem maxOf_spec (l : List α) (d : α) (hl : l ≠ []) : (∀ v ∈ l, v ≤ maxOf l d) ∧ maxOf l d ∈ l := by
  cases l with
  | nil => exact absurd rfl hl
  | cons x t =>
    obtain ⟨_, h2, h3⟩ := foldl_max_spec (x :: t) x
    refine ⟨h2, ?_⟩
    rcases h3 with h3 | h3
    · show List.foldl _ _ _ ∈ _
      simp only [List.headD_cons]
      rw [h3]; exact List.mem_cons_self
    · exact h3

theorem minOf_spec (l : List α) (d : α) (hl : l ≠ []) : (∀ v ∈ l, minOf l d ≤ v) ∧ minOf l d ∈ l := by
  cases l with
  | nil => exact absurd rfl hl
  | cons x t =>
    obtain ⟨_, h2, h3⟩ := foldl_min_spec (x :: t) x
    refine ⟨h2, ?_⟩
    rcases h3 with h3 | h3
    · show List.foldl _ _ _ ∈ _
      simp only [List.headD_cons]
      rw [h3]; exact List.mem_cons_self
    · exact h3

/-! ### `outer` -/

theorem outer_of_lt (a b : α) (h : a < b) : outer a b = (a, b) := by
  unfold outer
  rw [if_neg]
  simpa using h.ne

theorem outer_spec (a b : α) (h : a ≤ b) : (outer a b).1 < (outer a b).2 ∧ (outer a b).1 ≤ a ∧ b ≤ (outer a b).2 := by
  rcases h.lt_or_eq with h | h
  · rw [outer_of_lt a b h]; exact ⟨h, le_rfl, le_rfl⟩
  · subst h
    unfold outer
    rw [if_pos (by simp)]
    have h2 : (0 : α) < 0.5 := by norm_num
    exact ⟨by linarith, by linarith, by linarith⟩

end Qats.Rebin
