import Qats.Model.Pipeline
import Qats.Lemmas.PipelineGet
import Qats.Lemmas.PipelineInterp
import Mathlib.Tactic
import Mathlib.Algebra.Order.Floor.Ring
/-!
Helper lemmas for `PipelineMain`: `linspace` / `newTimearray` (the resampling grid) and stand-alone `resampleStep`.
-/
namespace Qats.Pipeline
set_option linter.unusedSectionVars false
variable {α : Type} [Field α] [LinearOrder α] [IsStrictOrderedRing α]

theorem linspace_succ (a b : α) (k : Nat) (hk : 1 ≤ k) :
    linspace a b (k + 1) = (List.range (k + 1)).map fun i : Nat => a + (i : α) * ((b - a) / (k : α)) := by
  unfold linspace
  rw [if_neg (by omega)]
  simp

theorem linspace_getElem? (a b : α) (k : Nat) (hk : 1 ≤ k) (i : Nat) (hi : i ≤ k) :
    (linspace a b (k + 1))[i]? = some (a + (i : α) * ((b - a) / (k : α))) := by
  rw [linspace_succ a b k hk, List.getElem?_map, List.getElem?_range (by omega)]
  rfl

theorem linspace_spec (a b : α) (k : Nat) (hk : 1 ≤ k) :
    (linspace a b (k + 1)).length = k + 1 ∧ (linspace a b (k + 1)).head? = some a ∧
      (linspace a b (k + 1)).getLast? = some b := by
  have hlen : (linspace a b (k + 1)).length = k + 1 := by
    rw [linspace_succ a b k hk]; simp
  refine ⟨hlen, ?_, ?_⟩
  · rw [List.head?_eq_getElem?, linspace_getElem? a b k hk 0 (Nat.zero_le _)]
    simp
  · rw [List.getLast?_eq_getElem?, hlen, Nat.add_sub_cancel, linspace_getElem? a b k hk k le_rfl]
    have hk0 : (k : α) ≠ 0 := Nat.cast_ne_zero.mpr (by omega)
    congr 1
    field_simp
    ring

theorem grid_spec_aux (rnd : α → Int) (hr : ∀ q : α, |((rnd q : Int) : α) - q| ≤ 1 / 2) (t0 t1 d : α)
    (hk : 1 ≤ rnd ((t1 - t0) / d)) :
    let k := (rnd ((t1 - t0) / d)).toNat
    (newTimearray rnd t0 t1 d).length = k + 1 ∧
    (newTimearray rnd t0 t1 d).head? = some t0 ∧ (newTimearray rnd t0 t1 d).getLast? = some t1 ∧
    (∀ i, i ≤ k → (newTimearray rnd t0 t1 d)[i]? = some (t0 + (i : α) * ((t1 - t0) / (k : α)))) ∧
    |((k : Nat) : α) - (t1 - t0) / d| ≤ 1 / 2 := by
  intro k
  have hk1 : 1 ≤ k := by omega
  have hkr : ((k : Nat) : α) = ((rnd ((t1 - t0) / d) : Int) : α) := by
    have : ((k : Nat) : Int) = rnd ((t1 - t0) / d) := Int.toNat_of_nonneg (by omega)
    rw [← this]; simp
  obtain ⟨h1, h2, h3⟩ := linspace_spec t0 t1 k hk1
  refine ⟨h1, h2, h3, fun i hi => linspace_getElem? t0 t1 k hk1 i hi, ?_⟩
  rw [hkr]
  exact hr _

theorem arange_inside [FloorRing α] (lo hi d : α) (hd : 0 < d) :
    ∀ q ∈ arange lo d (Nat.ceil ((hi - lo) / d)), lo ≤ q ∧ q < hi := by
  intro q hq
  unfold arange at hq
  obtain ⟨i, hi', rfl⟩ := List.mem_map.mp hq
  have hi'' : i < Nat.ceil ((hi - lo) / d) := List.mem_range.mp hi'
  have h1 : (i : α) < (hi - lo) / d := Nat.lt_ceil.mp hi''
  have h2 : (i : α) * d < hi - lo := (lt_div_iff₀ hd).mp h1
  have h3 : 0 ≤ (i : α) * d := mul_nonneg (Nat.cast_nonneg i) (le_of_lt hd)
  constructor
  · linarith
  · linarith

theorem resample_step_aux [FloorRing α] (t x : List α) (hl : t.length = x.length) (lo hi d : α)
    (hlo : t.head? = some lo) (hhi : t.getLast? = some hi) (hd : 0 < d) :
    ∃ xs, resampleStep t x d (Nat.ceil ((hi - lo) / d)) = some xs ∧ xs.length = Nat.ceil ((hi - lo) / d) := by
  have hin := arange_inside lo hi d hd
  have hfil : (arange lo d (Nat.ceil ((hi - lo) / d))).filter (fun q => q ≤ hi) =
      arange lo d (Nat.ceil ((hi - lo) / d)) := by
    rw [List.filter_eq_self]
    intro q hq
    simpa using le_of_lt (hin q hq).2
  unfold resampleStep
  simp only [hlo, hhi, hfil]
  obtain ⟨xs, hxs, hlen⟩ := mapM_option_exists (interp t x) (arange lo d (Nat.ceil ((hi - lo) / d)))
    (fun q hq => interp_in t x hl lo hi q hlo hhi (hin q hq).1 (le_of_lt (hin q hq).2))
  refine ⟨xs, hxs, ?_⟩
  rw [hlen]
  simp [arange]
end Qats.Pipeline
