import Qats.Model.Dist
import Qats.Lemmas.RealOps
import Qats.Lemmas.DistOps
import Qats.Lemmas.DistWeibull
import Mathlib.Tactic
import Mathlib.Analysis.SpecialFunctions.Gamma.Basic
import Mathlib.Analysis.SpecialFunctions.Gaussian.GaussianIntegral
import Mathlib.MeasureTheory.Integral.Gamma
/-!
The reported mean, standard deviation, skewness and kurtosis of the Weibull distribution are the mean and the
(standardised) central moments of the Weibull density on `(loc, ∞)`.

Route: the moment integrands `((x-loc)/scale)^k · f(x)` are integrable on `(loc, ∞)` (Mathlib's
`integrableOn_rpow_mul_exp_neg_mul_rpow`, shifted) with integral `Γ(1 + k/shape)` (`DistWeibull.lean`); every integrand
below is a polynomial of degree ≤ 4 in `z = (x-loc)/scale` times the density, so its integral is the same linear
combination of `Γ(1 + k/shape)`, `k = 0..4` (`wb_poly4`).  The variance `Γ(1+2/c) − Γ(1+1/c)²` is strictly positive
because it is the integral of `(z − μ₁)²·f`, which is non-negative and positive on a half-line.
The generated formulas are accessed only through `wb_pdf_eq`, `wb_mean_eq`, `wb_std_eq`, `wb_skew_eq`, `wb_kurt_eq`.
-/
namespace Qats.Dist
open Qats Qats.Gen MeasureTheory Set Real

/-! ### integrability of the moment integrands (pure real analysis) -/

theorem integrableOn_Ioi_shift (g : ℝ → ℝ) (a : ℝ) (h : IntegrableOn g (Ioi 0)) :
    IntegrableOn (fun x => g (x - a)) (Ioi a) := by
  rw [← integrable_indicator_iff measurableSet_Ioi] at h ⊢
  refine (h.comp_sub_right a).congr (ae_of_all _ fun x => ?_)
  simp only [indicator, mem_Ioi, sub_pos]

theorem wb_moment_integrableOn_zero {b c k : ℝ} (hb : 0 < b) (hc : 0 < c) (hk : 0 ≤ k) :
    IntegrableOn (fun u => (u / b) ^ k * (c / b * (u / b) ^ (c - 1) * exp (-(u / b) ^ c))) (Ioi 0) := by
  have h0 : IntegrableOn (fun u : ℝ => u ^ (k + c - 1) * exp (-b ^ (-c) * u ^ c)) (Ioi 0) :=
    integrableOn_rpow_mul_exp_neg_mul_rpow (by linarith) hc (rpow_pos_of_pos hb _)
  have h1 : IntegrableOn (fun u : ℝ => c / b ^ (k + c) * (u ^ (k + c - 1) * exp (-b ^ (-c) * u ^ c))) (Ioi 0) :=
    Integrable.const_mul h0 _
  exact IntegrableOn.congr_fun h1
    (fun u hu => (wb_moment_integrand_eq (c := c) (k := k) hb hu).symm) measurableSet_Ioi

theorem wb_moment_integrableOn {a b c k : ℝ} (hb : 0 < b) (hc : 0 < c) (hk : 0 ≤ k) :
    IntegrableOn
      (fun x => ((x - a) / b) ^ k * (c / b * ((x - a) / b) ^ (c - 1) * exp (-((x - a) / b) ^ c))) (Ioi a) :=
  integrableOn_Ioi_shift
    (fun u => (u / b) ^ k * (c / b * (u / b) ^ (c - 1) * exp (-(u / b) ^ c))) a
    (wb_moment_integrableOn_zero hb hc hk)

/-! ### natural-number moments of the generated density -/

theorem wb_pdf_pos (loc scale shape x : ℝ) (hs : 0 < scale) (hc : 0 < shape) (hx : loc < x) :
    0 < wb_pdf loc scale shape x := by
  rw [wb_pdf_eq]
  have hz : 0 < (x - loc) / scale := div_pos (sub_pos.2 hx) hs
  exact mul_pos (mul_pos (div_pos hc hs) (rpow_pos_of_pos hz _)) (exp_pos _)

theorem wb_nat_moment_integrableOn (loc scale shape : ℝ) (hs : 0 < scale) (hc : 0 < shape) (n : ℕ) :
    IntegrableOn (fun x => ((x - loc) / scale) ^ n * wb_pdf loc scale shape x) (Ioi loc) := by
  have h := wb_moment_integrableOn (a := loc) (k := (n : ℝ)) hs hc (Nat.cast_nonneg n)
  refine IntegrableOn.congr_fun h (fun x _ => ?_) measurableSet_Ioi
  simp only [wb_pdf_eq, rpow_natCast]

theorem wb_nat_moment (loc scale shape : ℝ) (hs : 0 < scale) (hc : 0 < shape) (n : ℕ) :
    ∫ x in Ioi loc, ((x - loc) / scale) ^ n * wb_pdf loc scale shape x = Gamma (1 + n / shape) := by
  rw [← wb_moment_integral_shift (a := loc) (k := (n : ℝ)) hs hc (Nat.cast_nonneg n)]
  refine setIntegral_congr_fun measurableSet_Ioi (fun x _ => ?_)
  simp only [wb_pdf_eq, rpow_natCast]

/-- Linearity of the integral for five summands. -/
theorem integral_lin5 {μ : Measure ℝ} (F0 F1 F2 F3 F4 : ℝ → ℝ) (I0 : Integrable F0 μ) (I1 : Integrable F1 μ)
    (I2 : Integrable F2 μ) (I3 : Integrable F3 μ) (I4 : Integrable F4 μ) (c0 c1 c2 c3 c4 : ℝ) :
    Integrable (fun x => c0 * F0 x + (c1 * F1 x + (c2 * F2 x + (c3 * F3 x + c4 * F4 x)))) μ ∧
      ∫ x, c0 * F0 x + (c1 * F1 x + (c2 * F2 x + (c3 * F3 x + c4 * F4 x))) ∂μ =
        c0 * ∫ x, F0 x ∂μ + (c1 * ∫ x, F1 x ∂μ + (c2 * ∫ x, F2 x ∂μ + (c3 * ∫ x, F3 x ∂μ + c4 * ∫ x, F4 x ∂μ))) := by
  have J0 : Integrable (fun x => c0 * F0 x) μ := I0.const_mul c0
  have J1 : Integrable (fun x => c1 * F1 x) μ := I1.const_mul c1
  have J2 : Integrable (fun x => c2 * F2 x) μ := I2.const_mul c2
  have J3 : Integrable (fun x => c3 * F3 x) μ := I3.const_mul c3
  have J4 : Integrable (fun x => c4 * F4 x) μ := I4.const_mul c4
  have K3 : Integrable (fun x => c3 * F3 x + c4 * F4 x) μ := J3.add J4
  have K2 : Integrable (fun x => c2 * F2 x + (c3 * F3 x + c4 * F4 x)) μ := J2.add K3
  have K1 : Integrable (fun x => c1 * F1 x + (c2 * F2 x + (c3 * F3 x + c4 * F4 x))) μ := J1.add K2
  have K0 : Integrable (fun x => c0 * F0 x + (c1 * F1 x + (c2 * F2 x + (c3 * F3 x + c4 * F4 x)))) μ := J0.add K1
  refine ⟨K0, ?_⟩
  rw [integral_add J0 K1, integral_add J1 K2, integral_add J2 K3, integral_add J3 J4,
    integral_const_mul, integral_const_mul, integral_const_mul, integral_const_mul, integral_const_mul]

/-- Linearity, packaged: a polynomial of degree ≤ 4 in `z = (x-loc)/scale` against the density. -/
theorem wb_poly4 (loc scale shape : ℝ) (hs : 0 < scale) (hc : 0 < shape) (c0 c1 c2 c3 c4 : ℝ) :
    IntegrableOn (fun x => (c0 + c1 * ((x - loc) / scale) + c2 * ((x - loc) / scale) ^ 2
        + c3 * ((x - loc) / scale) ^ 3 + c4 * ((x - loc) / scale) ^ 4) * wb_pdf loc scale shape x) (Ioi loc) ∧
      ∫ x in Ioi loc, (c0 + c1 * ((x - loc) / scale) + c2 * ((x - loc) / scale) ^ 2
        + c3 * ((x - loc) / scale) ^ 3 + c4 * ((x - loc) / scale) ^ 4) * wb_pdf loc scale shape x =
      c0 + c1 * Gamma (1 + 1 / shape) + c2 * Gamma (1 + 2 / shape) + c3 * Gamma (1 + 3 / shape)
        + c4 * Gamma (1 + 4 / shape) := by
  have I := wb_nat_moment_integrableOn loc scale shape hs hc
  have M := wb_nat_moment loc scale shape hs hc
  have e : (fun x => (c0 + c1 * ((x - loc) / scale) + c2 * ((x - loc) / scale) ^ 2
        + c3 * ((x - loc) / scale) ^ 3 + c4 * ((x - loc) / scale) ^ 4) * wb_pdf loc scale shape x) =
      fun x => c0 * (((x - loc) / scale) ^ 0 * wb_pdf loc scale shape x) +
        (c1 * (((x - loc) / scale) ^ 1 * wb_pdf loc scale shape x) +
        (c2 * (((x - loc) / scale) ^ 2 * wb_pdf loc scale shape x) +
        (c3 * (((x - loc) / scale) ^ 3 * wb_pdf loc scale shape x) +
          c4 * (((x - loc) / scale) ^ 4 * wb_pdf loc scale shape x)))) := by
    funext x; ring
  rw [e]
  obtain ⟨hI, hE⟩ := integral_lin5 (μ := volume.restrict (Ioi loc)) _ _ _ _ _ (I 0) (I 1) (I 2) (I 3) (I 4) c0 c1 c2 c3 c4
  refine ⟨hI, ?_⟩
  rw [hE, M 0, M 1, M 2, M 3, M 4]
  simp only [Nat.cast_zero, Nat.cast_one, Nat.cast_ofNat, zero_div, add_zero, Gamma_one, mul_one]
  ring

/-- The same for any integrand that is pointwise such a polynomial times the density. -/
theorem wb_poly4' (loc scale shape : ℝ) (hs : 0 < scale) (hc : 0 < shape) (c0 c1 c2 c3 c4 : ℝ) (g : ℝ → ℝ)
    (hg : ∀ x, g x = c0 + c1 * ((x - loc) / scale) + c2 * ((x - loc) / scale) ^ 2
        + c3 * ((x - loc) / scale) ^ 3 + c4 * ((x - loc) / scale) ^ 4) :
    IntegrableOn (fun x => g x * wb_pdf loc scale shape x) (Ioi loc) ∧
      ∫ x in Ioi loc, g x * wb_pdf loc scale shape x =
      c0 + c1 * Gamma (1 + 1 / shape) + c2 * Gamma (1 + 2 / shape) + c3 * Gamma (1 + 3 / shape)
        + c4 * Gamma (1 + 4 / shape) := by
  obtain rfl : g = fun x => c0 + c1 * ((x - loc) / scale) + c2 * ((x - loc) / scale) ^ 2
        + c3 * ((x - loc) / scale) ^ 3 + c4 * ((x - loc) / scale) ^ 4 := funext hg
  exact wb_poly4 loc scale shape hs hc c0 c1 c2 c3 c4

/-! ### mass, mean -/

theorem wb_density_mass' (loc scale shape : ℝ) (hs : 0 < scale) (hc : 0 < shape) :
    IntegrableOn (fun x => wb_pdf loc scale shape x) (Ioi loc) ∧
      ∫ x in Ioi loc, wb_pdf loc scale shape x = 1 := by
  have h := wb_poly4' loc scale shape hs hc 1 0 0 0 0 (fun _ => 1) (fun x => by ring)
  simpa only [one_mul, zero_mul, add_zero] using h

theorem wb_mean_is_density_mean' (loc scale shape : ℝ) (hs : 0 < scale) (hc : 0 < shape) :
    IntegrableOn (fun x => x * wb_pdf loc scale shape x) (Ioi loc) ∧
      ∫ x in Ioi loc, x * wb_pdf loc scale shape x = wb_mean loc scale shape := by
  have h := wb_poly4' loc scale shape hs hc loc scale 0 0 0 (fun x => x)
    (fun x => by field_simp; ring)
  rw [wb_mean_eq]
  simpa only [zero_mul, add_zero] using h

/-! ### variance -/

/-- The second central moment of the standardised variable, and hence `Γ(1+2/c) − Γ(1+1/c)² > 0`. -/
theorem wb_var_pos {shape : ℝ} (hc : 0 < shape) :
    0 < Gamma (1 + 2 / shape) - Gamma (1 + 1 / shape) ^ 2 := by
  set m1 := Gamma (1 + 1 / shape) with hm1
  have hm1pos : 0 < m1 := Gamma_pos_of_pos (by positivity)
  -- unit Weibull: loc = 0, scale = 1
  obtain ⟨hI, hE⟩ := wb_poly4' 0 1 shape one_pos hc (m1 ^ 2) (-2 * m1) 1 0 0
    (fun x => ((x - 0) / 1 - m1) ^ 2) (fun x => by ring)
  have hval : ∫ x in Ioi (0 : ℝ), ((x - 0) / 1 - m1) ^ 2 * wb_pdf 0 1 shape x =
      Gamma (1 + 2 / shape) - m1 ^ 2 := by
    rw [hE, ← hm1]; ring
  rw [← hval, setIntegral_pos_iff_support_of_nonneg_ae _ hI]
  · have hsub : Ioi m1 ⊆ Function.support (fun x => ((x - 0) / 1 - m1) ^ 2 * wb_pdf 0 1 shape x) ∩ Ioi 0 := by
      intro x hx
      have hx' : m1 < x := hx
      refine ⟨?_, lt_trans hm1pos hx'⟩
      rw [Function.mem_support]
      have h1 : 0 < (x - 0) / 1 - m1 := by rw [sub_zero, div_one]; linarith
      exact (mul_pos (pow_pos h1 2) (wb_pdf_pos 0 1 shape x one_pos hc (lt_trans hm1pos hx'))).ne'
    refine lt_of_lt_of_le ?_ (measure_mono hsub)
    rw [Real.volume_Ioi]
    exact ENNReal.zero_lt_top
  · refine (ae_restrict_iff' measurableSet_Ioi).2 (ae_of_all _ fun x hx => ?_)
    exact mul_nonneg (sq_nonneg _) (wb_pdf_pos 0 1 shape x one_pos hc hx).le

theorem wb_std_pos (scale shape : ℝ) (hs : 0 < scale) (hc : 0 < shape) : 0 < wb_std scale shape := by
  rw [wb_std_eq]
  exact mul_pos hs (sqrt_pos.2 (wb_var_pos hc))

theorem wb_std_is_density_std' (loc scale shape : ℝ) (hs : 0 < scale) (hc : 0 < shape) :
    ∫ x in Ioi loc, (x - wb_mean loc scale shape) ^ 2 * wb_pdf loc scale shape x = wb_std scale shape ^ 2 ∧
      0 < wb_std scale shape := by
  refine ⟨?_, wb_std_pos scale shape hs hc⟩
  have hv := wb_var_pos hc
  rw [wb_mean_eq, wb_std_eq, mul_pow, sq_sqrt hv.le]
  set m1 := Gamma (1 + 1 / shape)
  have h := (wb_poly4' loc scale shape hs hc (scale ^ 2 * m1 ^ 2) (-2 * scale ^ 2 * m1) (scale ^ 2) 0 0
    (fun x => (x - (loc + scale * m1)) ^ 2) (fun x => by field_simp; ring)).2
  rw [h]
  ring

/-! ### skewness, kurtosis -/

theorem sqrt_pow_three {v : ℝ} (hv : 0 < v) : sqrt v ^ 3 = v ^ (3 / 2 : ℝ) := by
  rw [sqrt_eq_rpow, ← rpow_natCast, ← rpow_mul hv.le]
  norm_num

theorem sqrt_pow_four {v : ℝ} (hv : 0 < v) : sqrt v ^ 4 = v ^ 2 := by
  have h : sqrt v ^ 4 = (sqrt v ^ 2) ^ 2 := by ring
  rw [h, sq_sqrt hv.le]

theorem wb_skew_alg (m1 m2 m3 m4 s : ℝ) (hs : 0 < s) :
    -m1 ^ 3 / s ^ 3 + 3 * m1 ^ 2 / s ^ 3 * m1 + -3 * m1 / s ^ 3 * m2 + 1 / s ^ 3 * m3 + 0 * m4 =
      (m3 - 3 * m1 * m2 + 2 * m1 ^ 3) / s ^ 3 := by
  field_simp
  ring

theorem wb_kurt_alg (m1 m2 m3 m4 s : ℝ) (hs : 0 < s) :
    m1 ^ 4 / s ^ 4 + -4 * m1 ^ 3 / s ^ 4 * m1 + 6 * m1 ^ 2 / s ^ 4 * m2 + -4 * m1 / s ^ 4 * m3 + 1 / s ^ 4 * m4 =
      (m4 - 4 * m1 * m3 + 6 * m1 ^ 2 * m2 - 3 * m1 ^ 4) / s ^ 4 := by
  field_simp
  ring

theorem wb_skew_is_density_skew' (loc scale shape : ℝ) (hs : 0 < scale) (hc : 0 < shape) :
    ∫ x in Ioi loc, ((x - wb_mean loc scale shape) / wb_std scale shape) ^ 3 * wb_pdf loc scale shape x =
      wb_skew shape := by
  have hv := wb_var_pos hc
  rw [wb_mean_eq, wb_std_eq, wb_skew_eq, ← sqrt_pow_three hv]
  set m1 := Gamma (1 + 1 / shape)
  set s := sqrt (Gamma (1 + 2 / shape) - m1 ^ 2)
  have hspos : 0 < s := sqrt_pos.2 hv
  have h := (wb_poly4' loc scale shape hs hc (-m1 ^ 3 / s ^ 3) (3 * m1 ^ 2 / s ^ 3) (-3 * m1 / s ^ 3) (1 / s ^ 3) 0
    (fun x => ((x - (loc + scale * m1)) / (scale * s)) ^ 3) (fun x => by field_simp; ring)).2
  rw [h]
  exact wb_skew_alg m1 _ _ _ s hspos

theorem wb_kurt_is_density_kurt' (loc scale shape : ℝ) (hs : 0 < scale) (hc : 0 < shape) :
    ∫ x in Ioi loc, ((x - wb_mean loc scale shape) / wb_std scale shape) ^ 4 * wb_pdf loc scale shape x =
      wb_kurt shape := by
  have hv := wb_var_pos hc
  rw [wb_mean_eq, wb_std_eq, wb_kurt_eq, ← sqrt_pow_four hv]
  set m1 := Gamma (1 + 1 / shape)
  set s := sqrt (Gamma (1 + 2 / shape) - m1 ^ 2)
  have hspos : 0 < s := sqrt_pos.2 hv
  have h := (wb_poly4' loc scale shape hs hc (m1 ^ 4 / s ^ 4) (-4 * m1 ^ 3 / s ^ 4) (6 * m1 ^ 2 / s ^ 4)
    (-4 * m1 / s ^ 4) (1 / s ^ 4)
    (fun x => ((x - (loc + scale * m1)) / (scale * s)) ^ 4) (fun x => by field_simp; ring)).2
  rw [h]
  exact wb_kurt_alg m1 _ _ _ s hspos

end Qats.Dist
