import Qats.Model.Export
import Qats.Lemmas.PipelineMain
import Qats.Lemmas.ExportCheck
import Qats.Lemmas.ExportCommon
import Mathlib.Tactic
/-!
What a positive answer of the common-time diagnosis guarantees about the processed time arrays (uniform series, lattices,
windows, resampling), and where the forced common time array lies.
-/
namespace Qats.Export
set_option linter.unusedSectionVars false
set_option linter.unusedVariables false
open Qats.Pipeline (Opts Resample Stages)
variable {α : Type} [Field α] [LinearOrder α] [IsStrictOrderedRing α]

/-- Without keyword arguments a positive answer means: equal mean steps, starts and ends. -/
theorem isCommon_plain (sel : List (Entry α)) (ss : List (Summary α)) (hs : summaries sel = some ss) (tc : TimeCheck α)
    (h : checkTimeArrays ss none none = .ok tc) (hc : tc.isCommon = true) (e1 e2 : Entry α) (h1 : e1 ∈ sel) (h2 : e2 ∈ sel) :
    e1.t.head? = e2.t.head? ∧ e1.t.getLast? = e2.t.getLast? ∧ Qats.Pipeline.meanDt e1.t = Qats.Pipeline.meanDt e2.t := by
  obtain ⟨e, hd, he, hh, -, hdt, hst, hen⟩ := isCommon_spec ss none none tc h hc
  rw [handled_none] at hh
  cases hh
  simp only [List.not_mem_nil, or_false] at hdt hst hen
  obtain ⟨x1, x2, x3, x4, x5, x6⟩ := extrema_spec ss e he
  obtain ⟨s1, hs1, a1, b1, c1, -⟩ := entry_bounds sel ss hs e he e1 h1
  obtain ⟨s2, hs2, a2, b2, c2, -⟩ := entry_bounds sel ss hs e he e2 h2
  have m1 : ∀ s ∈ ss, s.start = e.smax := fun s hs' =>
    spread_zero_all_eq _ _ _ x3 x4 hst _ (List.mem_map.mpr ⟨s, hs', rfl⟩)
  have m2 : ∀ s ∈ ss, s.stop = e.emax := fun s hs' =>
    spread_zero_all_eq _ _ _ x5 x6 hen _ (List.mem_map.mpr ⟨s, hs', rfl⟩)
  have m3 : ∀ s ∈ ss, s.dt = e.dmax := fun s hs' =>
    spread_zero_all_eq _ _ _ x1 x2 hdt _ (List.mem_map.mpr ⟨s, hs', rfl⟩)
  refine ⟨?_, ?_, ?_⟩
  · rw [a1, a2, m1 s1 hs1, m1 s2 hs2]
  · rw [b1, b2, m2 s1 hs1, m2 s2 hs2]
  · rw [← c1, ← c2, m3 s1 hs1, m3 s2 hs2]

/-- Uniformly sampled series (each with its own start, step and length): a positive answer without keyword arguments
means that the stored time arrays are equal. -/
theorem common_safe_uniform' (sel : List (Entry α)) (ss : List (Summary α)) (hs : summaries sel = some ss)
    (hu : ∀ e ∈ sel, ∃ t0 d n, 0 < d ∧ 2 ≤ n ∧ e.t = uniform t0 d n)
    (tc : TimeCheck α) (h : checkTimeArrays ss none none = .ok tc) (hc : tc.isCommon = true) :
    ∀ e1 ∈ sel, ∀ e2 ∈ sel, e1.t = e2.t := by
  intro e1 h1 e2 h2
  obtain ⟨hh, hl, hm⟩ := isCommon_plain sel ss hs tc h hc e1 e2 h1 h2
  obtain ⟨t1, d1, n1, hd1, hn1, ht1⟩ := hu e1 h1
  obtain ⟨t2, d2, n2, hd2, hn2, ht2⟩ := hu e2 h2
  rw [ht1, ht2] at hh hl hm ⊢
  rw [uniform_head _ _ _ (by omega), uniform_head _ _ _ (by omega)] at hh
  rw [uniform_last _ _ _ (by omega), uniform_last _ _ _ (by omega)] at hl
  rw [meanDt_uniform _ _ _ hn1, meanDt_uniform _ _ _ hn2] at hm
  simp only [Option.some.injEq] at hh hl
  subst hh hm
  have : ((n1 - 1 : Nat) : α) * d1 = ((n2 - 1 : Nat) : α) * d1 := by linarith
  have := mul_right_cancel₀ (ne_of_gt hd1) this
  have : n1 - 1 = n2 - 1 := by exact_mod_cast this
  have : n1 = n2 := by omega
  rw [this]

/-- Series on one lattice `o + ℕ·d` and a window: a positive answer means that the windowed time arrays are equal. -/
theorem common_safe_twin' (o d : α) (hd : 0 < d) (sel : List (Entry α)) (ss : List (Summary α))
    (hs : summaries sel = some ss) (hl : ∀ e ∈ sel, ∃ m n, 1 ≤ n ∧ e.t = lattice o d m n)
    (a b : α) (res : Option α) (tc : TimeCheck α)
    (h : checkTimeArrays ss (some (a, b)) (res.map Resample.step) = .ok tc) (hc : tc.isCommon = true) :
    ∀ e1 ∈ sel, ∀ e2 ∈ sel, windowT a b e1.t = windowT a b e2.t := by
  intro e1 h1 e2 h2
  obtain ⟨e, hdl, he, hh, -, -, hst, hen⟩ := isCommon_spec ss _ _ tc h hc
  obtain ⟨x1, x2, x3, x4, x5, x6⟩ := extrema_spec ss e he
  obtain ⟨s1, hs1, a1, b1, -, u1, -, -, v1, -⟩ := entry_bounds sel ss hs e he e1 h1
  obtain ⟨s2, hs2, a2, b2, -, u2, -, -, v2, -⟩ := entry_bounds sel ss hs e he e2 h2
  obtain ⟨m1, n1, hn1, ht1⟩ := hl e1 h1
  obtain ⟨m2, n2, hn2, ht2⟩ := hl e2 h2
  rw [ht1, lattice_head _ _ _ _ hn1] at a1
  rw [ht1, lattice_last _ _ _ _ hn1] at b1
  rw [ht2, lattice_head _ _ _ _ hn2] at a2
  rw [ht2, lattice_last _ _ _ _ hn2] at b2
  simp only [Option.some.injEq] at a1 b1 a2 b2
  rw [ht1, ht2]
  -- start: zero spread, or handled by the window (only the window can handle it here)
  have hstart : m1 = m2 ∨ (o + (m1 : α) * d ≤ a ∧ o + (m2 : α) * d ≤ a) := by
    rcases hst with hz | hm
    · left
      have e1' := spread_zero_all_eq _ _ _ x3 x4 hz _ (List.mem_map.mpr ⟨s1, hs1, rfl⟩)
      have e2' := spread_zero_all_eq _ _ _ x3 x4 hz _ (List.mem_map.mpr ⟨s2, hs2, rfl⟩)
      exact lattice_start_inj o d hd m1 m2 (by rw [a1, a2, e1', e2'])
    · right
      rcases handled_mem _ _ _ _ _ hh _ hm with ⟨hx, -⟩ | ⟨ts, _, _, hr, -⟩ | ⟨a', b', htw, hcase⟩
      · cases hx
      · cases res <;> simp at hr
      · simp only [Option.some.injEq, Prod.mk.injEq] at htw
        obtain ⟨rfl, rfl⟩ := htw
        rcases hcase with ⟨-, hle⟩ | ⟨hx, -⟩
        · exact ⟨by rw [a1]; exact le_trans u1 hle, by rw [a2]; exact le_trans u2 hle⟩
        · cases hx
  have hend : m1 + n1 = m2 + n2 ∨
      (b ≤ o + ((m1 + n1 - 1 : Nat) : α) * d ∧ b ≤ o + ((m2 + n2 - 1 : Nat) : α) * d) := by
    rcases hen with hz | hm
    · left
      have e1' := spread_zero_all_eq _ _ _ x5 x6 hz _ (List.mem_map.mpr ⟨s1, hs1, rfl⟩)
      have e2' := spread_zero_all_eq _ _ _ x5 x6 hz _ (List.mem_map.mpr ⟨s2, hs2, rfl⟩)
      have := lattice_start_inj o d hd (m1 + n1 - 1) (m2 + n2 - 1) (by rw [b1, b2, e1', e2'])
      omega
    · right
      rcases handled_mem _ _ _ _ _ hh _ hm with ⟨hx, -⟩ | ⟨ts, _, _, hr, -⟩ | ⟨a', b', htw, hcase⟩
      · cases hx
      · cases res <;> simp at hr
      · simp only [Option.some.injEq, Prod.mk.injEq] at htw
        obtain ⟨rfl, rfl⟩ := htw
        rcases hcase with ⟨hx, -⟩ | ⟨-, hle⟩
        · cases hx
        · exact ⟨by rw [b1]; exact le_trans hle v1, by rw [b2]; exact le_trans hle v2⟩
  exact window_lattice_eq o d hd m1 n1 m2 n2 hn1 hn2 a b hstart hend

/-- Resampling to a step without a window, arbitrary sampling: a positive answer means equal starts and ends, hence one
resampling grid for all series. -/
theorem common_safe_step' (rnd : α → Int) (st : Stages α) (sel : List (Entry α)) (ss : List (Summary α))
    (hs : summaries sel = some ss) (d : α) (tc : TimeCheck α)
    (h : checkTimeArrays ss none (some (.step d)) = .ok tc) (hc : tc.isCommon = true) (tp fl sm : Bool) :
    ∀ e1 ∈ sel, ∀ e2 ∈ sel, ∀ t1 x1 t2 x2,
      Qats.Pipeline.get rnd st e1.t e1.x { resample := some (.step d), taper := tp, filter := fl, smooth := sm } = .ok (t1, x1) →
      Qats.Pipeline.get rnd st e2.t e2.x { resample := some (.step d), taper := tp, filter := fl, smooth := sm } = .ok (t2, x2) →
      t1 = t2 := by
  intro e1 h1 e2 h2 t1 x1 t2 x2 g1 g2
  obtain ⟨e, hdl, he, hh, -, -, hst, hen⟩ := isCommon_spec ss _ _ tc h hc
  rw [handled_step] at hh
  cases hh
  have hst : zeroSpread e.smax e.smin = true := by
    rcases hst with h | h
    · exact h
    · simp at h
  have hen : zeroSpread e.emax e.emin = true := by
    rcases hen with h | h
    · exact h
    · simp at h
  obtain ⟨x1', x2', x3, x4, x5, x6⟩ := extrema_spec ss e he
  obtain ⟨s1, hs1, a1, b1, -⟩ := entry_bounds sel ss hs e he e1 h1
  obtain ⟨s2, hs2, a2, b2, -⟩ := entry_bounds sel ss hs e he e2 h2
  have e1s := spread_zero_all_eq _ _ _ x3 x4 hst _ (List.mem_map.mpr ⟨s1, hs1, rfl⟩)
  have e2s := spread_zero_all_eq _ _ _ x3 x4 hst _ (List.mem_map.mpr ⟨s2, hs2, rfl⟩)
  have e1e := spread_zero_all_eq _ _ _ x5 x6 hen _ (List.mem_map.mpr ⟨s1, hs1, rfl⟩)
  have e2e := spread_zero_all_eq _ _ _ x5 x6 hen _ (List.mem_map.mpr ⟨s2, hs2, rfl⟩)
  rw [get_step_time rnd st e1.t e1.x d tp fl sm t1 x1 _ _ a1 b1 g1,
    get_step_time rnd st e2.t e2.x d tp fl sm t2 x2 _ _ a2 b2 g2]
  rw [e1s, e2s, e1e, e2e]

/-! ### the forced common time array -/

theorem linspace_inside (a b : α) (hab : a ≤ b) (n : Nat) : ∀ q ∈ Qats.Pipeline.linspace a b n, a ≤ q ∧ q ≤ b := by
  intro q hq
  unfold Qats.Pipeline.linspace at hq
  split at hq
  · simp only [List.mem_cons, List.not_mem_nil, or_false] at hq
    subst hq
    exact ⟨le_rfl, hab⟩
  · obtain ⟨i, hi, rfl⟩ := List.mem_map.mp hq
    have hi' : i < n := List.mem_range.mp hi
    have hn : 2 ≤ n := by omega
    have hpos : (0 : α) < ((n - 1 : Nat) : α) := by exact_mod_cast (by omega : 0 < n - 1)
    have hile : (i : α) ≤ ((n - 1 : Nat) : α) := by exact_mod_cast (by omega : i ≤ n - 1)
    have hi0 : (0 : α) ≤ (i : α) := Nat.cast_nonneg i
    have hstep : 0 ≤ (b - a) / ((n - 1 : Nat) : α) := div_nonneg (by linarith) hpos.le
    refine ⟨by nlinarith, ?_⟩
    have : (i : α) * ((b - a) / ((n - 1 : Nat) : α)) ≤ ((n - 1 : Nat) : α) * ((b - a) / ((n - 1 : Nat) : α)) :=
      mul_le_mul_of_nonneg_right hile hstep
    have h2 : ((n - 1 : Nat) : α) * ((b - a) / ((n - 1 : Nat) : α)) = b - a := by
      field_simp
    linarith

theorem cropT_subset (twin : Option (α × α)) (t : List α) : ∀ q ∈ cropT twin t, q ∈ t := by
  intro q hq
  unfold cropT at hq
  split at hq
  · exact ((windowT_mem _ _ _ _).mp hq).1
  · exact hq

/-- The constructed common time array (series not already common) lies inside the span of every selected series and, when
a window is given, inside the window: resampling to it never extrapolates. -/
theorem common_time_inside' (rnd : α → Int) (sel : List (Entry α)) (ss : List (Summary α)) (hs : summaries sel = some ss)
    (firstT : List α) (twin : Option (α × α)) (tc : TimeCheck α) (h0 : checkTimeArrays ss none none = .ok tc)
    (hnc : tc.isCommon = false) (ct : List α) (h : createCommonTime rnd ss firstT twin = .ok ct) :
    ∀ q ∈ ct, (∀ e ∈ sel, ∃ lo hi, e.t.head? = some lo ∧ e.t.getLast? = some hi ∧ lo ≤ q ∧ q ≤ hi) ∧
      (∀ a b, twin = some (a, b) → a ≤ q ∧ q ≤ b) := by
  intro q hq
  unfold createCommonTime at h
  rw [h0] at h
  simp only [hnc, Bool.false_eq_true, if_false] at h
  obtain ⟨e, hd, he, -, hcm, -, -⟩ := check_ok ss none none tc h0
  rw [hcm] at h
  simp only [recommended] at h
  split at h
  next a' b' d' hrec =>
    split at hrec
    next hlt =>
      simp only [Option.some.injEq, Prod.mk.injEq] at hrec
      obtain ⟨rfl, rfl, rfl⟩ := hrec
      simp only [Except.ok.injEq] at h
      subst h
      constructor
      · intro en hen
        obtain ⟨s, -, a1, b1, -, u1, -, -, v1, -⟩ := entry_bounds sel ss hs e he en hen
        have hq' := cropT_subset twin _ q hq
        unfold Qats.Pipeline.newTimearray at hq'
        obtain ⟨l1, l2⟩ := linspace_inside e.smax e.emin hlt.le _ q hq'
        exact ⟨s.start, s.stop, a1, b1, le_trans u1 l1, le_trans l2 v1⟩
      · rintro a b rfl
        simp only [cropT] at hq
        exact ((windowT_mem _ _ _ _).mp hq).2
    · simp at hrec
  · simp at h

end Qats.Export
