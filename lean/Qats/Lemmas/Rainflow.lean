import Qats.Model.Rainflow
import Qats.Lemmas.PreludeSort
import Mathlib.Data.List.Sort
import Mathlib.Algebra.Order.Field.Basic
import Mathlib.Algebra.Order.AbsoluteValue.Basic
import Mathlib.Tactic.Ring
import Mathlib.Tactic.Linarith
import Mathlib.Tactic.NormNum
import Mathlib.Tactic.FieldSimp

namespace Qats.Rainflow
set_option linter.unusedSectionVars false
set_option linter.unnecessarySeqFocus false
variable {α : Type} [Field α] [LinearOrder α] [IsStrictOrderedRing α]

@[simp] theorem abs'_eq_abs (x : α) : abs' x = |x| := by
  unfold abs'
  split
  · rw [abs_of_neg ‹_›]
  · rw [abs_of_nonneg (not_lt.mp ‹_›)]

theorem reduce_conserve (p : α) (s : List α) :
    2 * (reduce p s).full.length + (reduce p s).half.length + (reduce p s).stack.length = s.length + 1 := by
  fun_induction reduce p s <;> simp_all +zetaDelta <;> omega

theorem reduce_stack_ne (p : α) (s : List α) : (reduce p s).stack ≠ [] := by
  fun_induction reduce p s <;> simp_all +zetaDelta

theorem feed_conserve (st pts : List α) :
    2 * (feed st pts).full.length + (feed st pts).half.length + (feed st pts).stack.length
      = st.length + pts.length := by
  fun_induction feed st pts with
  | case1 => simp
  | case2 st r rs o o' ih =>
    have := reduce_conserve r st
    simp_all +zetaDelta
    omega

theorem feed_stack_ne (st pts : List α) (h : st ≠ [] ∨ pts ≠ []) : (feed st pts).stack ≠ [] := by
  fun_induction feed st pts with
  | case1 => simpa using h
  | case2 st r rs o o' ih =>
    apply ih
    left
    exact reduce_stack_ne _ _

theorem leftovers_length (s : List α) : (leftovers s).length = s.length - 1 := by
  fun_induction leftovers s with
  | case1 => simp_all
  | case2 t h =>
    rcases t with _ | ⟨a, _ | ⟨b, r⟩⟩
    · simp
    · simp
    · exact absurd rfl (h a b r)

theorem cyclesOfPoints_conservation (pts : List α) :
    2 * (cyclesOfPoints pts).1.length + (cyclesOfPoints pts).2.length = pts.length - 1 := by
  unfold cyclesOfPoints
  have h1 := feed_conserve [] pts
  simp only [List.length_append, leftovers_length]
  rcases pts with _ | ⟨p, ps⟩
  · simp [feed]
  · have := feed_stack_ne [] (p :: ps) (by simp)
    have : 0 < (feed [] (p :: ps)).stack.length := List.length_pos_iff.mpr this
    simp at h1 ⊢
    omega

end Qats.Rainflow
