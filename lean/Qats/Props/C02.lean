import Qats.Lemmas.RainflowMain
import Qats.Lemmas.RainflowGen
/-!
# C02 — rainflow counting is the ASTM E1049-85 three-point procedure

Property theorems only (helper lemmas live in `Qats/Lemmas/Rainflow*.lean`).
`α` is an arbitrary linearly ordered field: every statement holds for all finite sequences, of any length.
Floating-point rounding is outside these theorems (DESIGN.md section 3).
-/
namespace Qats.Props.C02
open Qats Qats.Rainflow
set_option linter.unusedSectionVars false
variable {α : Type} [Field α] [LinearOrder α] [IsStrictOrderedRing α]

/-- Twice the number of full cycles plus the number of half cycles equals the number of counted points
minus one (natural-number subtraction: no points ⇒ no cycles). -/
theorem cycles_conservation (ep : Bool) (s pts : List α) (f h : List (Cyc α))
    (hp : reversals ep s = some pts) (hc : cycles ep s = some (f, h)) :
    2 * f.length + h.length = pts.length - 1 := by
  unfold cycles at hc
  rw [hp] at hc
  simp only [Option.map_some, Option.some.injEq] at hc
  have := cyclesOfPoints_conservation pts
  rw [hc] at this
  exact this

/-- The counted points strictly alternate (peak, valley, peak, …), or are the degenerate pair of a constant
series counted with its end points. -/
theorem reversals_alternate (ep : Bool) (s pts : List α) (hp : reversals ep s = some pts) :
    Alt pts ∨ ∃ c, pts = [c, c] :=
  reversals_alt ep s pts hp

/-- Every counted range is a distance between two counted points, hence non-negative. -/
theorem ranges_nonneg (pts : List α) :
    ∀ c ∈ (cyclesOfPoints pts).1 ++ (cyclesOfPoints pts).2, 0 ≤ c.range :=
  cyclesOfPoints_range_nonneg pts

/-- If at least two points are counted, the largest counted range is the span between the highest and the lowest
counted point: some cycle attains it, none exceeds it. -/
theorem largest_range (ep : Bool) (s pts : List α) (hp : reversals ep s = some pts) (h2 : 2 ≤ pts.length)
    (M m : α) (hM : M ∈ pts ∧ ∀ p ∈ pts, p ≤ M) (hm : m ∈ pts ∧ ∀ p ∈ pts, m ≤ p) :
    (∃ c ∈ (cyclesOfPoints pts).1 ++ (cyclesOfPoints pts).2, c.range = M - m) ∧
      ∀ c ∈ (cyclesOfPoints pts).1 ++ (cyclesOfPoints pts).2, c.range ≤ M - m :=
  cyclesOfPoints_largest ep s pts hp h2 M m hM hm

/-- The table is a permutation of the counted cycles, full cycles tagged 1 and half cycles tagged 1/2. -/
theorem table_perm (ep : Bool) (s : List α) (fh : List (Cyc α) × List (Cyc α)) (rows : List (Row α))
    (hc : cycles ep s = some fh) (hr : countCycles ep s = some rows) :
    rows.Perm (tagged (1.0 : α) (0.5 : α) fh) := by
  unfold countCycles at hr
  rw [hc] at hr
  simp only [Option.map_some, Option.some.injEq] at hr
  subst hr
  exact isort_perm _ _

/-- Counts are 1 or 1/2. -/
theorem count_values (ep : Bool) (s : List α) (rows : List (Row α)) (hr : countCycles ep s = some rows) :
    ∀ r ∈ rows, r.count = 1 ∨ r.count = 1 / 2 :=
  countCycles_count_values ep s rows hr

/-- The table is sorted by range, then mean. -/
theorem table_sorted (ep : Bool) (s : List α) (rows : List (Row α)) (hr : countCycles ep s = some rows) :
    rows.Pairwise (fun a b => a.range < b.range ∨ (a.range = b.range ∧ a.mean ≤ b.mean)) :=
  countCycles_sorted ep s rows hr

/-- A series of at least two samples always yields a table (never an error), and when fewer than two points are
counted the table is empty. -/
theorem no_cycle_empty (ep : Bool) (s : List α) (h : 2 ≤ s.length) :
    ∃ pts rows, reversals ep s = some pts ∧ countCycles ep s = some rows ∧ (pts.length ≤ 1 → rows = []) :=
  countCycles_total ep s h

/-- Non-vacuity / worked example: the series of the function's docstring (and of `test_rainflow`), with the
published table. -/
example : countCycles false ([0, -2, 1, -3, 5, -1, 3, -4, 4, -2, 0] : List Rat) =
    some [⟨3, -1/2, 1/2⟩, ⟨4, -1, 1/2⟩, ⟨4, 1, 1⟩, ⟨6, 1, 1/2⟩, ⟨8, 0, 1/2⟩, ⟨8, 1, 1/2⟩, ⟨9, 1/2, 1/2⟩] := by
  decide +kernel

/-! ### the three-point rule is the one written in the source (regenerated on every run) -/

/-- One step of the inner loop of the stack machine, written with the expressions for the ranges X, Y and the mean of Y that
`rainflow.cycles` forms from the three most recent points (`Qats.Gen.rf_x`, `rf_y`, `rf_m`, regenerated from
`qats/fatigue/rainflow.py` by the translator on every run): read on when X < Y, a half cycle when Y contains the starting point,
a full cycle otherwise. -/
theorem reduce_is_source (p1 p2 p3 : ℝ) (rest : List ℝ) :
    reduce p1 (p2 :: p3 :: rest) =
      if Qats.Gen.rf_x p1 p2 p3 < Qats.Gen.rf_y p1 p2 p3 then ⟨[], [], p1 :: p2 :: p3 :: rest⟩
      else if rest.isEmpty then ⟨[], [⟨Qats.Gen.rf_y p1 p2 p3, Qats.Gen.rf_m p1 p2 p3⟩], [p1, p2]⟩
      else ⟨⟨Qats.Gen.rf_y p1 p2 p3, Qats.Gen.rf_m p1 p2 p3⟩ :: (reduce p1 rest).full, (reduce p1 rest).half,
            (reduce p1 rest).stack⟩ :=
  reduce_is_source' p1 p2 p3 rest

/-- The half cycles counted from the points that remain, written with the source's expressions (`rf_left_range`,
`rf_left_mean`). -/
theorem leftovers_is_source (p1 p2 : ℝ) (rest : List ℝ) :
    leftovers (p1 :: p2 :: rest) =
      ⟨Qats.Gen.rf_left_range p1 p2, Qats.Gen.rf_left_mean p1 p2⟩ :: leftovers (p2 :: rest) :=
  leftovers_is_source' p1 p2 rest

end Qats.Props.C02
