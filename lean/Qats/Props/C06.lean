import Qats.Lemmas.SNMain
import Qats.Lemmas.SN06Main
import Qats.Lemmas.SNBilinear
/-!
# C06 — Miner damage is additive and agrees between histogram and closed form

Property theorems only, over ℝ, about `Qats.SN.minersum` (the per-bin sum with the generated S-N formulas) and the
generated closed forms of `minersum_weibull` and `goodman_haigh`.
-/
namespace Qats.Props.C06
open Qats Qats.Gen Qats.SN

/-- Damage is additive over any split of the histogram. -/
theorem miner_append (c : Curve ℝ) (td scf : ℝ) (th : Option ℝ) (h1 h2 : List (ℝ × ℝ)) (d1 d2 : ℝ)
    (e1 : minersum c td scf th h1 = some d1) (e2 : minersum c td scf th h2 = some d2) :
    minersum c td scf th (h1 ++ h2) = some (d1 + d2) :=
  minersum_append' c td scf th h1 h2 d1 d2 e1 e2

/-- … and does not depend on the order of the bins. -/
theorem miner_perm (c : Curve ℝ) (td scf : ℝ) (th : Option ℝ) (h1 h2 : List (ℝ × ℝ)) (hp : h1.Perm h2) :
    minersum c td scf th h1 = minersum c td scf th h2 :=
  minersum_perm' c td scf th h1 h2 hp

/-- Linear in the counts (factor `k`) and in the duration (factor `l`). -/
theorem miner_linear (c : Curve ℝ) (td scf k l : ℝ) (th : Option ℝ) (h : List (ℝ × ℝ)) (d : ℝ)
    (e : minersum c td scf th h = some d) :
    minersum c (l * td) scf th (h.map fun p => (p.1, k * p.2)) = some (l * k * d) :=
  minersum_linear' c td scf k l th h d e

/-- A stress concentration factor is equivalent to scaling the stress ranges. -/
theorem miner_scf (c : Curve ℝ) (td scf : ℝ) (th : Option ℝ) (h : List (ℝ × ℝ)) :
    minersum c td scf th h = minersum c td 1 th (h.map fun p => (p.1 * scf, p.2)) :=
  minersum_scf' c td scf th h

/-- Single-slope closed form of `minersum_weibull` = the expected damage rate integrated over the Weibull density of
the stress ranges, i.e. the limit of the histogram damage of an arbitrarily fine discretisation. -/
theorem weibull_single_closed_form (a1 h m1 q td v0 : ℝ) (ha : 0 < a1) (hh : 0 < h) (hm : 0 < m1) (hq : 0 < q) :
    v0 * td * ∫ s in Set.Ioi (0 : ℝ), weibullPdf q h s / (a1 * s ^ (-m1)) = sn_mw_single a1 h m1 q td v0 :=
  weibull_single_closed_form' a1 h m1 q td v0 ha hh hm hq

/-- Bilinear closed form of `minersum_weibull`: the expected damage, split at the transition stress `sw` (lower branch
`a2, m2` below, upper branch `a1, m1` above), equals the generated formula with `g1 = Γ(1 + m1/h, (sw/q)^h)` (upper incomplete
gamma) and `g2 = γ(1 + m2/h, (sw/q)^h)` (lower incomplete gamma), both defined as integrals in `Lemmas/SNBilinear.lean`
(scipy's `gammaincc·gamma` / `gammainc·gamma`; that scipy computes these integrals is assumed and measured). -/
theorem weibull_bilinear_closed_form (a1 a2 h m1 m2 q td v0 sw : ℝ) (ha1 : 0 < a1) (ha2 : 0 < a2) (hh : 0 < h)
    (hm1 : 0 < m1) (hm2 : 0 < m2) (hq : 0 < q) (hsw : 0 < sw) :
    v0 * td * ((∫ s in Set.Ioc (0 : ℝ) sw, weibullPdf q h s / (a2 * s ^ (-m2))) +
        ∫ s in Set.Ioi sw, weibullPdf q h s / (a1 * s ^ (-m1))) =
      sn_mw_bilinear a1 a2 (upperGamma (sn_mw_a1 h m1) (sn_mw_x h q sw)) (lowerGamma (sn_mw_a2 h m2) (sn_mw_x h q sw))
        m1 m2 q td v0 :=
  weibull_bilinear_closed_form' a1 a2 h m1 m2 q td v0 sw ha1 ha2 hh hm1 hm2 hq hsw

/-- Goodman–Haigh: zero-mean cycles are unchanged … -/
theorem gh_zero_mean (r uts : ℝ) (hu : uts ≠ 0) : gh_corrected (0 : ℝ) r uts = r :=
  gh_zero_mean' r uts hu

/-- … the effective range is `range·uts/(uts − mean)` … -/
theorem gh_formula (m r uts : ℝ) (hu : uts - m ≠ 0) : gh_corrected m r uts = r * uts / (uts - m) :=
  gh_formula' m r uts hu

/-- … a tensile mean stress enlarges it … -/
theorem gh_tensile_enlarges (m r uts : ℝ) (hm : 0 < m) (hmu : m < uts) (hr : 0 < r) : r < gh_corrected m r uts :=
  gh_tensile_enlarges' m r uts hm hmu hr

/-- … and the correction is independent of the stress unit. -/
theorem gh_unit_free (k m r uts : ℝ) (hk : 0 < k) (hu : uts - m ≠ 0) :
    gh_corrected (k * m) (k * r) (k * uts) = k * gh_corrected m r uts :=
  gh_unit_free' k m r uts hk hu

end Qats.Props.C06
