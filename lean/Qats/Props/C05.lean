import Qats.Lemmas.SNMain
/-!
# C05 — an S-N curve is a continuous, decreasing, invertible capacity law

Property theorems only, over ℝ, about the formulas **generated from `qats/fatigue/sn.py`** (`Qats.Gen.sn_*`) composed
by the branch skeleton of `Qats/Model/SN.lean`.  `tc` is the thickness factor (1 when no thickness is given);
`Curve.n c s t = (c.tfactor t).map (c.nWith · s)`.
-/
namespace Qats.Props.C05
open Qats Qats.Gen Qats.SN

/-- The slope changes exactly where capacity equals the transition cycle number: at the transition stress both
branch formulas give `nswitch`. -/
theorem n_at_switch (c : Curve ℝ) (hv : Valid c) (m2 : ℝ) (tc s : ℝ) (htc : 0 < tc) (hs : s * tc = c.sswitch) :
    sn_n_upper c.loga1 c.m1 s tc = c.nswitch ∧ sn_n_lower (c.loga2 m2) m2 s tc = c.nswitch :=
  n_at_switch' c hv m2 tc s htc hs

/-- Cycles to failure is continuous in the stress range (single-slope or bilinear, any thickness factor). -/
theorem n_continuousOn (c : Curve ℝ) (hv : Valid c) (tc : ℝ) (htc : 0 < tc) :
    ContinuousOn (fun s => c.nWith tc s) (Set.Ioi 0) :=
  nWith_continuousOn' c hv tc htc

/-- … and strictly decreasing. -/
theorem n_strictAntiOn (c : Curve ℝ) (hv : Valid c) (tc : ℝ) (htc : 0 < tc) :
    StrictAntiOn (fun s => c.nWith tc s) (Set.Ioi 0) :=
  nWith_strictAntiOn' c hv tc htc

/-- The upper branch is used exactly for capacities up to `nswitch`. -/
theorem switch_iff (c : Curve ℝ) (hv : Valid c) (m2 : ℝ) (hm : c.m2 = some m2) (tc s : ℝ) (htc : 0 < tc) (hs : 0 < s) :
    c.sswitch ≤ s * tc ↔ c.nWith tc s ≤ c.nswitch :=
  switch_iff' c hv m2 hm tc s htc hs

/-- Fatigue strength is the inverse of cycles to failure … -/
theorem strength_n (c : Curve ℝ) (hv : Valid c) (tc s : ℝ) (htc : 0 < tc) (hs : 0 < s) :
    c.strengthWith tc (c.nWith tc s) = s :=
  strength_n' c hv tc s htc hs

/-- … on both sides. -/
theorem n_strength (c : Curve ℝ) (hv : Valid c) (tc n : ℝ) (htc : 0 < tc) (hn : 0 < n) :
    c.nWith tc (c.strengthWith tc n) = n :=
  n_strength' c hv tc n htc hn

/-- Thickness at or below the reference has no effect (factor 1) … -/
theorem tcorr_le_ref (te tr t : ℝ) (htr : 0 < tr) (ht : t ≤ tr) : tcorr te tr t = 1 :=
  tcorr_le_ref' te tr t htr ht

/-- … above it the factor is `(t/t_ref)^k` … -/
theorem tcorr_gt_ref (te tr t : ℝ) (ht : tr < t) : tcorr te tr t = (t / tr) ^ te :=
  tcorr_gt_ref' te tr t ht

/-- … and the factor acts exactly like multiplying the stress range by it. -/
theorem tcorr_scaling (c : Curve ℝ) (tc s : ℝ) : c.nWith tc s = c.nWith 1 (s * tc) :=
  nWith_scaling' c tc s

/-- Full API form: with thickness `t > t_ref`, `n(s, t) = n(s·(t/t_ref)^k)`; with `t ≤ t_ref`, `n(s, t) = n(s)`. -/
theorem n_thickness (c : Curve ℝ) (te tr t s : ℝ) (hth : c.thick = some (te, tr)) (htr : 0 < tr) :
    c.n s (some t) = c.n (s * (if t ≤ tr then 1 else (t / tr) ^ te)) none := by
  have h1 : c.tfactor (some t) = some (tcorr te tr t) := by simp [Curve.tfactor, hth]
  have h2 : c.tfactor none = some (1.0 : ℝ) := rfl
  have h3 : ((1.0 : ℝ)) = 1 := by norm_num
  simp only [Curve.n, h1, h2, h3, Option.map_some]
  congr 1
  rw [tcorr_scaling]
  split
  · rw [tcorr_le_ref te tr t htr ‹_›]
  · rw [tcorr_gt_ref te tr t (not_le.mp ‹_›)]

/-- Scalar and array evaluation agree (an invalid thickness request fails for both). -/
theorem n_array (c : Curve ℝ) (s : List ℝ) (t : Option ℝ) :
    c.nArray s t = (c.tfactor t).bind fun _ => s.mapM fun si => c.n si t :=
  n_array' c s t

/-- Non-vacuity: DNV-RP-C203 curve D in air (m1 = 3, log a1 = 12.164, m2 = 5, N_switch = 1e7, k = 0.2, t_ref = 25 mm)
is a valid curve. -/
example : Valid ({ m1 := 3, loga1 := 12.164, m2 := some 5, nswitch := 1e7, thick := some (0.2, 25) } : Curve ℝ) := by
  constructor
  · norm_num
  · intro m2 h; simp at h; rw [← h]; norm_num
  · norm_num
  · intro te tr h; simp at h; obtain ⟨h1, h2⟩ := h; rw [← h1, ← h2]; norm_num

end Qats.Props.C05
