import Qats.Lemmas.GuiMain
import Qats.Lemmas.GuiQuiet
import Qats.Lemmas.GuiSettingsMain
/-!
# C19 — the GUI shows the database and the latest request, whatever the worker order

Theorems about the orchestration model `Qats/Model/Gui.lean` (user actions + `complete i` for any pending worker; the thread
pool is a list; every transition is atomic).  `cat` is the catalogue of files (file id ↦ series names, `none` = unreadable).
A view holds `(series, window, filter, mode)`; the numbers on screen are the library's result for exactly these arguments
(the harness compares the drawn numbers with the library called directly, the model treats the computations as opaque).

* `list_mirrors_db`, `failed_import_unchanged`, `import_all_or_nothing`, `selection_is_db_keys`: for **all** histories and
  all completion orders (not only idle states).
* `views_latest_quiet_partial`: *partial* — the full statement of C19 ("whatever the worker order, after any sequence of user
  actions") is **false for the code**: the result holds for histories in which display / clear / settings changes are
  made only while no display request is being processed (`Quiet`; imports, ticking, list filter, Gumbel plots and the
  completion order are unrestricted).  What is missing is exactly what the three counter-histories show:
  `stale_view_counterexample` (K1), `late_settings_counterexample` (K2), `clear_in_flight_counterexample` (K4).
-/
namespace Qats.Props.C19
open Qats.Gui

/-- In every reachable state — after any history of user actions and any completion order, idle or not — the list rows
are the relative listing of the database and the status bar shows its size. -/
theorem list_mirrors_db (cat : Nat → Option (List Nat)) (h : List Event) :
    (run cat init h).rows.map (·.text) = listRelative (run cat init h).db ∧
      (run cat init h).status = (run cat init h).db.length :=
  list_mirrors_db' cat h

/-- Completing an import worker one of whose files has a series that is already in the database changes nothing: database,
rows *with their tick marks*, settings, all views, the other pending workers are as before (the status text is re-displayed). -/
theorem failed_import_unchanged (cat : Nat → Option (List Nat)) (s : State) (i : Nat) (files : List Nat) (rest : List Worker)
    (hp : pick i s.pending = some (.imp files, rest))
    (hdup : ∃ f ∈ files, ∃ ns, cat f = some ns ∧ ∃ n ∈ ns, (⟨f, n⟩ : Key) ∈ s.db) :
    step cat s (.complete i) = { s with pending := rest, status := s.db.length } :=
  complete_failed_import' cat s i files rest hp (importResult_none_of_loaded cat s.db files hdup)

/-- An import is all-or-nothing: either nothing changes, or *every* series of *every* chosen file is appended (none of them
was in the database, no key twice) and the list is rebuilt, unticked, from the new database. -/
theorem import_all_or_nothing (cat : Nat → Option (List Nat)) (s : State) (i : Nat) (files : List Nat) (rest : List Worker)
    (hp : pick i s.pending = some (.imp files, rest)) :
    step cat s (.complete i) = { s with pending := rest, status := s.db.length } ∨
      ∃ ks, fileKeys cat files = some ks ∧ hasDup ks = false ∧ (∀ k ∈ ks, k ∉ s.db) ∧
        step cat s (.complete i) =
          { s with pending := rest, db := s.db ++ ks, rows := (listRelative (s.db ++ ks)).map (fun t => ⟨t, false⟩),
                   status := (s.db ++ ks).length } := by
  cases hr : importResult cat s.db files with
  | none => exact Or.inl (complete_failed_import' cat s i files rest hp hr)
  | some ks =>
    obtain ⟨h1, h2, h3⟩ := importResult_some cat s.db files ks hr
    exact Or.inr ⟨ks, h1, h2, h3, complete_good_import' cat s i files rest ks hp hr⟩

/-- After any history the selection handed to a display request (`selected_series`) is exactly the list of database keys
at the positions of the rows that are ticked and pass the list filter; in particular every selected key is in the database. -/
theorem selection_is_db_keys (cat : Nat → Option (List Nat)) (h : List Event) :
    let s := run cat init h
    selected s = ((s.rows.zip s.db).filter (fun q => visible s.pat q.1.text && q.1.checked)).map (·.2) ∧
      ∀ k ∈ selected s, k ∈ s.db :=
  ⟨selected_eq' _ (list_mirrors_db' cat h).1, selected_mem_db' _ (list_mirrors_db' cat h).1⟩

/-- PARTIAL (see the header): after a quiet history, as soon as no display worker is pending, each of the five views shows
the series and the settings of the most recent display request since the last clear, for every completion order. -/
theorem views_latest_quiet_partial (cat : Nat → Option (List Nat)) (h : List Event) (hq : Quiet cat init h)
    (hb : busy (run cat init h) = false) : Consistent (run cat init h) :=
  views_latest_quiet' cat h hq hb

/-- PARTIAL, the design's formulation: serial histories (the user acts only when nothing is pending), idle at the end. -/
theorem views_latest_serial_partial (cat : Nat → Option (List Nat)) (h : List Event) (hs : Serial cat init h)
    (hi : (run cat init h).pending = []) : Consistent (run cat init h) :=
  views_latest_quiet' cat h (serial_quiet cat init h hs) (by simp [busy, hi])

/-- K1: two overlapping requests, the older one's workers complete last: idle, the latest request is series 2, all four
plots and the table show series 1. -/
theorem stale_view_counterexample :
    let s := run cat1 init k1History
    s.pending = [] ∧ s.reqPlots = some ([⟨1, 2⟩], ui0) ∧ s.trace = some ⟨[⟨1, 1⟩], 0, 0, 0⟩ ∧ s.spectrum = some ⟨[⟨1, 1⟩], 0, 0, 0⟩ ∧
      s.weibull = some ⟨[⟨1, 1⟩], 0, 0, 0⟩ ∧ s.cycles = some ⟨[⟨1, 1⟩], 0, 0, 0⟩ ∧ s.table = [⟨⟨1, 1⟩, 0, 0, false⟩] ∧
      ¬ Consistent s ∧ ¬ Quiet cat1 init k1History := by
  decide

/-- K1, table: even when everything completes first-in first-out the statistics table keeps rows of the older, larger
request below the rows of the latest one. -/
theorem stale_table_rows_fifo_counterexample :
    let s := run cat1 init k1FifoHistory
    s.pending = [] ∧ s.reqTable = some ([⟨1, 2⟩], ui0) ∧ s.trace = specTrace s.reqPlots ∧
      s.table = [⟨⟨1, 2⟩, 0, 0, false⟩, ⟨⟨1, 2⟩, 0, 0, false⟩, ⟨⟨1, 3⟩, 0, 0, false⟩] ∧ ¬ Consistent s := by
  decide

/-- K2: the window is changed after the request, before the read worker completes: idle, the request was made with window 0,
every view shows numbers for window 1. -/
theorem late_settings_counterexample :
    let s := run cat1 init k2History
    s.pending = [] ∧ s.reqPlots = some ([⟨1, 1⟩], ui0) ∧ s.trace = some ⟨[⟨1, 1⟩], 1, 0, 0⟩ ∧ s.spectrum = some ⟨[⟨1, 1⟩], 1, 0, 0⟩ ∧
      s.table = [⟨⟨1, 1⟩, 1, 0, false⟩] ∧ ¬ Consistent s ∧ ¬ Quiet cat1 init k2History := by
  decide

/-- K2 at draw time: "show in plot" ticked between the completion of the read worker and the drawing of the trace. -/
theorem late_draw_settings_counterexample :
    let s := run cat1 init k2DrawHistory
    s.pending = [] ∧ s.reqPlots = some ([⟨1, 1⟩], ui0) ∧ s.trace = some ⟨[⟨1, 1⟩], 0, 0, 1⟩ ∧ s.spectrum = specPlain s.reqPlots ∧
      ¬ Consistent s := by
  decide

/-! ## application settings (File > Settings) -/

/-- The settings dialog changes what the user changed and nothing else: Cancel leaves the application settings as they
were; OK with no widget touched leaves them as they were (for settings inside the widgets' ranges — which the defaults are
and which every session keeps, `settings_stay_in_range`); OK sets exactly the edited widgets, to the value typed clamped to
the widget's range. (The views then show "the settings of the latest request": the harness decodes spectrum and cycle
histogram against these values.) -/
theorem settings_dialog_spec (e : Qats.GuiSettings.Edit) (a : Qats.GuiSettings.App) (h : Qats.GuiSettings.InRange a) :
    Qats.GuiSettings.dialog false e a = a ∧ Qats.GuiSettings.dialog true {} a = a ∧
    (Qats.GuiSettings.dialog true e a).norm = e.norm.getD a.norm ∧
    (Qats.GuiSettings.dialog true e a).nperseg = (e.nperseg.map (Qats.GuiSettings.clamp 100 100000)).getD a.nperseg ∧
    (Qats.GuiSettings.dialog true e a).nbins = (e.nbins.map (Qats.GuiSettings.clamp 10 1000)).getD a.nbins ∧
    (Qats.GuiSettings.dialog true e a).ndec = (e.ndec.map (Qats.GuiSettings.clamp 1 10)).getD a.ndec :=
  ⟨Qats.GuiSettings.cancel_unchanged' e a, Qats.GuiSettings.accept_untouched' a h, Qats.GuiSettings.accept_sets_edited' e a h⟩

/-- Whatever sequence of dialogs a session contains, the settings stay inside the widgets' ranges (so the premise above
always holds, starting from the defaults 20000 / 256 / 2 / not normalised). -/
theorem settings_stay_in_range (l : List (Bool × Qats.GuiSettings.Edit)) :
    Qats.GuiSettings.InRange (Qats.GuiSettings.session l) :=
  Qats.GuiSettings.inRange_session l

/-- Regression for the seeded change C19-round5-m1 (value set before the range): accepting the untouched dialog keeps the
segment length 20000. -/
example : (Qats.GuiSettings.session [(true, {}), (false, { nperseg := some 256 }), (true, { nbins := some 5 })]) =
    ⟨false, 20000, 10, 2⟩ := by decide

/-- K4: the database is cleared while the four calculations are pending: idle, database and list empty, no request since
the clear, yet all views show series 1. -/
theorem clear_in_flight_counterexample :
    let s := run cat1 init k4History
    s.pending = [] ∧ s.db = [] ∧ s.rows = [] ∧ s.reqPlots = none ∧ s.trace = some ⟨[⟨1, 1⟩], 0, 0, 0⟩ ∧
      s.table = [⟨⟨1, 1⟩, 0, 0, false⟩] ∧ ¬ Consistent s ∧ ¬ Quiet cat1 init k4History := by
  decide

/-- Non-vacuity: a serial history with a completed request (rows 0 and 2, window 1, filter 2, minima, markers), workers
completed out of order; the hypotheses of both partial theorems hold and the views are non-trivial. -/
example :
    let s := run cat1 init serialHistory
    Serial cat1 init serialHistory ∧ Quiet cat1 init serialHistory ∧ s.pending = [] ∧
      s.trace = some ⟨[⟨1, 1⟩, ⟨1, 3⟩], 1, 2, 2⟩ ∧ s.weibull = some ⟨[⟨1, 1⟩, ⟨1, 3⟩], 1, 2, 1⟩ ∧
      s.table = [⟨⟨1, 1⟩, 1, 2, true⟩, ⟨⟨1, 3⟩, 1, 2, true⟩] ∧ s.db = [⟨1, 1⟩, ⟨1, 2⟩, ⟨1, 3⟩] ∧ Consistent s := by
  decide

/-- Non-vacuity of `failed_import_unchanged`: file 1 is loaded, a second import of file 1 is pending. -/
example :
    let s := run cat1 init [.import_ [1], .complete 0, .setCheck 1 true, .import_ [1]]
    pick 0 s.pending = some (.imp [1], []) ∧ (∃ f ∈ [1], ∃ ns, cat1 f = some ns ∧ ∃ n ∈ ns, (⟨f, n⟩ : Key) ∈ s.db) := by
  refine ⟨by decide, 1, by simp, [1, 2, 3], rfl, 1, by simp, by decide⟩

end Qats.Props.C19
