import Qats.Lemmas.RainflowMain
import Qats.Lemmas.FindReversals
import Qats.Lemmas.FindReversalsPlateauEnds
/-!
# C03 — cycle counts transform with the signal as physics demands

Property theorems only. `α` is an arbitrary linearly ordered field.
-/
namespace Qats.Props.C03
open Qats Qats.Rainflow
set_option linter.unusedSectionVars false
variable {α : Type} [Field α] [LinearOrder α] [IsStrictOrderedRing α]

/-- Image of a cycle under `x ↦ a·x + b`. -/
def mapCyc (a b : α) (c : Cyc α) : Cyc α := ⟨|a| * c.range, a * c.mean + b⟩

/-- Counting `a·x + b` (`a ≠ 0`) gives, cycle by cycle and in the same extraction order, ranges `|a|·r` and means
`a·m + b`; full cycles stay full, half cycles stay half. -/
theorem cycles_affine (a b : α) (ha : a ≠ 0) (ep : Bool) (s : List α) :
    cycles ep (s.map fun x => a * x + b) =
      (cycles ep s).map fun fh => (fh.1.map (mapCyc a b), fh.2.map (mapCyc a b)) :=
  cycles_affine' a b ha ep s

/-- Hence the table of `a·x + b` is the sorted image of the cycles of `x`, with the same counts
(shift: `a = 1`; scaling: `b = 0`; negation: `a = -1`). -/
theorem count_affine (a b : α) (ha : a ≠ 0) (ep : Bool) (s : List α) :
    countCycles ep (s.map fun x => a * x + b) =
      (cycles ep s).map fun fh =>
        isort rowLe (tagged (1.0 : α) (0.5 : α) (fh.1.map (mapCyc a b), fh.2.map (mapCyc a b))) := by
  unfold countCycles
  rw [cycles_affine a b ha]
  cases cycles ep s <;> simp

/-- For a positive factor the sorted table itself is mapped row by row (order preserved). -/
theorem count_affine_pos (a b : α) (ha : 0 < a) (ep : Bool) (s : List α) :
    countCycles ep (s.map fun x => a * x + b) =
      (countCycles ep s).map fun rows => rows.map fun r => ⟨a * r.range, a * r.mean + b, r.count⟩ :=
  count_affine_pos' a b ha ep s

/-- Inserting a sample that lies (weakly) between two consecutive samples — in particular repeating a sample —
does not change the counted points, for any number of insertions. -/
theorem reversals_refines {s s' : List α} (h : Refines s s') (ep : Bool) :
    reversals ep s' = reversals ep s :=
  reversals_refines' h ep

/-- … and therefore not the cycle table. -/
theorem count_refines {s s' : List α} (h : Refines s s') (ep : Bool) :
    countCycles ep s' = countCycles ep s := by
  unfold countCycles cycles
  rw [reversals_refines h]

/-- Counting the extracted turning points with end points included reproduces the count of the original
series (whenever at least two turning points exist; with fewer the generator has nothing to start from). -/
theorem recount_reversals (s pts : List α) (hp : reversals false s = some pts) (h2 : 2 ≤ pts.length) :
    countCycles true pts = countCycles false s :=
  recount_reversals' s pts hp h2

/-- `signal.find_reversals` (the fast turning-point finder): on a signal without plateaus (no two equal consecutive
samples) it returns exactly the turning points of `reversals`, at their positions.
*Partial*: with plateaus the finder reports extra points on descending plateaus (kept by the implementation on
purpose, the test-suite relies on it); `reversals(…, endpoints=True)` removes them again except when they come first
or last (known finding F8b, see DESIGN.md). -/
theorem find_reversals_spec_partial (x : List α) (h2 : 2 ≤ x.length) (hc : List.IsChain (· ≠ ·) x) :
    reversals false x = some ((Qats.FindReversals.findReversals x).map Prod.snd) ∧
      ∀ p ∈ Qats.FindReversals.findReversals x, x[p.1]? = some p.2 := by
  refine ⟨Qats.FindReversals.findReversals_eq_reversals x h2 hc, ?_⟩
  intro p hp
  match x, h2 with
  | a :: b :: rest, _ =>
    have := Qats.FindReversals.frLoop_index 1 (decide (b < a)) [a] (b :: rest) rfl p hp
    simpa using this

/-- … hence counting the finder's output with end points reproduces the count of the signal. -/
theorem recount_find_reversals_partial (x : List α) (h2 : 2 ≤ x.length) (hc : List.IsChain (· ≠ ·) x)
    (h3 : 2 ≤ (Qats.FindReversals.findReversals x).length) :
    countCycles true ((Qats.FindReversals.findReversals x).map Prod.snd) = countCycles false x :=
  recount_reversals x _ (find_reversals_spec_partial x h2 hc).1 (by simpa using h3)

/-- Non-vacuity: a refinement with a repeated and an in-between sample, and its (unchanged) reversals. -/
example : Refines ([0, 2, 1] : List Rat) [0, 0, 1, 2, 1] ∧
    reversals false ([0, 0, 1, 2, 1] : List Rat) = some [2] := by
  refine ⟨?_, by decide +kernel⟩
  refine Refines.trans (Refines.insert [] 0 0 2 [1] (by decide +kernel)) ?_
  exact Refines.insert [0] 0 1 2 [1] (by decide +kernel)

/-- Plateaus allowed, no hypothesis: no turning point is lost by the finder. The signal has the same turning points as
its first two samples followed by the extracted values and the last sample (between consecutive extracted points the
signal is weakly monotone). -/
theorem find_reversals_keeps_turning_points (a b : α) (rest : List α) :
    reversals false (a :: b :: rest) =
      reversals false (a :: b :: ((Qats.FindReversals.findReversals (a :: b :: rest)).map Prod.snd ++
        [rest.getLastD b])) := by
  simp only [reversals, Qats.FindReversals.findReversals]
  rw [← Qats.FindReversals.revLoop_frG 1 (decide (b < a)) b (b - a) rest]

/-- `signal.find_reversals` on ANY signal (plateaus allowed): whenever the first and the last extracted value are the
first and the last turning point of the signal (the complement of the shape of known finding F8b) and at least two
turning points exist, `reversals(…, endpoints=True)` applied to the extracted values returns exactly the turning
points of the signal; and every extracted index carries its value. -/
theorem find_reversals_spec_plateaus (x pts : List α) (hp : reversals false x = some pts) (h2 : 2 ≤ pts.length)
    (hh : ((Qats.FindReversals.findReversals x).map Prod.snd).head? = pts.head?)
    (hl : ((Qats.FindReversals.findReversals x).map Prod.snd).getLast? = pts.getLast?) :
    reversals true ((Qats.FindReversals.findReversals x).map Prod.snd) = some pts ∧
      ∀ p ∈ Qats.FindReversals.findReversals x, x[p.1]? = some p.2 := by
  refine ⟨Qats.FindReversals.findReversals_recount x pts hp h2 hh hl, ?_⟩
  intro p hp'
  match x, hp' with
  | a :: b :: rest, hp' =>
    have := Qats.FindReversals.frLoop_index 1 (decide (b < a)) [a] (b :: rest) rfl p hp'
    simpa using this

/-- … hence counting the finder's output with end points reproduces the count of the signal, plateaus or not. -/
theorem recount_find_reversals_plateaus (x pts : List α) (hp : reversals false x = some pts) (h2 : 2 ≤ pts.length)
    (hh : ((Qats.FindReversals.findReversals x).map Prod.snd).head? = pts.head?)
    (hl : ((Qats.FindReversals.findReversals x).map Prod.snd).getLast? = pts.getLast?) :
    countCycles true ((Qats.FindReversals.findReversals x).map Prod.snd) = countCycles false x := by
  unfold countCycles cycles
  rw [(find_reversals_spec_plateaus x pts hp h2 hh hl).1, hp]

/-- Non-vacuity of the plateau theorems: a signal with a descending plateau between two turning points (the finder
reports both 3's), hypotheses and conclusion evaluated. -/
example : reversals false ([0, 4, 3, 3, 1, 5, 0] : List Rat) = some [4, 1, 5] ∧ 2 ≤ ([4, 1, 5] : List Rat).length ∧
    (Qats.FindReversals.findReversals ([0, 4, 3, 3, 1, 5, 0] : List Rat)).map Prod.snd = [4, 3, 3, 1, 5] ∧
    ([4, 3, 3, 1, 5] : List Rat).head? = ([4, 1, 5] : List Rat).head? ∧
    ([4, 3, 3, 1, 5] : List Rat).getLast? = ([4, 1, 5] : List Rat).getLast? ∧
    reversals true ([4, 3, 3, 1, 5] : List Rat) = some [4, 1, 5] := by
  decide +kernel

/-- The excluded shape (F8b): the first extracted value is not a turning point, and the recount differs. -/
example : reversals false ([5, 3, 3, 1, 4, 0] : List Rat) = some [1, 4] ∧
    (Qats.FindReversals.findReversals ([5, 3, 3, 1, 4, 0] : List Rat)).map Prod.snd = [3, 3, 1, 4] ∧
    reversals true ([3, 3, 1, 4] : List Rat) = some [3, 1, 4] := by
  decide +kernel

end Qats.Props.C03
