import Qats.Lemmas.DistMain
import Qats.Lemmas.DistGumbel
import Qats.Lemmas.DistWeibullCentral
/-!
# C15 — distribution objects are internally coherent

Property theorems only, over ℝ, about the formulas **generated from `qats/stats/{weibull,gumbel,gumbelmin,empirical}.py`**.
Partial (stated in DESIGN.md): the Gumbel mean / std / skewness / kurtosis constants (Euler–Mascheroni γ, π/√6, ζ(3))
are not proved to be the moments of the Gumbel density — Mathlib lacks the required integrals; they are validated
numerically by the harness. IEEE-specific values (`invcdf(0) = -inf` for the Gumbel distributions) are checked by the
correspondence only.
-/
namespace Qats.Props.C15
open Qats Qats.Gen Qats.Dist

theorem wb_cdf_mono (loc scale shape x y : ℝ) (hs : 0 < scale) (hc : 0 < shape) (hx : loc ≤ x) (hxy : x ≤ y) :
    wb_cdf loc scale shape x ≤ wb_cdf loc scale shape y :=
  wb_cdf_mono' loc scale shape x y hs hc hx hxy

theorem wb_cdf_range (loc scale shape x : ℝ) (hs : 0 < scale) (hc : 0 < shape) (hx : loc ≤ x) :
    0 ≤ wb_cdf loc scale shape x ∧ wb_cdf loc scale shape x < 1 :=
  wb_cdf_range' loc scale shape x hs hc hx

theorem wb_cdf_loc (loc scale shape : ℝ) (hs : 0 < scale) (hc : 0 < shape) : wb_cdf loc scale shape loc = 0 :=
  wb_cdf_loc' loc scale shape hs hc

theorem wb_invcdf_cdf (loc scale shape x : ℝ) (hs : 0 < scale) (hc : 0 < shape) (hx : loc ≤ x) :
    wb_invcdf loc (wb_cdf loc scale shape x) scale shape = x :=
  wb_invcdf_cdf' loc scale shape x hs hc hx

theorem wb_cdf_invcdf (loc scale shape p : ℝ) (hs : 0 < scale) (hc : 0 < shape) (hp0 : 0 ≤ p) (hp1 : p < 1) :
    wb_cdf loc scale shape (wb_invcdf loc p scale shape) = p :=
  wb_cdf_invcdf' loc scale shape p hs hc hp0 hp1

theorem wb_invcdf_zero (loc scale shape : ℝ) (hc : 0 < shape) : wb_invcdf loc 0 scale shape = loc :=
  wb_invcdf_zero' loc scale shape hc

theorem wb_pdf_hasDerivAt (loc scale shape x : ℝ) (hs : 0 < scale) (hc : 0 < shape) (hx : loc < x) :
    HasDerivAt (fun u => wb_cdf loc scale shape u) (wb_pdf loc scale shape x) x :=
  wb_pdf_hasDerivAt' loc scale shape x hs hc hx

/-- Raw moments of the standardised variable: `∫ ((x-loc)/scale)^k f(x) dx = Γ(1 + k/shape)`. -/
theorem wb_raw_moment (loc scale shape k : ℝ) (hs : 0 < scale) (hc : 0 < shape) (hk : 0 ≤ k) :
    ∫ x in Set.Ioi loc, ((x - loc) / scale) ^ k * wb_pdf loc scale shape x = Real.Gamma (1 + k / shape) :=
  wb_raw_moment' loc scale shape k hs hc hk

/-- The reported moments are the textbook expressions in the raw moments `μ_k = Γ(1 + k/shape)`. -/
theorem wb_moments_algebra (loc scale shape : ℝ) (hs : 0 < scale) (hc : 0 < shape)
    (μ : ℝ → ℝ) (hμ : ∀ k, μ k = Real.Gamma (1 + k / shape)) :
    wb_mean loc scale shape = loc + scale * μ 1 ∧
    wb_std scale shape = scale * Real.sqrt (μ 2 - μ 1 ^ 2) ∧
    wb_skew shape = (μ 3 - 3 * μ 1 * μ 2 + 2 * μ 1 ^ 3) / (μ 2 - μ 1 ^ 2) ^ (3 / 2 : ℝ) ∧
    wb_kurt shape = (μ 4 - 4 * μ 1 * μ 3 + 6 * μ 1 ^ 2 * μ 2 - 3 * μ 1 ^ 4) / (μ 2 - μ 1 ^ 2) ^ 2 :=
  wb_moments_algebra' loc scale shape hs hc μ hμ

/-- The Weibull density is integrable on its support `(loc, ∞)` and has total mass 1. -/
theorem wb_density_mass (loc scale shape : ℝ) (hs : 0 < scale) (hc : 0 < shape) :
    MeasureTheory.IntegrableOn (fun x => wb_pdf loc scale shape x) (Set.Ioi loc) ∧
      ∫ x in Set.Ioi loc, wb_pdf loc scale shape x = 1 :=
  wb_density_mass' loc scale shape hs hc

/-- The reported mean is the mean of the density. -/
theorem wb_mean_is_density_mean (loc scale shape : ℝ) (hs : 0 < scale) (hc : 0 < shape) :
    MeasureTheory.IntegrableOn (fun x => x * wb_pdf loc scale shape x) (Set.Ioi loc) ∧
      ∫ x in Set.Ioi loc, x * wb_pdf loc scale shape x = wb_mean loc scale shape :=
  wb_mean_is_density_mean' loc scale shape hs hc

/-- The reported standard deviation is positive and its square is the variance of the density (second moment about the
reported mean); in particular `Γ(1+2/c) − Γ(1+1/c)² > 0`. -/
theorem wb_std_is_density_std (loc scale shape : ℝ) (hs : 0 < scale) (hc : 0 < shape) :
    ∫ x in Set.Ioi loc, (x - wb_mean loc scale shape) ^ 2 * wb_pdf loc scale shape x = wb_std scale shape ^ 2 ∧
      0 < wb_std scale shape :=
  wb_std_is_density_std' loc scale shape hs hc

/-- The reported skewness is the third standardised central moment of the density. -/
theorem wb_skew_is_density_skew (loc scale shape : ℝ) (hs : 0 < scale) (hc : 0 < shape) :
    ∫ x in Set.Ioi loc, ((x - wb_mean loc scale shape) / wb_std scale shape) ^ 3 * wb_pdf loc scale shape x =
      wb_skew shape :=
  wb_skew_is_density_skew' loc scale shape hs hc

/-- The reported kurtosis is the fourth standardised central moment of the density (plain, not excess, kurtosis). -/
theorem wb_kurt_is_density_kurt (loc scale shape : ℝ) (hs : 0 < scale) (hc : 0 < shape) :
    ∫ x in Set.Ioi loc, ((x - wb_mean loc scale shape) / wb_std scale shape) ^ 4 * wb_pdf loc scale shape x =
      wb_kurt shape :=
  wb_kurt_is_density_kurt' loc scale shape hs hc

theorem gu_cdf_strictMono (loc scale : ℝ) (hs : 0 < scale) : StrictMono (fun x => gu_cdf loc scale x) :=
  gu_cdf_strictMono' loc scale hs

theorem gu_cdf_range (loc scale x : ℝ) : 0 < gu_cdf loc scale x ∧ gu_cdf loc scale x < 1 :=
  gu_cdf_range' loc scale x

theorem gu_invcdf_cdf (loc scale x : ℝ) (hs : 0 < scale) : gu_invcdf loc (gu_cdf loc scale x) scale = x :=
  gu_invcdf_cdf' loc scale x hs

theorem gu_cdf_invcdf (loc scale p : ℝ) (hs : 0 < scale) (hp0 : 0 < p) (hp1 : p < 1) :
    gu_cdf loc scale (gu_invcdf loc p scale) = p :=
  gu_cdf_invcdf' loc scale p hs hp0 hp1

theorem gu_pdf_hasDerivAt (loc scale x : ℝ) (hs : 0 < scale) :
    HasDerivAt (fun u => gu_cdf loc scale u) (gu_pdf loc scale x) x :=
  gu_pdf_hasDerivAt' loc scale x hs

theorem gu_median_is_half (loc scale : ℝ) (hs : 0 < scale) : gu_cdf loc scale (gu_median loc scale) = 1 / 2 :=
  gu_median' loc scale hs

theorem gu_mode_is_max (loc scale x : ℝ) (hs : 0 < scale) : gu_pdf loc scale x ≤ gu_pdf loc scale (gu_mode loc) :=
  gu_mode' loc scale x hs

/-- The Gumbel (maxima) density integrates to 1 and its mean is `loc + γ·scale`, `γ` the Euler–Mascheroni constant
(from Mathlib's `Γ'(1) = −γ` and two substitutions). -/
theorem gu_density_mean (loc scale : ℝ) (hs : 0 < scale) :
    (MeasureTheory.Integrable (fun x => gu_pdf loc scale x) ∧ ∫ x, gu_pdf loc scale x = 1) ∧
    (MeasureTheory.Integrable (fun x => x * gu_pdf loc scale x) ∧
      ∫ x, x * gu_pdf loc scale x = loc + Real.eulerMascheroniConstant * scale) :=
  gu_density_mean' loc scale hs

/-- The Gumbel (minima) density integrates to 1 and its mean is `loc − γ·scale`. -/
theorem gm_density_mean (loc scale : ℝ) (hs : 0 < scale) :
    (MeasureTheory.Integrable (fun x => gm_pdf loc scale x) ∧ ∫ x, gm_pdf loc scale x = 1) ∧
    (MeasureTheory.Integrable (fun x => x * gm_pdf loc scale x) ∧
      ∫ x, x * gm_pdf loc scale x = loc - Real.eulerMascheroniConstant * scale) :=
  gm_density_mean' loc scale hs

/-- The reported means are `loc ± c·scale` for one constant `c` that agrees with `0.5772156649015329` to 1e-15; with the two
theorems above, reported mean − mean of the density = `±(c − γ)·scale`. That `γ = 0.57721566490153286…` is a numerical fact
outside Mathlib (it proves `1/2 < γ < 2/3`); the harness compares the literal with `numpy.euler_gamma`. -/
theorem gu_gm_mean_shape (loc scale : ℝ) :
    ∃ c : ℝ, |c - 0.5772156649015329| ≤ 1e-15 ∧ gu_mean loc scale = loc + c * scale ∧ gm_mean loc scale = loc - c * scale :=
  gu_mean_shape' loc scale

/-- The minimum distribution is the mirror image of the maximum distribution. -/
theorem gm_mirror (loc scale x p : ℝ) (hs : 0 < scale) :
    gm_cdf loc scale x = 1 - gu_cdf (-loc) scale (-x) ∧
    gm_pdf loc scale x = gu_pdf (-loc) scale (-x) ∧
    gm_invcdf loc p scale = -gu_invcdf (-loc) (1 - p) scale ∧
    gm_mean loc scale = -gu_mean (-loc) scale ∧
    gm_median loc scale = -gu_median (-loc) scale ∧
    gm_mode loc = -gu_mode (-loc) ∧
    gm_std scale = gu_std scale ∧
    (gm_skew : ℝ) = -gu_skew ∧
    (gm_kurt : ℝ) = gu_kurt :=
  gm_mirror' loc scale x p hs

/-- The mask skeleton of `invcdf` (all three distributions): 1 ↦ +∞, outside [0,1] ↦ nan, otherwise the formula. -/
theorem invMask_spec (f : ℝ → ℝ) (p : ℝ) :
    (p = 1 → invMask f p = .posInf) ∧ ((p < 0 ∨ 1 < p) → invMask f p = .nan) ∧
      (0 ≤ p ∧ p < 1 → invMask f p = .val (f p)) :=
  invMask_spec' f p

/-- Plotting positions lie strictly inside (0,1) and increase with the rank. -/
theorem ecdf_spec (n i : ℝ) (hi : 1 ≤ i) (hin : i ≤ n) :
    (0 < ecdf_mean i n ∧ ecdf_mean i n < 1 ∧ ecdf_mean i n < ecdf_mean (i + 1) n) ∧
    (0 < ecdf_median i n ∧ ecdf_median i n < 1 ∧ ecdf_median i n < ecdf_median (i + 1) n) ∧
    (0 < ecdf_symmetrical i n ∧ ecdf_symmetrical i n < 1 ∧ ecdf_symmetrical i n < ecdf_symmetrical (i + 1) n) ∧
    (0 < ecdf_beard i n ∧ ecdf_beard i n < 1 ∧ ecdf_beard i n < ecdf_beard (i + 1) n) ∧
    (0 < ecdf_gringorten i n ∧ ecdf_gringorten i n < 1 ∧ ecdf_gringorten i n < ecdf_gringorten (i + 1) n) :=
  ecdf_spec' n i hi hin


/-- Non-vacuity: the unit Weibull with shape 2 (Rayleigh-type) satisfies the hypotheses; cdf(loc) = 0. -/
example : wb_cdf (0 : ℝ) 1 2 0 = 0 := wb_cdf_loc 0 1 2 (by norm_num) (by norm_num)

end Qats.Props.C15
