import Qats.Lemmas.RegistryMain
import Qats.Lemmas.BindingMain
/-!
# C08 — the database registry stays coherent over any history of operations

Property theorems only, about the state machine `Qats.Registry.step` (two databases, abstract series identities), which the
correspondence check compares with the real `TsDB` objects after every operation of seeded / enumerated histories.

Second part (content binding, `Qats.Binding`): the registry model knows series objects only as identities; `Binding.step`
runs alongside `Registry.step` and records for every constructed object where its content comes from (`Origin`: record
number of an index-addressed file / data set of a name-addressed file looked up by the name registered at load time /
series given to `add` / deep copy), and per database the dictionary key ↦ registered record (`Rec`).  The theorems say that a read returns the record
the key was registered for.  `Binding.Inv b s` = both databases coherent, the origin table only mentions identities below
the counter, and for EVERY key `k` of A or B with registered record `rc`:  a cached object has root origin `rc.origin`, and
if nothing is cached the next read constructs the series from `rc.origin` (`inv_cached`, `inv_unread` spell this out).
Until the repair of finding F17 (renaming a not-yet-read series of a name-addressed file made `_read` look the data set up
under the NEW name) the invariant was proved with that rename excluded and refuted without the exclusion; the restriction
disappeared with the repair: `binding_step` / `binding_run` hold for every well-formed operation / history, and the former
counter-histories are kept as regression examples (`f17_history_bound`, `f17_swap_history_bound`).
-/
namespace Qats.Props.C08
open Qats Qats.Names Qats.Registry

theorem coherent_init : Coherent ({} : Db) :=
  coherent_init' 

/-- Every operation, succeeding or failing, keeps both databases coherent. -/
theorem coherent_step (s : State) (op : Op) (hw : WellFormed op) (ha : Coherent s.a) (hb : Coherent s.b) :
    Coherent (step s op).1.a ∧ Coherent (step s op).1.b :=
  coherent_step' s op hw ha hb

/-- … hence after any history. -/
theorem coherent_run (ops : List Op) (hw : ∀ op ∈ ops, WellFormed op) :
    Coherent (run {} ops).1.a ∧ Coherent (run {} ops).1.b :=
  coherent_run' ops hw

/-- In a coherent database the size is the number of keys and every key has an entry in each register. -/
theorem coherent_size (d : Db) (h : Coherent d) :
    d.register.length = d.keys.length ∧
      ∀ k ∈ d.keys, (lookup d.register k).isSome ∧ (lookup d.parents k).isSome ∧ (lookup d.indices k).isSome :=
  coherent_size' d h

/-- A rejected operation leaves the database it was applied to exactly as it was; the only thing a rejected operation
may leave behind is cached data in the *source* database of `update` (which was read with `store=True`). -/
theorem rejected_unchanged (s : State) (op : Op) (e : Err) (h : (step s op).2 = .error e) :
    (step s op).1.a = s.a ∧
      (step s op).1.b.keys = s.b.keys ∧ (step s op).1.b.parents = s.b.parents ∧ (step s op).1.b.indices = s.b.indices ∧
      ((∀ names deep, op ≠ .update names deep) → (step s op).1 = s) :=
  rejected_unchanged' s op e h

/-- Retrieval with caching disabled leaves no data behind: the registers are unchanged. -/
theorem getm_store_false (s : State) (w : Which) (names : Option (List Str)) :
    (step s (.getm w names false)).1.a = s.a ∧ (step s (.getm w names false)).1.b = s.b :=
  getm_store_false' s w names

/-- With caching enabled a later retrieval returns the very same objects and constructs nothing new. -/
theorem getm_store_true_same (s : State) (w : Which) (names : Option (List Str)) (hc : Coherent (getDb s w)) :
    let s1 := (step s (.getm w names true)).1
    (step s1 (.getm w names true)).2 = (step s (.getm w names true)).2 ∧ (step s1 (.getm w names true)).1 = s1 :=
  getm_store_true_same' s w names hc

/-- Retrieval returns exactly the selected keys, in order, and never changes which keys are registered. -/
theorem getm_keys (s : State) (w : Which) (names : Option (List Str)) (store : Bool) :
    (∃ l, (step s (.getm w names store)).2 = .series l ∧ l.map (·.1) = select (getDb s w) names) ∧
      (getDb (step s (.getm w names store)).1 w).keys = (getDb s w).keys :=
  getm_keys' s w names store

/-- A deep copy has the same keys, parents and indices as the selection and shares no series object with the source;
a shallow copy shares exactly the series objects. -/
theorem copy_spec (s : State) (names : Option (List Str)) (deep : Bool) (ha : Coherent s.a)
    (hfresh : ∀ kv ∈ s.a.register, ∀ o, kv.2 = some o → o < s.next) :
    let s' := (step s (.copy names deep)).1
    s'.b.keys = select s.a names ∧
    (∀ k ∈ s'.b.keys, lookup s'.b.parents k = lookup s.a.parents k ∧ lookup s'.b.indices k = lookup s.a.indices k) ∧
    (deep = false → ∀ k ∈ s'.b.keys, lookup s'.b.register k = lookup s'.a.register k) ∧
    (deep = true → ∀ k ∈ s'.b.keys, ∀ k' ∈ s'.a.keys, ∀ o, lookup s'.b.register k = some (some o) →
      lookup s'.a.register k' ≠ some (some o)) :=
  copy_spec' s names deep ha hfresh


/-! ## Content binding: a read returns the record the key was registered for -/

/-- (a) The binding invariant holds initially. -/
theorem binding_init : Binding.Inv {} {} :=
  Binding.binding_init'

/-- What the invariant says about a cached object: its root origin (copies resolved) is the record registered for its key —
for an index-addressed file the same file and record number as at load time, for an added series the added object. -/
theorem inv_cached (b : Binding.Bind) (s : State) (hI : Binding.Inv b s) (w : Which) (k : Str) (obj : Nat)
    (h : lookup (getDb s w).register k = some (some obj)) :
    ∃ rc, lookup (Binding.getRec b w) k = some rc ∧ Binding.root b.origins obj = some rc.origin :=
  Binding.inv_cached' hI w k obj h

/-- … and about a listed key that is not cached: the next read constructs its series from the registered record. -/
theorem inv_unread (b : Binding.Bind) (s : State) (hI : Binding.Inv b s) (w : Which) (k : Str)
    (hk : k ∈ (getDb s w).keys) (h : ∀ obj, lookup (getDb s w).register k ≠ some (some obj)) :
    ∃ rc, lookup (Binding.getRec b w) k = some rc ∧
      Binding.readOrigin (getDb s w) (Binding.getRec b w) k = rc.origin :=
  Binding.inv_unread' hI w k hk h

/-- (a) FULL STRENGTH.  Every well-formed operation — load, rejected load, add, rename (of read or not-yet-read keys, of
index-addressed or name-addressed files), clear, update, copy (deep or shallow), retrieval with or without caching, on either
database — preserves the binding invariant.  `hn`: a `load` of a file that is not name-addressed registers its record numbers
(`Binding.loadOK`, what `TsDB.load` does).  The restriction to renames of cached or index-addressed keys (finding F17)
disappeared with the repair of `_read`. -/
theorem binding_step (b : Binding.Bind) (s : State) (op : Op) (hI : Binding.Inv b s) (hw : WellFormed op)
    (hn : Binding.loadOK op = true) : Binding.Inv (Binding.step b s op) (step s op).1 :=
  Binding.binding_step' b s op hI hw hn

/-- (a) FULL STRENGTH.  After ANY history of well-formed operations every key of A or B is bound to the record it was
registered for: same file and record number (index-addressed) / same data set name (name-addressed) as at load time —
through any number of renames, updates, copies, clears and retrievals — and added series to the added object. -/
theorem binding_run (ops : List Op) (hw : ∀ op ∈ ops, WellFormed op ∧ Binding.loadOK op = true) :
    Binding.Inv (Binding.run {} {} ops).1 (Binding.run {} {} ops).2.1 :=
  Binding.binding_run' ops hw

/-- `Binding.run` carries `Registry.run` unchanged (the binding is additive). -/
theorem binding_run_registry (b : Binding.Bind) (s : State) (ops : List Op) :
    ((Binding.run b s ops).2.1, (Binding.run b s ops).2.2) = run s ops :=
  Binding.run_registry' b s ops

/-- Regression for finding F17 (kernel-evaluated; before the repair this history was the counterexample): load a
name-addressed file lazily, rename `a` to `c`, read `c`: the key is registered for record 1 (`a`) and the series read is
the data set `a`; every key of the final state is bound. -/
theorem f17_history_bound :
    (Binding.run {} {} Binding.f17ops).2.2 = [.done, .done, .series [("/d/f.h5/c".toList, 0)]] ∧
    lookup (Binding.run {} {} Binding.f17ops).1.recA "/d/f.h5/c".toList =
      some (.onFile "/d/f.h5".toList 1 "a".toList) ∧
    Binding.root (Binding.run {} {} Binding.f17ops).1.origins 0 = some (.named "/d/f.h5".toList "a".toList) ∧
    Binding.allBound (Binding.run {} {} Binding.f17ops).1 (Binding.run {} {} Binding.f17ops).2.1 = true :=
  Binding.f17_history_bound'

/-- Regression for the silent variant of F17: two not-yet-read series of a name-addressed file exchange their names by
three renames; each key returns the record it was registered for (key `…/b` the data set `a`, key `…/a` the data set `b`). -/
theorem f17_swap_history_bound :
    (Binding.run {} {} Binding.f17swap).2.2 = [.done, .done, .done, .done,
      .series [("/d/f.h5/b".toList, 0), ("/d/f.h5/a".toList, 1)]] ∧
    lookup (Binding.run {} {} Binding.f17swap).1.recA "/d/f.h5/b".toList =
      some (.onFile "/d/f.h5".toList 1 "a".toList) ∧
    Binding.root (Binding.run {} {} Binding.f17swap).1.origins 0 = some (.named "/d/f.h5".toList "a".toList) ∧
    lookup (Binding.run {} {} Binding.f17swap).1.recA "/d/f.h5/a".toList =
      some (.onFile "/d/f.h5".toList 2 "b".toList) ∧
    Binding.root (Binding.run {} {} Binding.f17swap).1.origins 1 = some (.named "/d/f.h5".toList "b".toList) ∧
    Binding.allBound (Binding.run {} {} Binding.f17swap).1 (Binding.run {} {} Binding.f17swap).2.1 = true :=
  Binding.f17_swap_history_bound'

/-- (b) `getm` (caching on or off) returns, in the order of the selected keys, objects whose root origin is the record
registered for their key (in any state satisfying the invariant). -/
theorem getm_returns_registered (b : Binding.Bind) (s : State) (hI : Binding.Inv b s) (w : Which)
    (names : Option (List Str)) (store : Bool) :
    ∃ l, (step s (.getm w names store)).2 = .series l ∧ l.map (·.1) = select (getDb s w) names ∧
      ∀ kv ∈ l, ∃ rc, lookup (Binding.getRec b w) kv.1 = some rc ∧
        Binding.root (Binding.step b s (.getm w names store)).origins kv.2 = some rc.origin :=
  Binding.getm_returns_registered' b s hI w names store

/-- (b) the same for retrieval by register index. -/
theorem getInd_returns_registered (b : Binding.Bind) (s : State) (hI : Binding.Inv b s) (w : Which) (ind : Nat)
    (store : Bool) (l : List (Str × Nat)) (h : (step s (.getInd w ind store)).2 = .series l) :
    ∃ k, (getDb s w).keys[ind]? = some k ∧ l.map (·.1) = [k] ∧
      ∀ kv ∈ l, ∃ rc, lookup (Binding.getRec b w) kv.1 = some rc ∧
        Binding.root (Binding.step b s (.getInd w ind store)).origins kv.2 = some rc.origin :=
  Binding.getInd_returns_registered' b s hI w ind store l h

/-- (c) A successful rename `old → new` binds `new` to the record (and the cached object) `old` was bound to; every other
key keeps its record and its object; no object changes its origin. -/
theorem rename_keeps_record (b : Binding.Bind) (s : State) (hI : Binding.Inv b s) (w : Which) (name newname old : Str)
    (hl : listKeys (getDb s w).keys [name] = [old])
    (hnew : pathJoin (pathDirname old) newname ∉ (getDb s w).keys) :
    let newkey := pathJoin (pathDirname old) newname
    let b' := Binding.step b s (.rename w name newname)
    let s' := (step s (.rename w name newname)).1
    (step s (.rename w name newname)).2 = .done ∧
    lookup (Binding.getRec b' w) newkey = lookup (Binding.getRec b w) old ∧ (lookup (Binding.getRec b w) old).isSome ∧
    (∀ k, k ≠ old → k ≠ newkey → lookup (Binding.getRec b' w) k = lookup (Binding.getRec b w) k) ∧
    lookup (getDb s' w).register newkey = lookup (getDb s w).register old ∧
    (∀ k, k ≠ old → k ≠ newkey → lookup (getDb s' w).register k = lookup (getDb s w).register k) ∧
    b'.origins = b.origins :=
  Binding.rename_keeps_record' b s hI w name newname old hl hnew

/-- (d) Non-vacuity: two files (one index-addressed, one name-addressed) loaded lazily, some series read, a rename of a
series that was read and one of a series of the name-addressed file that was NOT read, an in-memory series, an update with
deep copies, a deep copy of a selection, retrieval from the copy.  The hypotheses of `binding_run` hold, every key of both
databases is bound (`allBound`), the copy of the renamed series in database B still resolves to record 2 of the first file,
the copy of the copy of the added series to the added object, and the renamed unread series to the data set `a`. -/
example :
    let ops := [Op.load .A "/d/f.pkl".toList ["a".toList, "b".toList] true false,
                Op.load .A "/d/g.h5".toList ["a".toList, "c".toList] false false,
                Op.getm .A (some ["b".toList, "c".toList]) true,
                Op.rename .A "b".toList "x".toList,
                Op.rename .A "g.h5/a".toList "y".toList,
                Op.add .B "/d/m".toList,
                Op.update none true,
                Op.copy (some ["x".toList, "m".toList, "y".toList]) true,
                Op.getm .B none false]
    let r := Binding.run {} {} ops
    ops.all Binding.loadOK = true ∧ Binding.allBound r.1 r.2.1 = true ∧
      r.2.2.getLast? = some (.series [("/d/f.pkl/x".toList, 5), ("/d/m".toList, 6), ("/d/g.h5/y".toList, 7)]) ∧
      Binding.root r.1.origins 5 = some (.record "/d/f.pkl".toList 2) ∧
      Binding.root r.1.origins 6 = some (.added 2) ∧
      Binding.root r.1.origins 7 = some (.named "/d/g.h5".toList "a".toList) := by
  decide +kernel

/-- Non-vacuity: a history with a load, a rejected second load, a rename and a deep copy; the final state is coherent by
`coherent_run`, and here it is, computed. -/
example :
    let ops := [Op.load .A "/d/f.pkl".toList ["a".toList, "b".toList] true false,
                Op.load .A "/d/f.pkl".toList ["a".toList, "b".toList] true false,
                Op.rename .A "a".toList "c".toList, Op.copy none true]
    (run {} ops).2 = [.done, .error .key, .done, .done] ∧
      (run {} ops).1.b.keys = ["/d/f.pkl/c".toList, "/d/f.pkl/b".toList] := by
  decide +kernel

end Qats.Props.C08
