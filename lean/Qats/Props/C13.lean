import Qats.Lemmas.WelchMain
/-!
# C13 — power spectral density is a one-sided density in Hz consistent with variance

Property theorems only.  `welch` = `qats.signal.psd`, `psdTs` = `TimeSeries.psd`, `guiPsd` =
`app.funcs.calculate_psd` (model: `Qats/Model/Welch.lean`, tied to the code by the Float correspondence on every run).
Everything holds over any linearly ordered field and for an **arbitrary** instance `TranscOps α`, i.e. whatever
`cos`, `sin`, `π` are: the discrete Fourier transform enters only as a linear map and the Hann window only as a list of
weights.

Not proved here (measured on the implementation by the harness): that the area under the density reproduces the
variance of a stationary signal (Parseval's identity for the windowed estimator), the location of the peak for a
dominant sinusoid, and the conformance of `scipy.signal.welch` to the explicit-DFT definition (correspondence).
-/
namespace Qats.Props.C13
open Qats Qats.Welch
set_option linter.unusedSectionVars false
variable {α : Type} [Field α] [LinearOrder α] [IsStrictOrderedRing α] [TranscOps α]

/-! ### amplitude scaling -/

/-- `signal.psd`: multiplying the signal by `a` multiplies every density by `a²` (same frequencies, same errors),
for every `dt`, `nperseg`, `noverlap`, `nfft`. -/
theorem psd_scale (x : List α) (dt : α) (nperseg noverlap nfft : Option Nat) (a : α) :
    welch (x.map fun v => a * v) dt nperseg noverlap nfft =
      (welch x dt nperseg noverlap nfft).map (Psd.scale (a * a)) :=
  welch_scale' x dt nperseg noverlap nfft a

/-- `TimeSeries.psd` (not normalised): the same. -/
theorem psd_scale_ts (t x : List α) (nperseg noverlap nfft : Option Nat) (a : α) :
    psdTs t (x.map fun v => a * v) nperseg noverlap nfft false =
      (psdTs t x nperseg noverlap nfft false).map (Psd.scale (a * a)) :=
  psdTs_scale' t x nperseg noverlap nfft a

/-- `calculate_psd` (not normalised): resampling and tapering are linear, so the same holds on the GUI path. -/
theorem psd_scale_gui (t x : List α) (nperseg : Nat) (a : α) :
    guiPsd t (x.map fun v => a * v) nperseg false = (guiPsd t x nperseg false).map (Psd.scale (a * a)) :=
  guiPsd_scale' t x nperseg a

/-- The normalised spectrum does not depend on the amplitude at all. -/
theorem psd_normalised_scale_invariant (t x : List α) (nperseg noverlap nfft : Option Nat) (a : α) (ha : a ≠ 0) :
    psdTs t (x.map fun v => a * v) nperseg noverlap nfft true = psdTs t x nperseg noverlap nfft true :=
  psdTs_normalised_scale' t x nperseg noverlap nfft a ha

/-! ### a density in Hz -/

/-- Changing the time unit (`dt ↦ k·dt`, e.g. seconds to minutes) divides every frequency by `k` and multiplies every
density by `k`: the estimate is a density per unit of frequency, its area `Σ P·Δf` does not depend on the time unit
(this is what `fs = 1/dt` together with `scaling='density'` provide; `fs = dt` or `scaling='spectrum'` violate it). -/
theorem psd_time_unit (x : List α) (dt k : α) (nperseg noverlap nfft : Option Nat) :
    welch x (k * dt) nperseg noverlap nfft = (welch x dt nperseg noverlap nfft).map (Psd.timeUnit k) :=
  welch_timeUnit' x dt k nperseg noverlap nfft

/-! ### adding a constant -/

/-- `signal.psd`: adding a constant to the signal changes nothing (every segment has its mean removed). -/
theorem psd_shift_invariant (x : List α) (dt : α) (nperseg noverlap nfft : Option Nat) (d : α) :
    welch (x.map fun v => v + d) dt nperseg noverlap nfft = welch x dt nperseg noverlap nfft :=
  welch_shift' x dt nperseg noverlap nfft d

/-- `TimeSeries.psd`, normalised or not. -/
theorem psd_shift_invariant_ts (t x : List α) (nperseg noverlap nfft : Option Nat) (normalize : Bool) (d : α) :
    psdTs t (x.map fun v => v + d) nperseg noverlap nfft normalize = psdTs t x nperseg noverlap nfft normalize :=
  psdTs_shift' t x nperseg noverlap nfft normalize d

/-- `calculate_psd`: the taper is applied to the fluctuation about the mean, so the GUI spectrum is unaffected too. -/
theorem psd_shift_invariant_gui (t x : List α) (nperseg : Nat) (normalize : Bool) (d : α) :
    guiPsd t (x.map fun v => v + d) nperseg normalize = guiPsd t x nperseg normalize :=
  guiPsd_shift' t x nperseg normalize d

/-! ### frequencies -/

/-- `signal.psd`: the frequencies are `k / (nfft·dt)`, `k = 0 … ⌊nfft/2⌋`, where `nfft` defaults to the segment length
`min(nperseg, n)` (`nperseg` defaults to 256). -/
theorem freq_grid_signal (x : List α) (dt : α) (nperseg noverlap nfft : Option Nat) (r : Psd α)
    (h : welch x dt nperseg noverlap nfft = .ok r) (hx : x ≠ []) :
    r.f = grid (nfft.getD (min (nperseg.getD 256) x.length)) dt ∧ r.p.length = r.f.length :=
  welch_grid' x dt nperseg noverlap nfft r h hx

/-- `TimeSeries.psd`: the same with `dt` = the mean time step and `nperseg` defaulting to a quarter of the signal. -/
theorem freq_grid (t x : List α) (nperseg noverlap nfft : Option Nat) (normalize : Bool) (r : Psd α)
    (h : psdTs t x nperseg noverlap nfft normalize = .ok r) (hx : x ≠ []) :
    r.f = grid (nfft.getD (min (nperseg.getD (x.length / 4)) x.length)) (mean (diffs t)) ∧
      r.p.length = r.f.length :=
  psdTs_grid' t x nperseg noverlap nfft normalize r h hx

/-- The grid `grid m dt` starts at 0, has `⌊m/2⌋ + 1` points `k/(m·dt)` in steps of `1/(m·dt)` … -/
theorem grid_points (m : Nat) (dt : α) :
    (grid m dt).length = m / 2 + 1 ∧ (grid m dt).head? = some 0 ∧
      (∀ k, k ≤ m / 2 → (grid m dt)[k]? = some ((k : α) / ((m : α) * dt))) ∧
      (∀ k, k + 1 ≤ m / 2 → ∃ a b, (grid m dt)[k]? = some a ∧ (grid m dt)[k + 1]? = some b ∧
        b - a = 1 / ((m : α) * dt)) :=
  ⟨grid_length m dt, grid_head m dt, grid_get m dt, grid_step m dt⟩

/-- … and ends at the Nyquist frequency `1/(2·dt)` when `m` is even. -/
theorem grid_nyquist (m : Nat) (dt : α) (hm : 1 ≤ m) (he : m % 2 = 0) : (grid m dt).getLast? = some (1 / (2 * dt)) :=
  grid_last m dt hm he

/-! ### non-negativity, normalisation -/

/-- `signal.psd`: a density is never negative (`dt ≥ 0`). -/
theorem psd_nonneg_signal (x : List α) (dt : α) (hdt : 0 ≤ dt) (nperseg noverlap nfft : Option Nat) (r : Psd α)
    (h : welch x dt nperseg noverlap nfft = .ok r) : ∀ v ∈ r.p, 0 ≤ v :=
  welch_nonneg' x dt hdt nperseg noverlap nfft r h

/-- `TimeSeries.psd` (time not decreasing), normalised or not. -/
theorem psd_nonneg (t x : List α) (nperseg noverlap nfft : Option Nat) (normalize : Bool) (r : Psd α)
    (h : psdTs t x nperseg noverlap nfft normalize = .ok r) (ht : ∀ d ∈ diffs t, 0 ≤ d) : ∀ v ∈ r.p, 0 ≤ v :=
  psdTs_nonneg' t x nperseg noverlap nfft normalize r h ht

/-- `normalize=True`: when the plain spectrum `r0` has a positive value, the normalised call succeeds with the same
frequencies, every value is `≤ 1` and the value 1 is attained. -/
theorem normalised_max_one (t x : List α) (nperseg noverlap nfft : Option Nat) (r0 : Psd α)
    (h0 : psdTs t x nperseg noverlap nfft false = .ok r0) (hpos : ∃ v ∈ r0.p, 0 < v) :
    ∃ r, psdTs t x nperseg noverlap nfft true = .ok r ∧ r.f = r0.f ∧ r.p.length = r0.p.length ∧
      (∀ v ∈ r.p, v ≤ 1) ∧ (1 : α) ∈ r.p :=
  psdTs_normalised' t x nperseg noverlap nfft r0 h0 hpos

/-! ### defaults -/

/-- For a series sampled with the constant step `h`, `TimeSeries.psd` is `signal.psd` with `dt = h` (i.e.
`fs = 1/h`, density scaling) and the segment length defaulting to a quarter of the signal, `⌊n/4⌋`. -/
theorem default_segment (t x : List α) (nperseg noverlap nfft : Option Nat) (h : α) (ht : 2 ≤ t.length)
    (hu : ∀ d ∈ diffs t, d = h) :
    psdTs t x nperseg noverlap nfft false = welch x h (some (nperseg.getD (x.length / 4))) noverlap nfft :=
  psdTs_uniform_eq' t x nperseg noverlap nfft h ht hu

/-- With all defaults a uniformly sampled series of at least four samples is accepted and gives `⌊n/4⌋/2 + 1`
frequencies … -/
theorem default_accepted (t x : List α) (normalize : Bool) (h : α) (hl : t.length = x.length) (h4 : 4 ≤ x.length)
    (hu : ∀ d ∈ diffs t, d = h) :
    ∃ r, psdTs t x none none none normalize = .ok r ∧ r.f.length = x.length / 4 / 2 + 1 ∧
      r.p.length = x.length / 4 / 2 + 1 :=
  psdTs_default_ok' t x normalize h hl h4 hu

/-- … averaged over seven half-overlapping segments when the length is a multiple of eight. -/
theorem default_seven_segments (q : Nat) (hq : 1 ≤ q) : segCount (8 * q) (8 * q / 4) (8 * q / 4 / 2) = 7 :=
  segCount_default' q hq

/-- `signal.psd` succeeds exactly when scipy's argument checks pass: `nperseg ≥ 1`,
`nfft ≥ min(nperseg, n)`, `noverlap < min(nperseg, n)`. -/
theorem psd_defined_iff (x : List α) (dt : α) (nperseg noverlap nfft : Option Nat) (hx : x ≠ []) :
    (∃ r, welch x dt nperseg noverlap nfft = .ok r) ↔
      1 ≤ nperseg.getD 256 ∧
        min (nperseg.getD 256) x.length ≤ nfft.getD (min (nperseg.getD 256) x.length) ∧
        noverlap.getD (min (nperseg.getD 256) x.length / 2) < min (nperseg.getD 256) x.length :=
  welch_ok_iff' x dt nperseg noverlap nfft hx

/-- A segment longer than the signal is the signal length (`signal.psd`, and the explicit clip of the GUI path). -/
theorem nperseg_clipped (x : List α) (dt : α) (m : Nat) (hm : x.length ≤ m) (noverlap nfft : Option Nat) :
    welch x dt (some m) noverlap nfft = welch x dt (some x.length) noverlap nfft :=
  welch_clip' x dt m hm noverlap nfft

theorem nperseg_clipped_gui (t x : List α) (m : Nat) (normalize : Bool) (hm : t.length ≤ m) :
    guiPsd t x m normalize = guiPsd t x t.length normalize :=
  guiPsd_clip' t x m normalize hm

/-! ### uniformity guard -/

/-- Two time steps `a`, `b ≥ 0` of the series differing by more than 1 % of `b` (plus the absolute tolerance
`1e-6`) make `TimeSeries.psd` raise the time-step error, whatever the other arguments are. -/
theorem guard_rejects (t x : List α) (nperseg noverlap nfft : Option Nat) (normalize : Bool) (a b : α)
    (ha : a ∈ diffs t) (hb : b ∈ diffs t) (hb0 : 0 ≤ b) (hvar : (1.0e-2 : α) * b + (1.0e-6 : α) < b - a) :
    psdTs t x nperseg noverlap nfft normalize = .error .guard :=
  psdTs_guard_rejects' t x nperseg noverlap nfft normalize a b ha hb hb0 hvar

/-- A constant time step never raises it. -/
theorem guard_accepts_uniform (t x : List α) (nperseg noverlap nfft : Option Nat) (normalize : Bool) (h : α)
    (hu : ∀ d ∈ diffs t, d = h) : psdTs t x nperseg noverlap nfft normalize ≠ .error .guard :=
  psdTs_uniform_not_guard' t x nperseg noverlap nfft normalize h hu

/-! ### non-vacuity (exact rational evaluation of the model with the 4-point transform) -/

/-- `c4 m = cos(2π m/4)`, `s4 m = sin(2π m/4)`; periodic Hann window of length 4; a cosine at a quarter of the sampling rate, `dt = 1/2`: three segments,
frequencies `0, 1/2, 1` Hz (Nyquist `1/(2 dt) = 1`), the power centred on the middle bin (the Hann window leaks into its neighbours). -/
example :
    welchWith (fun _ => c4) (fun _ => s4) (fun _ => [0, 1/2, 1, 1/2]) ([1, 0, -1, 0, 1, 0, -1, 0] : List Rat) 2
      (some 4) none none = .ok ⟨[0, 1/2, 1], [1/3, 2/3, 1/3]⟩ := by decide +kernel

/-- The hypotheses of `guard_rejects` are satisfiable: steps 1 and 3/2. -/
example : (1 : Rat) ∈ diffs ([0, 1, 5/2] : List Rat) ∧ (3/2 : Rat) ∈ diffs ([0, 1, 5/2] : List Rat) ∧
    (1.0e-2 : Rat) * (3/2) + (1.0e-6 : Rat) < 3/2 - 1 := by decide +kernel

end Qats.Props.C13
