import Qats.Lemmas.WelchMain
import Qats.Lemmas.WelchGen
import Qats.Lemmas.WelchParsevalMain
/-!
# C13 — power spectral density is a one-sided density in Hz consistent with variance

Property theorems only.  `welch` = `qats.signal.psd`, `psdTs` = `TimeSeries.psd`, `guiPsd` =
`app.funcs.calculate_psd` (model: `Qats/Model/Welch.lean`, tied to the code by the Float correspondence on every run).
Everything holds over any linearly ordered field and for an **arbitrary** instance `TranscOps α`, i.e. whatever
`cos`, `sin`, `π` are: the discrete Fourier transform enters only as a linear map and the Hann window only as a list of
weights.

The last section ("area under the spectrum") is over ℝ with the real `cos`, `sin`, `π` (`TranscOps ℝ` of
`Qats/Lemmas/RealOps.lean`): the exact identity behind "the area under the density reproduces the variance"
(Parseval's identity for the windowed estimator with one-sided folding).

Not proved here (measured on the implementation by the harness): that the window-weighted mean square of a stationary
signal is close to its variance (a statistical statement), the location of the peak for a
dominant sinusoid, and the conformance of `scipy.signal.welch` to the explicit-DFT definition (correspondence).
-/
namespace Qats.Props.C13
open Qats Qats.Welch
set_option linter.unusedSectionVars false
variable {α : Type} [Field α] [LinearOrder α] [IsStrictOrderedRing α] [TranscOps α]

/-! ### amplitude scaling -/

/-- `signal.psd`: multiplying the signal by `a` multiplies every density by `a²` (same frequencies, same errors),
for every `dt`, `nperseg`, `noverlap`, `nfft`. -/
theorem psd_scale (x : List α) (dt : α) (nperseg noverlap nfft : Option Nat) (a : α) :
    welch (x.map fun v => a * v) dt nperseg noverlap nfft =
      (welch x dt nperseg noverlap nfft).map (Psd.scale (a * a)) :=
  welch_scale' x dt nperseg noverlap nfft a

/-- `TimeSeries.psd` (not normalised): the same. -/
theorem psd_scale_ts (t x : List α) (nperseg noverlap nfft : Option Nat) (a : α) :
    psdTs t (x.map fun v => a * v) nperseg noverlap nfft false =
      (psdTs t x nperseg noverlap nfft false).map (Psd.scale (a * a)) :=
  psdTs_scale' t x nperseg noverlap nfft a

/-- `calculate_psd` (not normalised): resampling and tapering are linear, so the same holds on the GUI path. -/
theorem psd_scale_gui (t x : List α) (nperseg : Nat) (a : α) :
    guiPsd t (x.map fun v => a * v) nperseg false = (guiPsd t x nperseg false).map (Psd.scale (a * a)) :=
  guiPsd_scale' t x nperseg a

/-- The normalised spectrum does not depend on the amplitude at all. -/
theorem psd_normalised_scale_invariant (t x : List α) (nperseg noverlap nfft : Option Nat) (a : α) (ha : a ≠ 0) :
    psdTs t (x.map fun v => a * v) nperseg noverlap nfft true = psdTs t x nperseg noverlap nfft true :=
  psdTs_normalised_scale' t x nperseg noverlap nfft a ha

/-! ### a density in Hz -/

/-- Changing the time unit (`dt ↦ k·dt`, e.g. seconds to minutes) divides every frequency by `k` and multiplies every
density by `k`: the estimate is a density per unit of frequency, its area `Σ P·Δf` does not depend on the time unit
(this is what `fs = 1/dt` together with `scaling='density'` provide; `fs = dt` or `scaling='spectrum'` violate it). -/
theorem psd_time_unit (x : List α) (dt k : α) (nperseg noverlap nfft : Option Nat) :
    welch x (k * dt) nperseg noverlap nfft = (welch x dt nperseg noverlap nfft).map (Psd.timeUnit k) :=
  welch_timeUnit' x dt k nperseg noverlap nfft

/-! ### adding a constant -/

/-- `signal.psd`: adding a constant to the signal changes nothing (every segment has its mean removed). -/
theorem psd_shift_invariant (x : List α) (dt : α) (nperseg noverlap nfft : Option Nat) (d : α) :
    welch (x.map fun v => v + d) dt nperseg noverlap nfft = welch x dt nperseg noverlap nfft :=
  welch_shift' x dt nperseg noverlap nfft d

/-- `TimeSeries.psd`, normalised or not. -/
theorem psd_shift_invariant_ts (t x : List α) (nperseg noverlap nfft : Option Nat) (normalize : Bool) (d : α) :
    psdTs t (x.map fun v => v + d) nperseg noverlap nfft normalize = psdTs t x nperseg noverlap nfft normalize :=
  psdTs_shift' t x nperseg noverlap nfft normalize d

/-- `calculate_psd`: the taper is applied to the fluctuation about the mean, so the GUI spectrum is unaffected too. -/
theorem psd_shift_invariant_gui (t x : List α) (nperseg : Nat) (normalize : Bool) (d : α) :
    guiPsd t (x.map fun v => v + d) nperseg normalize = guiPsd t x nperseg normalize :=
  guiPsd_shift' t x nperseg normalize d

/-! ### frequencies -/

/-- `signal.psd`: the frequencies are `k / (nfft·dt)`, `k = 0 … ⌊nfft/2⌋`, where `nfft` defaults to the segment length
`min(nperseg, n)` (`nperseg` defaults to 256). -/
theorem freq_grid_signal (x : List α) (dt : α) (nperseg noverlap nfft : Option Nat) (r : Psd α)
    (h : welch x dt nperseg noverlap nfft = .ok r) (hx : x ≠ []) :
    r.f = grid (nfft.getD (min (nperseg.getD 256) x.length)) dt ∧ r.p.length = r.f.length :=
  welch_grid' x dt nperseg noverlap nfft r h hx

/-- `TimeSeries.psd`: the same with `dt` = the mean time step and `nperseg` defaulting to a quarter of the signal. -/
theorem freq_grid (t x : List α) (nperseg noverlap nfft : Option Nat) (normalize : Bool) (r : Psd α)
    (h : psdTs t x nperseg noverlap nfft normalize = .ok r) (hx : x ≠ []) :
    r.f = grid (nfft.getD (min (nperseg.getD (x.length / 4)) x.length)) (mean (diffs t)) ∧
      r.p.length = r.f.length :=
  psdTs_grid' t x nperseg noverlap nfft normalize r h hx

/-- The grid `grid m dt` starts at 0, has `⌊m/2⌋ + 1` points `k/(m·dt)` in steps of `1/(m·dt)` … -/
theorem grid_points (m : Nat) (dt : α) :
    (grid m dt).length = m / 2 + 1 ∧ (grid m dt).head? = some 0 ∧
      (∀ k, k ≤ m / 2 → (grid m dt)[k]? = some ((k : α) / ((m : α) * dt))) ∧
      (∀ k, k + 1 ≤ m / 2 → ∃ a b, (grid m dt)[k]? = some a ∧ (grid m dt)[k + 1]? = some b ∧
        b - a = 1 / ((m : α) * dt)) :=
  ⟨grid_length m dt, grid_head m dt, grid_get m dt, grid_step m dt⟩

/-- … and ends at the Nyquist frequency `1/(2·dt)` when `m` is even. -/
theorem grid_nyquist (m : Nat) (dt : α) (hm : 1 ≤ m) (he : m % 2 = 0) : (grid m dt).getLast? = some (1 / (2 * dt)) :=
  grid_last m dt hm he

/-! ### non-negativity, normalisation -/

/-- `signal.psd`: a density is never negative (`dt ≥ 0`). -/
theorem psd_nonneg_signal (x : List α) (dt : α) (hdt : 0 ≤ dt) (nperseg noverlap nfft : Option Nat) (r : Psd α)
    (h : welch x dt nperseg noverlap nfft = .ok r) : ∀ v ∈ r.p, 0 ≤ v :=
  welch_nonneg' x dt hdt nperseg noverlap nfft r h

/-- `TimeSeries.psd` (time not decreasing), normalised or not. -/
theorem psd_nonneg (t x : List α) (nperseg noverlap nfft : Option Nat) (normalize : Bool) (r : Psd α)
    (h : psdTs t x nperseg noverlap nfft normalize = .ok r) (ht : ∀ d ∈ diffs t, 0 ≤ d) : ∀ v ∈ r.p, 0 ≤ v :=
  psdTs_nonneg' t x nperseg noverlap nfft normalize r h ht

/-- `normalize=True`: when the plain spectrum `r0` has a positive value, the normalised call succeeds with the same
frequencies, every value is `≤ 1` and the value 1 is attained. -/
theorem normalised_max_one (t x : List α) (nperseg noverlap nfft : Option Nat) (r0 : Psd α)
    (h0 : psdTs t x nperseg noverlap nfft false = .ok r0) (hpos : ∃ v ∈ r0.p, 0 < v) :
    ∃ r, psdTs t x nperseg noverlap nfft true = .ok r ∧ r.f = r0.f ∧ r.p.length = r0.p.length ∧
      (∀ v ∈ r.p, v ≤ 1) ∧ (1 : α) ∈ r.p :=
  psdTs_normalised' t x nperseg noverlap nfft r0 h0 hpos

/-! ### defaults -/

/-- For a series sampled with the constant step `h`, `TimeSeries.psd` is `signal.psd` with `dt = h` (i.e.
`fs = 1/h`, density scaling) and the segment length defaulting to a quarter of the signal, `⌊n/4⌋`. -/
theorem default_segment (t x : List α) (nperseg noverlap nfft : Option Nat) (h : α) (ht : 2 ≤ t.length)
    (hu : ∀ d ∈ diffs t, d = h) :
    psdTs t x nperseg noverlap nfft false = welch x h (some (nperseg.getD (x.length / 4))) noverlap nfft :=
  psdTs_uniform_eq' t x nperseg noverlap nfft h ht hu

/-- With all defaults a uniformly sampled series of at least four samples is accepted and gives `⌊n/4⌋/2 + 1`
frequencies … -/
theorem default_accepted (t x : List α) (normalize : Bool) (h : α) (hl : t.length = x.length) (h4 : 4 ≤ x.length)
    (hu : ∀ d ∈ diffs t, d = h) :
    ∃ r, psdTs t x none none none normalize = .ok r ∧ r.f.length = x.length / 4 / 2 + 1 ∧
      r.p.length = x.length / 4 / 2 + 1 :=
  psdTs_default_ok' t x normalize h hl h4 hu

/-- … averaged over seven half-overlapping segments when the length is a multiple of eight. -/
theorem default_seven_segments (q : Nat) (hq : 1 ≤ q) : segCount (8 * q) (8 * q / 4) (8 * q / 4 / 2) = 7 :=
  segCount_default' q hq

/-- `signal.psd` succeeds exactly when scipy's argument checks pass: `nperseg ≥ 1`,
`nfft ≥ min(nperseg, n)`, `noverlap < min(nperseg, n)`. -/
theorem psd_defined_iff (x : List α) (dt : α) (nperseg noverlap nfft : Option Nat) (hx : x ≠ []) :
    (∃ r, welch x dt nperseg noverlap nfft = .ok r) ↔
      1 ≤ nperseg.getD 256 ∧
        min (nperseg.getD 256) x.length ≤ nfft.getD (min (nperseg.getD 256) x.length) ∧
        noverlap.getD (min (nperseg.getD 256) x.length / 2) < min (nperseg.getD 256) x.length :=
  welch_ok_iff' x dt nperseg noverlap nfft hx

/-- A segment longer than the signal is the signal length (`signal.psd`, and the explicit clip of the GUI path). -/
theorem nperseg_clipped (x : List α) (dt : α) (m : Nat) (hm : x.length ≤ m) (noverlap nfft : Option Nat) :
    welch x dt (some m) noverlap nfft = welch x dt (some x.length) noverlap nfft :=
  welch_clip' x dt m hm noverlap nfft

theorem nperseg_clipped_gui (t x : List α) (m : Nat) (normalize : Bool) (hm : t.length ≤ m) :
    guiPsd t x m normalize = guiPsd t x t.length normalize :=
  guiPsd_clip' t x m normalize hm

/-! ### uniformity guard -/

/-- Two time steps `a`, `b ≥ 0` of the series differing by more than 1 % of `b` (plus the absolute tolerance
`1e-6`) make `TimeSeries.psd` raise the time-step error, whatever the other arguments are. -/
theorem guard_rejects (t x : List α) (nperseg noverlap nfft : Option Nat) (normalize : Bool) (a b : α)
    (ha : a ∈ diffs t) (hb : b ∈ diffs t) (hb0 : 0 ≤ b) (hvar : (1.0e-2 : α) * b + (1.0e-6 : α) < b - a) :
    psdTs t x nperseg noverlap nfft normalize = .error .guard :=
  psdTs_guard_rejects' t x nperseg noverlap nfft normalize a b ha hb hb0 hvar

/-- A constant time step never raises it. -/
theorem guard_accepts_uniform (t x : List α) (nperseg noverlap nfft : Option Nat) (normalize : Bool) (h : α)
    (hu : ∀ d ∈ diffs t, d = h) : psdTs t x nperseg noverlap nfft normalize ≠ .error .guard :=
  psdTs_uniform_not_guard' t x nperseg noverlap nfft normalize h hu

/-! ### non-vacuity (exact rational evaluation of the model with the 4-point transform) -/

/-- `c4 m = cos(2π m/4)`, `s4 m = sin(2π m/4)`; periodic Hann window of length 4; a cosine at a quarter of the sampling rate, `dt = 1/2`: three segments,
frequencies `0, 1/2, 1` Hz (Nyquist `1/(2 dt) = 1`), the power centred on the middle bin (the Hann window leaks into its neighbours). -/
example :
    welchWith (fun _ => c4) (fun _ => s4) (fun _ => [0, 1/2, 1, 1/2]) ([1, 0, -1, 0, 1, 0, -1, 0] : List Rat) 2
      (some 4) none none = .ok ⟨[0, 1/2, 1], [1/3, 2/3, 1/3]⟩ := by decide +kernel

/-- The hypotheses of `guard_rejects` are satisfiable: steps 1 and 3/2. -/
example : (1 : Rat) ∈ diffs ([0, 1, 5/2] : List Rat) ∧ (3/2 : Rat) ∈ diffs ([0, 1, 5/2] : List Rat) ∧
    (1.0e-2 : Rat) * (3/2) + (1.0e-6 : Rat) < 3/2 - 1 := by decide +kernel

/-! ### area under the spectrum (Parseval's identity; over ℝ with the real cosine, sine and π)

`area df p = Σ_k p_k · df`, `binWidth nfft dt = 1/(nfft·dt)` (the frequency step of `freq_grid`),
`sumSq l = Σ v²`, `weightedMeanSquare w a = Σ a² / Σ w²`, `meanWeightedMeanSquare w nov x` = mean over Welch's
segments `a = w · (seg − mean seg)` of `weightedMeanSquare w a` (`Qats/Model/WelchArea.lean`). -/

/-- What the abbreviations stand for. -/
theorem area_unfold (df dt : ℝ) (p : List ℝ) (nfft : Nat) (w a : List ℝ) :
    area df p = Welch.sum p * df ∧ binWidth nfft dt = 1 / ((nfft : ℝ) * dt) ∧
      sumSq a = Welch.sum (a.map fun v => v * v) ∧ weightedMeanSquare w a = sumSq a / sumSq w :=
  ⟨rfl, by rw [binWidth, one_lit], rfl, rfl⟩

/-- Parseval's identity for the model's two-sided DFT sums (list `a` zero-padded to `N`):
`Σ_{k<N} |X_k|² = N · Σ_n a_n²`. -/
theorem parseval_two_sided (N : Nat) (hN : 0 < N) (a : List ℝ) (ha : a.length ≤ N) :
    Welch.sum ((List.range N).map fun k =>
      dftAux (cosTw N) k 0 a * dftAux (cosTw N) k 0 a + dftAux (sinTw N) k 0 a * dftAux (sinTw N) k 0 a) =
      (N : ℝ) * sumSq a :=
  parseval_two_sided' N hN a ha

/-- One segment, any window `w`, any data `y` (in Welch's method: the mean-removed segment), any `nfft ≥ len w ≥ …`
(`nfft = N` is the default; a larger `nfft` zero-pads), `dt ≠ 0`: the area under the one-sided density of the model,
`Σ_k P_k · Δf` with `Δf = 1/(nfft·dt)`, is the window-weighted mean square `Σ_n (w_n y_n)² / Σ_n w_n²`.
(Bins `k` and `nfft − k` carry equal power for real input; DC and, for even `nfft`, Nyquist are not doubled.) -/
theorem segment_area_is_weighted_meansquare (w y : List ℝ) (nfft : Nat) (dt : ℝ) (hdt : dt ≠ 0) (hn : 1 ≤ nfft)
    (hw : w.length ≤ nfft) :
    area (binWidth nfft dt) ((List.range (nfft / 2 + 1)).map fun k =>
      binPower (cosTw nfft) (sinTw nfft) nfft (densityScale ((1.0 : ℝ) / dt) w) k (applyWin w y)) =
      sumSq (applyWin w y) / sumSq w :=
  segment_area' w y nfft dt hdt hn hw

/-- The averaged estimator: the area of the mean over the segments is the mean over the segments of the
window-weighted mean squares (any window, any overlap, any signal, `nfft ≥ len w`). -/
theorem core_area_is_mean_weighted_meansquare (w : List ℝ) (nfft : Nat) (dt : ℝ) (hdt : dt ≠ 0) (hn : 1 ≤ nfft)
    (hw : w.length ≤ nfft) (noverlap : Nat) (x : List ℝ) :
    area (binWidth nfft dt)
      (welchCore (cosTw nfft) (sinTw nfft) w nfft (densityScale ((1.0 : ℝ) / dt) w) noverlap x) =
      meanWeightedMeanSquare w noverlap x :=
  welchCore_area' w nfft dt hdt hn hw noverlap x

/-- `qats.signal.psd(x, dt, nperseg=, noverlap=, nfft=)`: whenever the call succeeds (`dt ≠ 0`), the area under the
returned density, `Σ P · Δf` with `Δf = 1/(nfft·dt)`, equals the mean over the segments of
`Σ(w·(seg − mean seg))² / Σw²` with the periodic Hann window of the segment length `min(nperseg, n)`. -/
theorem welch_area_is_mean_weighted_meansquare (x : List ℝ) (dt : ℝ) (hdt : dt ≠ 0)
    (nperseg noverlap nfft : Option Nat) (r : Psd ℝ) (h : welch x dt nperseg noverlap nfft = .ok r) (hx : x ≠ []) :
    area (binWidth (nfft.getD (min (nperseg.getD 256) x.length)) dt) r.p =
      meanWeightedMeanSquare (hann (min (nperseg.getD 256) x.length))
        (noverlap.getD (min (nperseg.getD 256) x.length / 2)) x :=
  welch_area' x dt hdt nperseg noverlap nfft r h hx

/-- `TimeSeries.psd` (not normalised; mean time step `≠ 0`): the same, in the units of `x²`, with `dt` the mean time
step and the segment length defaulting to a quarter of the signal. -/
theorem psd_area_ts (t x : List ℝ) (hdt : mean (diffs t) ≠ 0) (nperseg noverlap nfft : Option Nat) (r : Psd ℝ)
    (h : psdTs t x nperseg noverlap nfft false = .ok r) (hx : x ≠ []) :
    area (binWidth (nfft.getD (min (nperseg.getD (x.length / 4)) x.length)) (mean (diffs t))) r.p =
      meanWeightedMeanSquare (hann (min (nperseg.getD (x.length / 4)) x.length))
        (noverlap.getD (min (nperseg.getD (x.length / 4)) x.length / 2)) x :=
  psdTs_area' t x hdt nperseg noverlap nfft r h hx

/-- The pair evaluated by the driver op `psd.area` (`welchArea` = (area of the estimate, mean weighted mean square))
has equal components over ℝ. -/
theorem welch_area_pair (x : List ℝ) (dt : ℝ) (hdt : dt ≠ 0) (nperseg noverlap nfft : Option Nat) (p : ℝ × ℝ)
    (h : welchArea x dt nperseg noverlap nfft = .ok p) (hx : x ≠ []) : p.1 = p.2 :=
  welchArea_eq' x dt hdt nperseg noverlap nfft p h hx

/-- Non-vacuity: the hypotheses of `parseval_two_sided`, `segment_area_is_weighted_meansquare`,
`core_area_is_mean_weighted_meansquare` (Hann window of length 4, `dt = 1/2`, `nfft = 4`). -/
example : (0 < 4) ∧ ([0, 1/2, 1, 1/2] : List ℝ).length ≤ 4 ∧ ((1/2 : ℝ) ≠ 0) ∧ 1 ≤ 4 := by
  refine ⟨by norm_num, by simp, by norm_num, by norm_num⟩

/-- Non-vacuity of `welch_area_is_mean_weighted_meansquare` / `welch_area_pair`: a successful call with `dt = 1/2`. -/
example : (∃ r, welch ([1, 0, -1, 0, 1, 0, -1, 0] : List ℝ) (1/2) (some 4) none none = .ok r) ∧ (1/2 : ℝ) ≠ 0 ∧
    ([1, 0, -1, 0, 1, 0, -1, 0] : List ℝ) ≠ [] := by
  refine ⟨(psd_defined_iff _ _ _ _ _ (by simp)).mpr (by simp), by norm_num, by simp⟩

/-- Non-vacuity of `psd_area_ts`: a uniformly sampled series of four samples, step 1. -/
example : (∃ r, psdTs ([0, 1, 2, 3] : List ℝ) [1, 0, -1, 0] none none none false = .ok r) ∧
    mean (diffs ([0, 1, 2, 3] : List ℝ)) ≠ 0 := by
  constructor
  · obtain ⟨r, hr, _⟩ := default_accepted ([0, 1, 2, 3] : List ℝ) [1, 0, -1, 0] false 1 (by simp) (by simp)
      (by intro d hd; simp [diffs] at hd; rcases hd with rfl | rfl | rfl <;> norm_num)
    exact ⟨r, hr⟩
  · simp [diffs, mean, Welch.sum]

/-- The identity evaluated exactly (rationals, the 4-point transform `c4, s4`, Hann window of length 4, `dt = 1/2`,
three half-overlapping segments of the signal of the first example): densities `1/3, 2/3, 1/3`, `Δf = 1/2`, area
`2/3` = mean over the segments of `Σ(w·y)²/Σw² = 1/(3/2)`. -/
example :
    area (binWidth 4 (1/2 : Rat)) (welchCore c4 s4 [0, 1/2, 1, 1/2] 4 (densityScale 2 [0, 1/2, 1, 1/2]) 2
      ([1, 0, -1, 0, 1, 0, -1, 0] : List Rat)) = 2/3 ∧
    meanWeightedMeanSquare [0, 1/2, 1, 1/2] 2 ([1, 0, -1, 0, 1, 0, -1, 0] : List Rat) = 2/3 := by decide +kernel

/-! ### the model's sampling frequency and default segment are the ones written in the source (regenerated on every run) -/

/-- `signal.psd` is the estimator at the sampling frequency the source hands to `scipy.signal.welch` (`Qats.Gen.psd_fs`,
regenerated from `qats/signal.py` by the translator on every run: `fs=dt` or a dropped reciprocal fail this proof). -/
theorem welch_fs_is_source (x : List ℝ) (dt : ℝ) (nperseg noverlap nfft : Option Nat) :
    welch x dt nperseg noverlap nfft = welchWith cosTw sinTw hann x (Qats.Gen.psd_fs dt) nperseg noverlap nfft :=
  welch_fs_is_source' x dt nperseg noverlap nfft

/-- … which is the reciprocal of the time step (so that the estimate is a density per Hz, `psd_time_unit`). -/
theorem psd_fs_reciprocal (dt : ℝ) : Qats.Gen.psd_fs dt = dt⁻¹ :=
  psd_fs_reciprocal' dt

/-- The default segment length `int(0.25 * x.size)` of `TimeSeries.psd` (regenerated argument of `int`) is the model's
`⌊n / 4⌋`: a quarter of the signal. -/
theorem default_nperseg_is_source (n : Nat) : ⌊Qats.Gen.psd_nperseg_frac (n : ℝ)⌋₊ = n / 4 :=
  default_nperseg_is_source' n

end Qats.Props.C13
