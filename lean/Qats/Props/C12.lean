import Qats.Lemmas.FilterMain
import Qats.Lemmas.FilterGen
/-!
# C12 — frequency filters have the specified zero-phase Butterworth response in Hz

Property theorems only, over ℝ (`tan = sin / cos` of `Qats.TranscOps`, interpreted by `Real.sin`, `Real.cos`).

* `design` = the arguments `qats.signal.lowpass/…` hand to `scipy.signal.butter` (order 5, `Wn = fc / nyq`,
  `nyq = 0.5 * 1. / dt`), `responseOf` = the specified steady-state response of such a design (Butterworth magnitude
  squared, zero phase) on a series sampled with step `dt`, `gain n dt spec f` = the property's reading in Hz,
  `W(g) = warp dt g = tan(π g dt)`.  `nyquist dt = 0.5 * 1. / dt` is the code's own expression.
* **Partial** (named in the harness' `partial` list): that scipy's `butter` + `filtfilt` / `sosfiltfilt` realise
  `responseOf` on a stationary sinusoid away from the ends is *measured* on every run (model vs. implementation and
  vs. an independent `butter(fs=1/dt)` + `freqz`), not proved.
-/
namespace Qats.Props.C12
open Qats Qats.Filter

/-! ### the design handed to scipy answers in Hz -/

/-- For every sampling interval, request and frequency: the response of the design the code builds (order 5,
cut-offs normalised by `0.5/dt`) is the order-5 Butterworth-squared gain with the cut-offs read in Hz. -/
theorem response_in_hz {dt : ℝ} (hdt : dt ≠ 0) (s : Spec ℝ) (f : ℝ) :
    responseOf (design s dt) dt f = gain 5 dt s f :=
  response_in_hz' hdt s f

/-- The normalised cut-offs of the modelled design are the expressions the source hands to `scipy.signal.butter` —
`Qats.Gen.flt_*`, regenerated from `qats/signal.py` (`lowpass`, `highpass`, `bandpass`, `bandblock`) by the translator on every
run, so an edit of `nyq` / `normal_cutoff` in the source is re-proved (or fails to be) here. -/
theorem design_wn_is_source (s : Spec ℝ) (dt : ℝ) (hdt : dt ≠ 0) : (design s dt).wn = sourceWn s dt :=
  design_wn_is_source' s dt hdt

/-- … and those expressions are the cut-offs in Hz as fractions of the Nyquist frequency `1 / (2 dt)` of the series the filter
is applied to (what `butter` expects of a digital design). -/
theorem source_wn_fraction_of_nyquist (s : Spec ℝ) (dt : ℝ) (hdt : dt ≠ 0) : sourceWn s dt = fracWn s dt :=
  sourceWn_fraction_of_nyquist' s dt hdt

/-- A design made for another step `dt'` (e.g. the stored series' step after resampling) acts, on a series sampled
with `dt`, as the filter whose cut-offs are all multiplied by `dt'/dt`. -/
theorem response_wrong_step {dt dt' : ℝ} (hdt : dt ≠ 0) (hdt' : dt' ≠ 0) (s : Spec ℝ) (f : ℝ) :
    responseOf (design s dt') dt f = gain 5 dt (s.map fun fc => fc * dt' / dt) f :=
  response_design_other' hdt hdt' s f

/-! ### one half at every cut-off (any order) -/

theorem gain_cutoff_lp {dt : ℝ} (hdt : 0 < dt) (n : Nat) {fc : ℝ} (h0 : 0 < fc) (h1 : fc < nyquist dt) :
    gain n dt (.lp fc) fc = 1 / 2 :=
  gain_cutoff_lp' hdt n h0 h1

theorem gain_cutoff_hp {dt : ℝ} (hdt : 0 < dt) (n : Nat) {fc : ℝ} (h0 : 0 < fc) (h1 : fc < nyquist dt) :
    gain n dt (.hp fc) fc = 1 / 2 :=
  gain_cutoff_hp' hdt n h0 h1

theorem gain_cutoff_bp {dt : ℝ} (hdt : 0 < dt) (n : Nat) {f1 f2 : ℝ} (h0 : 0 < f1) (h12 : f1 < f2)
    (h2 : f2 < nyquist dt) : gain n dt (.bp f1 f2) f1 = 1 / 2 ∧ gain n dt (.bp f1 f2) f2 = 1 / 2 :=
  gain_cutoff_bp' hdt n h0 h12 h2

theorem gain_cutoff_bs {dt : ℝ} (hdt : 0 < dt) (n : Nat) {f1 f2 : ℝ} (h0 : 0 < f1) (h12 : f1 < f2)
    (h2 : f2 < nyquist dt) : gain n dt (.bs f1 f2) f1 = 1 / 2 ∧ gain n dt (.bs f1 f2) f2 = 1 / 2 :=
  gain_cutoff_bs' hdt n h0 h12 h2

/-! ### range -/

theorem gain_bounds_lp {dt : ℝ} (hdt : 0 < dt) (n : Nat) {fc f : ℝ} (h0 : 0 < fc) (h1 : fc < nyquist dt)
    (hf0 : 0 < f) (hf1 : f < nyquist dt) : 0 < gain n dt (.lp fc) f ∧ gain n dt (.lp fc) f < 1 :=
  gain_bounds_lp' hdt n h0 h1 hf0 hf1

theorem gain_bounds_hp {dt : ℝ} (hdt : 0 < dt) (n : Nat) {fc f : ℝ} (h0 : 0 < fc) (h1 : fc < nyquist dt)
    (hf0 : 0 < f) (hf1 : f < nyquist dt) : 0 < gain n dt (.hp fc) f ∧ gain n dt (.hp fc) f < 1 :=
  gain_bounds_hp' hdt n h0 h1 hf0 hf1

theorem gain_bounds_bp {dt : ℝ} (hdt : 0 < dt) (n : Nat) {f1 f2 f : ℝ} (h0 : 0 < f1) (h12 : f1 < f2)
    (h2 : f2 < nyquist dt) (hf0 : 0 < f) (hf1 : f < nyquist dt) :
    0 < gain n dt (.bp f1 f2) f ∧ gain n dt (.bp f1 f2) f ≤ 1 :=
  gain_bounds_bp' hdt n h0 h12 h2 hf0 hf1

theorem gain_bounds_bs {dt : ℝ} (hdt : 0 < dt) (n : Nat) {f1 f2 f : ℝ} (h0 : 0 < f1) (h12 : f1 < f2)
    (h2 : f2 < nyquist dt) (hf0 : 0 < f) (hf1 : f < nyquist dt) :
    0 ≤ gain n dt (.bs f1 f2) f ∧ gain n dt (.bs f1 f2) f < 1 :=
  gain_bounds_bs' hdt n h0 h12 h2 hf0 hf1

/-- The band-pass transmits fully exactly at the centre `W(f)² = W(f₁) W(f₂)` (there the band-stop blocks fully). -/
theorem bp_full_iff_centre {dt : ℝ} (hdt : 0 < dt) (n : Nat) (hn : 1 ≤ n) {f1 f2 f : ℝ} (h0 : 0 < f1) (h12 : f1 < f2)
    (h2 : f2 < nyquist dt) (hf0 : 0 < f) (hf1 : f < nyquist dt) :
    gain n dt (.bp f1 f2) f = 1 ↔ warp dt f * warp dt f = warp dt f1 * warp dt f2 :=
  bp_full_iff_centre' hdt n hn h0 h12 h2 hf0 hf1

/-! ### monotone on `[0, Nyquist)` -/

theorem lp_strictAnti {dt : ℝ} (hdt : 0 < dt) (n : Nat) (hn : 1 ≤ n) {fc f g : ℝ} (h0 : 0 < fc) (h1 : fc < nyquist dt)
    (hf0 : 0 ≤ f) (hfg : f < g) (hg : g < nyquist dt) : gain n dt (.lp fc) g < gain n dt (.lp fc) f :=
  lp_strictAnti' hdt n hn h0 h1 hf0 hfg hg

theorem hp_strictMono {dt : ℝ} (hdt : 0 < dt) (n : Nat) (hn : 1 ≤ n) {fc f g : ℝ} (h0 : 0 < fc) (h1 : fc < nyquist dt)
    (hf0 : 0 ≤ f) (hfg : f < g) (hg : g < nyquist dt) : gain n dt (.hp fc) f < gain n dt (.hp fc) g :=
  hp_strictMono' hdt n hn h0 h1 hf0 hfg hg

/-- Band-pass: strictly increasing up to the centre … -/
theorem bp_strictMono_below {dt : ℝ} (hdt : 0 < dt) (n : Nat) (hn : 1 ≤ n) {f1 f2 f g : ℝ} (h0 : 0 < f1)
    (h12 : f1 < f2) (h2 : f2 < nyquist dt) (hf0 : 0 < f) (hfg : f < g) (hg : g < nyquist dt)
    (hc : warp dt g * warp dt g ≤ warp dt f1 * warp dt f2) : gain n dt (.bp f1 f2) f < gain n dt (.bp f1 f2) g :=
  bp_strictMono_below' hdt n hn h0 h12 h2 hf0 hfg hg hc

/-- … and strictly decreasing beyond it. -/
theorem bp_strictAnti_above {dt : ℝ} (hdt : 0 < dt) (n : Nat) (hn : 1 ≤ n) {f1 f2 f g : ℝ} (h0 : 0 < f1)
    (h12 : f1 < f2) (h2 : f2 < nyquist dt) (hf0 : 0 < f) (hfg : f < g) (hg : g < nyquist dt)
    (hc : warp dt f1 * warp dt f2 ≤ warp dt f * warp dt f) : gain n dt (.bp f1 f2) g < gain n dt (.bp f1 f2) f :=
  bp_strictAnti_above' hdt n hn h0 h12 h2 hf0 hfg hg hc

/-! ### complementary pairs, mean -/

theorem lp_plus_hp {dt : ℝ} (hdt : 0 < dt) (n : Nat) {fc : ℝ} (f : ℝ) (h0 : 0 < fc) (h1 : fc < nyquist dt) :
    gain n dt (.lp fc) f + gain n dt (.hp fc) f = 1 :=
  lp_plus_hp' hdt n f h0 h1

theorem bp_plus_bs {dt : ℝ} (hdt : 0 < dt) (n : Nat) {f1 f2 : ℝ} (f : ℝ) (h0 : 0 < f1) (h12 : f1 < f2)
    (h2 : f2 < nyquist dt) : gain n dt (.bp f1 f2) f + gain n dt (.bs f1 f2) f = 1 :=
  bp_plus_bs' hdt n f h0 h12 h2

/-- At 0 Hz: low-pass and band-stop transmit fully, high-pass and band-pass block fully. -/
theorem dc_gain {dt : ℝ} (hdt : 0 < dt) (n : Nat) (hn : 1 ≤ n) {f1 f2 : ℝ} (h0 : 0 < f1) (h12 : f1 < f2)
    (h2 : f2 < nyquist dt) :
    gain n dt (.lp f1) 0 = 1 ∧ gain n dt (.hp f1) 0 = 0 ∧ gain n dt (.bp f1 f2) 0 = 0 ∧ gain n dt (.bs f1 f2) 0 = 1 :=
  ⟨dc_gain_lp' hdt n hn h0 (lt_trans h12 h2), dc_gain_hp' n hn f1, dc_gain_bp' n hn f1 f2, dc_gain_bs' hdt n hn h0 h12 h2⟩

/-! ### about 1 in the pass band, about 0 in the stop band — with rates -/

theorem lp_rolloff {dt : ℝ} (hdt : 0 < dt) (n : Nat) {fc f : ℝ} (h0 : 0 < fc) (h1 : fc < nyquist dt) (hf0 : 0 < f)
    (hf1 : f < nyquist dt) :
    1 - gain n dt (.lp fc) f ≤ (warp dt f / warp dt fc) ^ (2 * n) ∧
      gain n dt (.lp fc) f ≤ (warp dt fc / warp dt f) ^ (2 * n) :=
  lp_rolloff' hdt n h0 h1 hf0 hf1

theorem hp_rolloff {dt : ℝ} (hdt : 0 < dt) (n : Nat) {fc f : ℝ} (h0 : 0 < fc) (h1 : fc < nyquist dt) (hf0 : 0 < f)
    (hf1 : f < nyquist dt) :
    1 - gain n dt (.hp fc) f ≤ (warp dt fc / warp dt f) ^ (2 * n) ∧
      gain n dt (.hp fc) f ≤ (warp dt f / warp dt fc) ^ (2 * n) :=
  hp_rolloff' hdt n h0 h1 hf0 hf1

/-- Band filters: loss inside the band at most `(D/B)²ⁿ`, leakage outside at most `(B/D)²ⁿ`,
`B = (W(f₂) − W(f₁)) W(f)`, `D = W(f)² − W(f₁) W(f₂)`. -/
theorem band_rolloff {dt : ℝ} (hdt : 0 < dt) (n : Nat) {f1 f2 f : ℝ} (h0 : 0 < f1) (h12 : f1 < f2)
    (h2 : f2 < nyquist dt) (hf0 : 0 < f) (hf1 : f < nyquist dt) :
    (1 - gain n dt (.bp f1 f2) f = gain n dt (.bs f1 f2) f) ∧
    gain n dt (.bs f1 f2) f ≤
      ((warp dt f * warp dt f - warp dt f1 * warp dt f2) / ((warp dt f2 - warp dt f1) * warp dt f)) ^ (2 * n) ∧
    (warp dt f * warp dt f ≠ warp dt f1 * warp dt f2 →
      gain n dt (.bp f1 f2) f ≤
        ((warp dt f2 - warp dt f1) * warp dt f / (warp dt f * warp dt f - warp dt f1 * warp dt f2)) ^ (2 * n)) :=
  band_rolloff' hdt n h0 h12 h2 hf0 hf1

/-- The order is observable: below the cut-off a higher order is strictly closer to 1 (order 4 ≠ order 5). -/
theorem order_separates {dt : ℝ} (hdt : 0 < dt) (n m : Nat) (hnm : n < m) {fc f : ℝ} (hf0 : 0 < f) (hffc : f < fc)
    (h1 : fc < nyquist dt) : gain n dt (.lp fc) f < gain m dt (.lp fc) f :=
  order_separates' hdt n m hnm hf0 hffc h1

/-! ### steady state of signals: scaling without phase shift, linearity, mean -/

/-- A sinusoid on a mean comes out as the same sinusoid (same frequency, same phase, same time axis) scaled by the
gain at its frequency, on the mean scaled by the gain at 0 Hz. -/
theorem steadyState_single {dt : ℝ} (hdt : dt ≠ 0) (s : Spec ℝ) (m : ℝ) (c : Comp ℝ) (t : ℝ) :
    (steadyState s dt ⟨m, [c]⟩).eval t = m * gain 5 dt s 0 + gain 5 dt s c.freq * ((⟨m, [c]⟩ : Signal ℝ).eval t - m) :=
  steadyState_single' hdt s m c t

/-- No component changes frequency or phase. -/
theorem steadyState_zero_phase (s : Spec ℝ) (dt : ℝ) (x : Signal ℝ) :
    (steadyState s dt x).comps.map (fun c => (c.freq, c.phase)) = x.comps.map (fun c => (c.freq, c.phase)) :=
  steadyState_shape' s dt x

/-- `Signal.comb a x b y` is the signal `a·x + b·y` … -/
theorem comb_eval (a b : ℝ) (x y : Signal ℝ) (t : ℝ) : (Signal.comb a x b y).eval t = a * x.eval t + b * y.eval t :=
  comb_eval' a b x y t

/-- … and filtering is linear. -/
theorem steadyState_linear (s : Spec ℝ) (dt a b : ℝ) (x y : Signal ℝ) (t : ℝ) :
    (steadyState s dt (Signal.comb a x b y)).eval t = a * (steadyState s dt x).eval t + b * (steadyState s dt y).eval t :=
  steadyState_linear' s dt a b x y t

/-- Low-pass and band-stop keep the mean, high-pass and band-pass remove it. -/
theorem steadyState_mean {dt : ℝ} (hdt : 0 < dt) (x : Signal ℝ) :
    (∀ fc, 0 < fc → fc < nyquist dt → (steadyState (.lp fc) dt x).mean = x.mean) ∧
    (∀ fc, (steadyState (.hp fc) dt x).mean = 0) ∧
    (∀ f1 f2, (steadyState (.bp f1 f2) dt x).mean = 0) ∧
    (∀ f1 f2, 0 < f1 → f1 < f2 → f2 < nyquist dt → (steadyState (.bs f1 f2) dt x).mean = x.mean) :=
  steadyState_mean' hdt x

/-- Low-passed plus high-passed signal is the signal (any number of components, any frequencies). -/
theorem lp_hp_reconstruct {dt : ℝ} (hdt : 0 < dt) {fc : ℝ} (h0 : 0 < fc) (h1 : fc < nyquist dt) (x : Signal ℝ) (t : ℝ) :
    (steadyState (.lp fc) dt x).eval t + (steadyState (.hp fc) dt x).eval t = x.eval t :=
  lp_hp_reconstruct' hdt h0 h1 x t

theorem bp_bs_reconstruct {dt : ℝ} (hdt : 0 < dt) {f1 f2 : ℝ} (h0 : 0 < f1) (h12 : f1 < f2) (h2 : f2 < nyquist dt)
    (x : Signal ℝ) (t : ℝ) :
    (steadyState (.bp f1 f2) dt x).eval t + (steadyState (.bs f1 f2) dt x).eval t = x.eval t :=
  bp_bs_reconstruct' hdt h0 h12 h2 x t

/-! ### `TimeSeries.get(filterargs)` / `TimeSeries.filter` -/

/-- Whatever window / resampling / taper options: a successful `get` with `filterargs` returns scipy's routine `F`
applied with the design for the step `t'[1] − t'[0]` of the **returned** time array, and (for increasing time) that
design responds in Hz for that step. -/
theorem design_dt (rnd : ℝ → Int) (F : Design ℝ → List ℝ → List ℝ) (taper : List ℝ → List ℝ) (t x : List ℝ)
    (s : Spec ℝ) (twin : Option (ℝ × ℝ)) (rs : Option (Pipeline.Resample ℝ)) (tp : Bool) (t' x' : List ℝ)
    (h : tsGet rnd F taper t x s twin rs tp = .ok (t', x')) :
    ∃ a b rest x2, t' = a :: b :: rest ∧ x' = F (design s (b - a)) x2 ∧
      (a < b → ∀ f, responseOf (design s (b - a)) (b - a) f = gain 5 (b - a) s f) :=
  tsGet_response_hz' rnd F taper t x s twin rs tp t' x' h

/-- `TimeSeries.filter(kind, freqs, twin, taperfrac)` is `get(twin=…, filterargs=(kind, *freqs), taperfrac=…)` when the
number of frequencies fits the filter type, and a `ValueError` otherwise. -/
theorem filter_delegates (rnd : ℝ → Int) (F : Design ℝ → List ℝ → List ℝ) (taper : List ℝ → List ℝ) (t x : List ℝ)
    (k : Kind) (freqs : List ℝ) (twin : Option (ℝ × ℝ)) (tp : Bool) :
    (freqs.length ≠ k.arity → tsFilter rnd F taper t x k freqs twin tp = .error .value) ∧
    (∀ s, mkSpec k freqs = some s →
      tsFilter rnd F taper t x k freqs twin tp = (tsGet rnd F taper t x s twin none tp).mapError Err.pipeline) :=
  tsFilter_delegates' rnd F taper t x k freqs twin tp

/-- A request is well-formed exactly when the number of frequencies is the arity of the type. -/
theorem filter_arity (k : Kind) (freqs : List ℝ) : (∃ s, mkSpec k freqs = some s) ↔ freqs.length = k.arity :=
  mkSpec_some_iff' k freqs

/-! ### non-vacuity -/

/-- `dt = 1 s`, cut-off ¼ Hz (half of Nyquist): the hypotheses hold, `W(fc) = tan(π/4) = 1`, and the gain there is ½. -/
example : gain 5 (1 : ℝ) (.lp (1 / 4)) (1 / 4) = 1 / 2 :=
  gain_cutoff_lp (by norm_num) 5 (by norm_num) (by rw [nyquist_real]; norm_num)

/-- non-vacuity of `design_wn_is_source` / `source_wn_fraction_of_nyquist`: a band-pass request on 10 Hz data -/
example : ((1 / 10 : ℝ) ≠ 0) ∧ fracWn (.bp (1 : ℝ) 2) (1 / 10) = [1 / 5, 2 / 5] := by
  refine ⟨by norm_num, ?_⟩
  simp only [fracWn, frac]; norm_num

/-- The design for `lowpass(x, dt = 1/2, fc = 1/4)` and `bandblock(x, 1/2, 1/4, 1/2)`, executed exactly. -/
example : design (.lp (1 / 4 : Rat)) (1 / 2) = ⟨5, [1 / 4], .lp, .filtfilt⟩ ∧
    design (.bs (1 / 4 : Rat) (1 / 2)) (1 / 2) = ⟨5, [1 / 4, 1 / 2], .bs, .sosfiltfilt⟩ := by decide +kernel

end Qats.Props.C12
