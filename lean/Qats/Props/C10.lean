import Qats.Model.Ownership
/-!
# C10 — queries never modify a time series; copies are complete and independent

Property theorems about the ownership model (`Qats/Model/Ownership.lean`). Aliasing is a fact about CPython / numpy
objects: the model's step programs are tied to the real code by the *dynamic* correspondence of the harness (bit-for-bit
snapshots of every attribute before/after each query for every option combination, `np.shares_memory` on every returned
array compared with the tag the model predicts, real threads), which is also where a dropped defensive copy is found.
-/
namespace Qats.Props.C10
open Qats.Ownership

/-- For every combination of processing options, `get` never writes to a stored array in place and never returns one
— nor an array of the caller: when resampling to a given array the returned time array is a copy of it (F55: it used to be
the caller's array itself, which `modify` then stored). -/
theorem get_no_stored_mutation (o : Opts) :
    (runSteps start (getProgram o)).2 = [] ∧ (runSteps start (getProgram o)).1.x = .fresh ∧
      (runSteps start (getProgram o)).1.t = .fresh := by
  rcases o with ⟨tw, rs, un, tp, fl, sm⟩
  cases tw <;> cases rs <;> cases un <;> cases tp <;> cases fl <;> cases sm <;> decide

/-- `minima` writes to no array in place (it negates into a new array since the F51 repair) and what it works on is never a
stored array. -/
theorem minima_writes_nothing (o : Opts) :
    (runSteps start (minimaProgram o)).2 = [] ∧ (runSteps start (minimaProgram o)).1.x = .fresh := by
  rcases o with ⟨tw, rs, un, tp, fl, sm⟩
  cases tw <;> cases rs <;> cases un <;> cases tp <;> cases fl <;> cases sm <;> decide

/-- In particular every in-place target of `minima` is a fresh array (the form of the statement before the repair, when the
sign was flipped in place on the array `get` returned). -/
theorem minima_writes_fresh_only (o : Opts) : ∀ w ∈ (runSteps start (minimaProgram o)).2, w = Tag.fresh := by
  intro w hw
  rw [(minima_writes_nothing o).1] at hw
  cases hw

/-- What the defensive copy at the head of the pipeline protects: without it a retrieval without options hands out the
stored arrays themselves, and any in-place step of a caller or of a query built on `get` (as `minima` was before the
repair) would hit the stored data (machine-checked witnesses of what the dynamic check must detect). -/
theorem without_copy_get_returns_stored :
    (runSteps start [Step.noCopy]).1 = ⟨Tag.stored, Tag.stored⟩ := by decide

theorem without_copy_inplace_hits_stored :
    (runSteps start ([Step.noCopy, Step.inplaceX])).2 = [Tag.stored] := by decide

/-- Threads that only read the shared store cannot influence each other: after **any** schedule, every computation is in
the state its own sequential execution (of as many steps as it was scheduled) would have produced. -/
theorem queries_commute {σ L : Type} (f : Nat → σ → L → L) (store : σ) (locals : Nat → L) (sched : List Nat) (i : Nat) :
    runSchedule f store locals sched i = iter f store i (countOf i sched) (locals i) := by
  induction sched generalizing locals with
  | nil => simp [runSchedule, countOf, iter]
  | cons j rest ih =>
    simp only [runSchedule]
    rw [ih]
    by_cases h : j = i
    · subst h
      simp [countOf, iter]
    · have h' : ¬ i = j := fun e => h e.symm
      simp [countOf, h, h']

/-- Two schedules giving each computation the same number of steps end in the same states (result independent of the
interleaving). -/
theorem schedule_independent {σ L : Type} (f : Nat → σ → L → L) (store : σ) (locals : Nat → L) (s1 s2 : List Nat)
    (h : ∀ i, countOf i s1 = countOf i s2) : runSchedule f store locals s1 = runSchedule f store locals s2 := by
  funext i
  rw [queries_commute, queries_commute, h]

/-- A copy equals its source in every attribute and array content … -/
theorem copy_complete (s : Series) (o : Nat) :
    let c := copySeries s o
    c.name = s.name ∧ c.kind = s.kind ∧ c.unit = s.unit ∧ c.parent = s.parent ∧ c.dtgRef = s.dtgRef ∧ c.t = s.t ∧ c.x = s.x := by
  simp [copySeries]

/-- … and shares no array with it (fresh array objects), nor the two arrays with each other. -/
theorem copy_independent (s : Series) (o : Nat) (h1 : s.tOwner < o) (h2 : s.xOwner < o) :
    let c := copySeries s o
    c.tOwner ≠ s.tOwner ∧ c.tOwner ≠ s.xOwner ∧ c.xOwner ≠ s.tOwner ∧ c.xOwner ≠ s.xOwner ∧ c.tOwner ≠ c.xOwner := by
  simp [copySeries]; omega

end Qats.Props.C10
