import Qats.Lemmas.ExportMain
/-!
# C07 — export then reload reproduces names, time and data; unsafe exports are refused

Property theorems only, about the model `Qats.Export` of `TsDB.export`, `_check_time_arrays`, `create_common_time`,
`_make_export_friendly_names` and the record-level codecs of the four export formats, over any linearly ordered field
(exact arithmetic). Processing of one series is `Qats.Pipeline.get` (C11). Number formatting (`%15.7g`, float32) is an abstract
quantisation `q`; pandas / h5py / byte layouts are exercised by the end-to-end round trips of the harness only.

Vocabulary (defined in `Qats/Lemmas/Export*.lean`): `Effect.touches` — the effect opens or writes the target;
`writes tr` — the records handed to the writer; `Close c t` — `|tᵢ − cᵢ| ≤ 1e-12 + 1e-9·|cᵢ|` elementwise, equal lengths;
`Written … o items` — `items` are, in order and under the export-friendly names, what `get` with options `o` returns for the
selected series, the final comparison passed, and `o` is the caller's options or (forced) those plus the common time array;
`uniform t0 d n`, `lattice o d m n` — equidistant samples; `KeySafe`, `DatSafe`, `H5Safe` — representable names.
-/
namespace Qats.Props.C07
open Qats Qats.Export Qats.Names
open Qats.Pipeline (Opts Resample Stages)
set_option linter.unusedSectionVars false
variable {α : Type} [Field α] [LinearOrder α] [IsStrictOrderedRing α]

/-! ## refusal before any effect on the target -/

/-- An existing target with overwriting disallowed: the export raises and does nothing else. -/
theorem exist_refused (cwd : Str) (rnd : α → Int) (st : Stages α) (r : Req α) (sel : List (Entry α))
    (h1 : r.targetExists = true) (h2 : r.existOk = false) : exportTrace cwd rnd st r sel = [.raise .fileExists] :=
  exist_refused' cwd rnd st r sel h1 h2

/-- Every raising path (existing file, colliding names, time arrays not common, a series that cannot be processed, the final
comparison, unknown extension, …) raises as its last step and nothing before it opens or writes the target. -/
theorem raise_before_open (cwd : Str) (rnd : α → Int) (st : Stages α) (r : Req α) (sel : List (Entry α)) (e : Err)
    (he : Effect.raise e ∈ exportTrace cwd rnd st r sel) :
    (∀ f ∈ exportTrace cwd rnd st r sel, f.touches = false) ∧ (exportTrace cwd rnd st r sel).getLast? = some (.raise e) :=
  raise_before_open' cwd rnd st r sel e he

/-- Time arrays not common within the given options, no resampling requested, not forced: refused, target untouched. -/
theorem not_common_refused (cwd : Str) (rnd : α → Int) (st : Stages α) (r : Req α) (sel : List (Entry α))
    (ss : List (Summary α)) (tc : TimeCheck α) (hs : summaries sel = some ss)
    (htc : checkTimeArrays ss r.opts.twin r.opts.resample = .ok tc) (hnc : tc.isCommon = false)
    (hr : r.opts.resample = none) (hf : r.force = false) :
    ∃ e, (exportTrace cwd rnd st r sel).getLast? = some (.raise e) ∧ ∀ f ∈ exportTrace cwd rnd st r sel, f.touches = false :=
  not_common_refused' cwd rnd st r sel ss tc hs htc hnc hr hf

/-! ## what is written -/

/-- Whenever anything is written: the export-friendly names are distinct and as many as the selected series, and the
records are exactly the in-memory retrievals of the selected series, in order (`Written`). -/
theorem written_is_retrieval (cwd : Str) (rnd : α → Int) (st : Stages α) (r : Req α) (sel : List (Entry α))
    (hw : writes (exportTrace cwd rnd st r sel) ≠ []) :
    ∃ names o, friendlyNames cwd (sel.map (·.key)) r.basename = .ok names ∧ names.Nodup ∧ names.length = sel.length ∧
      Written rnd st r names sel o (writes (exportTrace cwd rnd st r sel)) :=
  written_is_retrieval' cwd rnd st r sel hw

/-- Series whose processed time arrays differ are never written side by side — for **all** databases and options: every
written record's time array has the length of the first one's and agrees with it within the final comparison's tolerance. -/
theorem written_times_close (cwd : Str) (rnd : α → Int) (st : Stages α) (r : Req α) (sel : List (Entry α))
    (n₁ : Str) (t₁ x₁ : List α) (h1 : (writes (exportTrace cwd rnd st r sel)).head? = some (n₁, t₁, x₁)) :
    ∀ w ∈ writes (exportTrace cwd rnd st r sel), Close t₁ w.2.1 :=
  written_times_close' cwd rnd st r sel n₁ t₁ x₁ h1

/-- Series without samples (a window between two time steps, …) are never written — no format can hold them so that they
load again: every record handed to a writer has at least one time step; such an export raises before the target is opened
(`raise_before_open`). -/
theorem written_has_samples (cwd : Str) (rnd : α → Int) (st : Stages α) (r : Req α) (sel : List (Entry α)) :
    ∀ w ∈ writes (exportTrace cwd rnd st r sel), w.2.1 ≠ [] :=
  written_has_samples' cwd rnd st r sel

/-- Forced common time: if something is written although the arrays are not common and no resampling was requested, then
`force_common_time` was set, every written time array **is** the constructed common time array, and that array lies inside
the span of every selected series (resampling never extrapolates). -/
theorem force_common (cwd : Str) (rnd : α → Int) (st : Stages α) (r : Req α) (sel : List (Entry α))
    (hw : writes (exportTrace cwd rnd st r sel) ≠ []) (ss : List (Summary α)) (tc : TimeCheck α)
    (hs : summaries sel = some ss) (htc : checkTimeArrays ss r.opts.twin r.opts.resample = .ok tc)
    (hnc : tc.isCommon = false) (hr : r.opts.resample = none) :
    r.force = true ∧ ∃ ct, createCommonTime rnd ss ((sel.head?.map (·.t)).getD []) r.opts.twin = .ok ct ∧
      (∀ w ∈ writes (exportTrace cwd rnd st r sel), w.2.1 = ct) ∧
      (∀ q ∈ ct, ∀ e ∈ sel, ∃ lo hi, e.t.head? = some lo ∧ e.t.getLast? = some hi ∧ lo ≤ q ∧ q ≤ hi) :=
  force_common' cwd rnd st r sel hw ss tc hs htc hnc hr

/-- The constructed common time array lies inside every selected series' span and inside the window, if one is given. -/
theorem common_time_inside (rnd : α → Int) (sel : List (Entry α)) (ss : List (Summary α)) (hs : summaries sel = some ss)
    (firstT : List α) (twin : Option (α × α)) (tc : TimeCheck α) (h0 : checkTimeArrays ss none none = .ok tc)
    (hnc : tc.isCommon = false) (ct : List α) (h : createCommonTime rnd ss firstT twin = .ok ct) :
    ∀ q ∈ ct, (∀ e ∈ sel, ∃ lo hi, e.t.head? = some lo ∧ e.t.getLast? = some hi ∧ lo ≤ q ∧ q ≤ hi) ∧
      (∀ a b, twin = some (a, b) → a ≤ q ∧ q ≤ b) :=
  common_time_inside' rnd sel ss hs firstT twin tc h0 hnc ct h

/-- Export-friendly names: on success they are pairwise distinct and none is lost (a collision raises KeyError);
with `basename=True` they are the series' own names. -/
theorem friendly_nodup (cwd : Str) (keys : List Str) (base : Bool) (names : List Str)
    (h : friendlyNames cwd keys base = .ok names) :
    names.Nodup ∧ names.length = keys.length ∧ (base = true → names = keys.map pathBasename) :=
  friendly_nodup' cwd keys base names h

/-! ## what a positive answer of the common-time diagnosis means -/

/-- Uniformly sampled series (each with its own start, step > 0 and ≥ 2 samples), no options: a positive answer means that
all stored time arrays are equal. -/
theorem common_safe_uniform (sel : List (Entry α)) (ss : List (Summary α)) (hs : summaries sel = some ss)
    (hu : ∀ e ∈ sel, ∃ t0 d n, 0 < d ∧ 2 ≤ n ∧ e.t = uniform t0 d n)
    (tc : TimeCheck α) (h : checkTimeArrays ss none none = .ok tc) (hc : tc.isCommon = true) :
    ∀ e1 ∈ sel, ∀ e2 ∈ sel, e1.t = e2.t :=
  common_safe_uniform' sel ss hs hu tc h hc

/-- *Partial* (hypothesis forced by the proof: all series on **one** lattice `o + ℕ·d`): with a window — and optionally a
resampling step — a positive answer means that the windowed time arrays of all series are equal (hence also the grids built
from their first and last samples). False off the lattice: `twin_off_lattice_counterexample`. -/
theorem common_safe_twin_partial (o d : α) (hd : 0 < d) (sel : List (Entry α)) (ss : List (Summary α))
    (hs : summaries sel = some ss) (hl : ∀ e ∈ sel, ∃ m n, 1 ≤ n ∧ e.t = lattice o d m n)
    (a b : α) (step : Option α) (tc : TimeCheck α)
    (h : checkTimeArrays ss (some (a, b)) (step.map Resample.step) = .ok tc) (hc : tc.isCommon = true) :
    ∀ e1 ∈ sel, ∀ e2 ∈ sel, windowT a b e1.t = windowT a b e2.t :=
  common_safe_twin' o d hd sel ss hs hl a b step tc h hc

/-- Resampling to a step, no window, **arbitrary** (also non-uniform) sampling: a positive answer means that any two
successful retrievals return the same time array. -/
theorem common_safe_step (rnd : α → Int) (st : Stages α) (sel : List (Entry α)) (ss : List (Summary α))
    (hs : summaries sel = some ss) (d : α) (tc : TimeCheck α)
    (h : checkTimeArrays ss none (some (.step d)) = .ok tc) (hc : tc.isCommon = true) (tp fl sm : Bool) :
    ∀ e1 ∈ sel, ∀ e2 ∈ sel, ∀ t1 x1 t2 x2,
      Qats.Pipeline.get rnd st e1.t e1.x { resample := some (.step d), taper := tp, filter := fl, smooth := sm } = .ok (t1, x1) →
      Qats.Pipeline.get rnd st e2.t e2.x { resample := some (.step d), taper := tp, filter := fl, smooth := sm } = .ok (t2, x2) →
      t1 = t2 :=
  common_safe_step' rnd st sel ss hs d tc h hc tp fl sm

/-- The diagnosis alone does not make the property hold (F9b shape): two non-uniform series with equal start, end and mean
step are "common" although their time arrays differ. The export model refuses them at the final comparison, before the
target is opened. -/
theorem is_common_insufficient_counterexample :
    isCommonTime (α := Rat) [[0, 1, 3, 4], [0, 2, 3, 4]] none = some true ∧
      ([0, 1, 3, 4] : List Rat) ≠ [0, 2, 3, 4] ∧
      exportTrace (α := Rat) [] (fun _ => 0) ⟨id, fun _ x => x, id⟩
        { targetExists := false, existOk := true, dirMissing := false, basename := true, force := false, ext := .ts, opts := {} }
        [⟨"a".toList, none, [0, 1, 3, 4], [1, 2, 3, 4]⟩, ⟨"b".toList, none, [0, 2, 3, 4], [5, 6, 7, 8]⟩] =
        [.select, .friendly, .timeCheck, .process, .process, .raise .value] := by
  decide +kernel

/-- Off the lattice the window rule is not sufficient either: samples at `0,1,…,4` and at `½,…,3½` with the window `[1, 3]`
are "common", their windowed arrays are not equal. -/
theorem twin_off_lattice_counterexample :
    isCommonTime (α := Rat) [[0, 1, 2, 3, 4], [1/2, 3/2, 5/2, 7/2]] (some (1, 3)) = some true ∧
      windowT (1 : Rat) 3 [0, 1, 2, 3, 4] ≠ windowT 1 3 [1/2, 3/2, 5/2, 7/2] := by
  decide +kernel

/-! ## record-level round trips -/

/-- Key file: names on one line without surrounding blanks, not starting with `**` or a quote and not `END` come back. -/
theorem roundtrip_key (names : List Str) (h : ∀ n ∈ names, KeySafe n) : decodeKey (encodeKey names) = names :=
  roundtrip_key' names h

/-- Direct-access words: with at least two samples, reading back gives the time record and every series record, each value
quantised once by the float32 storage. -/
theorem roundtrip_ts {β : Type} (q : β → β) (t : List β) (xs : List (List β)) (h2 : 2 ≤ t.length)
    (h : ∀ x ∈ xs, x.length = t.length) : decodeTs (encodeTs q t xs) = some ((t :: xs).map (·.map q)) :=
  roundtrip_ts' q t xs h2 h

/-- With a single sample the header record is longer than a record and the file cannot be read back (finding F30). -/
theorem ts_one_sample_counterexample : decodeTs (encodeTs id [(5 : Rat)] [[7]]) = none := by
  decide +kernel

/-- Ascii header: non-empty names without white space that do not look like a time column come back (white-space delimiter). -/
theorem roundtrip_dat_header (delim : Str) (hd : ∀ c ∈ delim, isWs c = true) (hdne : delim ≠ []) (names : List Str)
    (h : ∀ n ∈ names, DatSafe n) : decodeDatHeader (encodeDatHeader delim names) = .ok names :=
  roundtrip_dat_header' delim hd hdne names h

/-- A column whose name starts with `time`/`Time` makes the reader refuse the file (finding F19). -/
theorem dat_time_name_counterexample :
    decodeDatHeader (encodeDatHeader ['\t'] ["time_lag".toList, "b".toList]) = .error .key := by
  decide +kernel

/-- Ascii rows: the columns come back, every value formatted once. -/
theorem roundtrip_dat_rows {β : Type} [OfNat β 0] (q : β → β) (cols : List (List β)) (n : Nat) (h : ∀ c ∈ cols, c.length = n) :
    decodeRows (encodeRows q cols n) cols.length = cols.map (·.map q) :=
  roundtrip_rows' q cols n h

/-- Pickled frame: exact, for every list of names (a series called `Time` included, since the F19b repair). -/
theorem roundtrip_pkl {β : Type} (names : List Str) (t : List β) (xs : List (List β)) (hl : names.length = xs.length) :
    decodePkl (encodePkl names t xs) = .ok (names, t, xs) :=
  roundtrip_pkl' names t xs hl

/-- Non-vacuity: the input of the former finding F19b (a series called `Time`) reloads. -/
theorem pkl_time_name_roundtrip :
    decodePkl (encodePkl ["Time".toList] [(0 : Rat), 1] [[5, 6]]) = .ok (["Time".toList], [0, 1], [[5, 6]]) := by
  decide +kernel

/-- SIMA h5: for distinct names without `/` and `\` and uniformly sampled time arrays (≥ 2 samples) the file lists the same
names (in alphabetical order) and every series reads back with its time array rebuilt from start and step. -/
theorem roundtrip_h5 (items : List (Str × List α × List α)) (h : H5Safe items) :
    ∃ f, encodeH5 items = some f ∧ (h5Names f).Perm (items.map (·.1)) ∧
      ∀ it ∈ items, h5Read f it.1 = some (it.2.1, it.2.2) :=
  roundtrip_h5' items h

/-- Non-vacuity: `0..4` and `0,2,4` with `force_common_time` are resampled to the common time array and written. -/
example : exportTrace (α := Rat) [] (fun q : Rat => q.floor) ⟨id, fun _ x => x, id⟩
    { targetExists := false, existOk := true, dirMissing := true, basename := true, force := true, ext := .dat, opts := {} }
    [⟨"a".toList, none, [0, 1, 2, 3, 4], [1, 2, 3, 4, 5]⟩, ⟨"b".toList, none, [0, 2, 4], [5, 6, 7]⟩] =
    [.mkdirs, .select, .friendly, .timeCheck, .commonTime, .process, .process, .openTarget .dat,
      .write "a".toList [0, 1, 2, 3, 4] [1, 2, 3, 4, 5], .write "b".toList [0, 1, 2, 3, 4] [5, 11/2, 6, 13/2, 7]] := by
  decide +kernel

/-- A window between two time steps leaves no sample: the export raises before the target is opened (the replay of the
empty-window defect repaired in /repo). -/
example : exportTrace (α := Rat) [] (fun q : Rat => q.floor) ⟨id, fun _ x => x, id⟩
    { targetExists := false, existOk := true, dirMissing := false, basename := true, force := false, ext := .pkl,
      opts := { twin := some (1/4, 3/4) } }
    [⟨"a".toList, none, [0, 1, 2, 3], [1, 2, 3, 4]⟩, ⟨"b".toList, none, [0, 1, 2, 3], [5, 13/2, 29/4, 8]⟩] =
    [.select, .friendly, .timeCheck, .process, .process, .raise .value] := by
  decide +kernel

/-- Non-vacuity of the partial theorem's premises: two series on the lattice `0 + ℕ·1` and a window inside both. -/
example : isCommonTime (α := Rat) [lattice 0 1 0 4, lattice 0 1 1 4] (some (1, 3)) = some true ∧
    windowT (1 : Rat) 3 (lattice 0 1 0 4) = windowT 1 3 (lattice 0 1 1 4) := by
  decide +kernel

/-- The representability predicates are satisfiable. -/
example : KeySafe "Tension [kN]".toList ∧ DatSafe "acc(1)".toList ∧
    H5Safe [("a".toList, uniform (0 : Rat) (1/2) 3, [5, 6, 7])] := by
  refine ⟨by unfold KeySafe; decide, by unfold DatSafe; decide, by decide, ?_⟩
  intro it hit
  simp only [List.mem_cons, List.not_mem_nil, or_false] at hit
  subst hit
  exact ⟨by decide, by decide, 0, 1/2, 3, by decide, rfl, rfl⟩

end Qats.Props.C07
