import Qats.Lemmas.EstMain
import Qats.Lemmas.EstMsm
import Qats.Lemmas.EstPopulation
/-!
# C16 — estimators are equivariant, moment-exact and consistent; minima mirror maxima

Property theorems only, over ℝ. Closed-form estimators: the generated formulas composed with the order-statistics
weights of `Qats/Model/Dist.lean`. Iterative estimators: statements about the estimating equations / residual vectors
handed to the solvers (roots map to roots, residuals are invariant). Solver convergence and consistency on large exact
samples are measured by the harness, not proved.
-/
namespace Qats.Props.C16
open Qats Qats.Gen Qats.Dist

/-- `M_{1,j,0}(a·x + b) = a·M_{1,j,0}(x) + b/(j+1)` (hockey-stick identity), for samples with more than `j` points. -/
theorem mlj_affine (xs : List ℝ) (a b : ℝ) (j : Nat) (hn : j < xs.length) :
    mlj (xs.map fun x => a * x + b) j = a * mlj xs j + b / (j + 1) :=
  mlj_affine' xs a b j hn

/-- `mk(a·x + b, k) = a·mk(x, k) + b/(k+1)`. -/
theorem mk_affine (xs : List ℝ) (a b : ℝ) (k : Nat) (hn : k < xs.length) :
    mk (xs.map fun x => a * x + b) k = a * mk xs k + b / (k + 1) :=
  mk_affine' xs a b k hn

/-- Weibull PWM is equivariant: location and scale transform, shape is unchanged. Hypotheses: the quantities the
formulas divide by / take logarithms of are in their domain (non-degenerate sample). -/
theorem weibullPwm_equivariant (xs : List ℝ) (a b : ℝ) (ha : 0 < a) (hn : 4 ≤ xs.length)
    (hden : mlj xs 0 - 8 * mlj xs 1 + 12 * mlj xs 2 - 4 * mlj xs 3 ≠ 0)
    (hden2 : 5 * mlj xs 1 - mlj xs 0 - 6 * mlj xs 2 + 2 * mlj xs 3 ≠ 0) :
    weibullPwm (xs.map fun x => a * x + b) =
      (a * (weibullPwm xs).1 + b, a * (weibullPwm xs).2.1, (weibullPwm xs).2.2) :=
  weibullPwm_equivariant' xs a b ha hn hden hden2

/-- Two-parameter Weibull PWM is scale equivariant (no shift: the location is fixed at 0). -/
theorem weibullPwm2_scale (xs : List ℝ) (a : ℝ) (ha : 0 < a) (hn : 2 ≤ xs.length)
    (hden : mlj xs 0 - mlj xs 1 ≠ 0) :
    weibullPwm2 (xs.map fun x => a * x + 0) = (a * (weibullPwm2 xs).1, (weibullPwm2 xs).2) :=
  weibullPwm2_scale' xs a ha hn hden

theorem gumbelPwm_equivariant (xs : List ℝ) (a b : ℝ) (ha : 0 < a) (hn : 2 ≤ xs.length) :
    gumbelPwm (xs.map fun x => a * x + b) = (a * (gumbelPwm xs).1 + b, a * (gumbelPwm xs).2) :=
  gumbelPwm_equivariant' xs a b ha hn

theorem gumbelMsm_equivariant (xs : List ℝ) (a b : ℝ) (ha : 0 < a) (hn : 2 ≤ xs.length) :
    gumbelMsm (xs.map fun x => a * x + b) = (a * (gumbelMsm xs).1 + b, a * (gumbelMsm xs).2) :=
  gumbelMsm_equivariant' xs a b ha hn

/-- Method of moments (Gumbel): the fitted distribution has the sample mean and the unbiased sample standard
deviation (the Gumbel mean / std formulas are the generated `gu_mean`, `gu_std`). -/
theorem gumbelMsm_moments (xs : List ℝ) (hn : 2 ≤ xs.length) :
    gu_mean (gumbelMsm xs).1 (gumbelMsm xs).2 = mean xs ∧ gu_std (gumbelMsm xs).2 = sdUnbiased xs :=
  gumbelMsm_moments' xs hn

/-- Method of moments (Weibull): if the shape `c` solves the skewness equation `wb_msm_eq c c1 = 0`, the fitted
distribution reproduces the sample mean `a1`, the population variance `m2` and the skewness `c1`. -/
theorem weibullMsm_moments (a1 m2 c1 c : ℝ) (hc : 0 < c) (hm2 : 0 < m2)
    (hvar : 0 < Real.Gamma ((c + 2) / c) - Real.Gamma ((c + 1) / c) ^ 2)
    (hroot : wb_msm_eq c c1 = 0) :
    let g1 := wb_msm_g1 c
    let g2 := wb_msm_g2 c
    let b := wb_msm_b g1 g2 m2
    let a := wb_msm_a a1 b g1
    wb_mean a b c = a1 ∧ wb_std b c = Real.sqrt m2 ∧ wb_skew c = c1 :=
  weibullMsm_moments' a1 m2 c1 c hc hm2 hvar hroot

/-- Iterative Gumbel MLE: `(loc, scale)` solves the equations for `z` iff `(a·loc + b, a·scale)` solves them for
`a·z + b`. -/
theorem gumbelMle_equivariant (z : List ℝ) (loc scale a b : ℝ) (ha : 0 < a) (hs : 0 < scale) (hz : z ≠ []) :
    gumbelMleEq loc scale z = (0, 0) ↔
      gumbelMleEq (a * loc + b) (a * scale) (z.map fun x => a * x + b) = (0, 0) :=
  gumbelMle_equivariant' z loc scale a b ha hs hz

/-- Iterative Gumbel LSE: the residual vector is invariant, so minimisers map to minimisers. -/
theorem gumbelLse_equivariant (z : List ℝ) (loc scale a b : ℝ) (ha : 0 < a) (hs : 0 < scale) :
    gumbelLseRes (a * loc + b) (a * scale) (z.map fun x => a * x + b) = gumbelLseRes loc scale z :=
  gumbelLse_equivariant' z loc scale a b ha hs

/-- Minima mirror maxima, method of moments. -/
theorem min_mirror_msm (xs : List ℝ) (hn : 2 ≤ xs.length) :
    gumbelMinMsm xs = (-(gumbelMsm (xs.map fun x => -x)).1, (gumbelMsm (xs.map fun x => -x)).2) :=
  min_mirror_msm' xs hn

/-- Minima mirror maxima, likelihood equations: `(loc, scale)` solves the minima equations for `z` iff
`(-loc, scale)` solves the maxima equations for `-z`. -/
theorem min_mirror_mle (z : List ℝ) (loc scale : ℝ) (hs : 0 < scale) (hz : z ≠ []) :
    gumbelMinMleEq loc scale z = (0, 0) ↔ gumbelMleEq (-loc) scale (z.map fun x => -x) = (0, 0) :=
  min_mirror_mle' z loc scale hs hz

/-- Minima mirror maxima, least squares: the residuals of the minima fit to the ascending sample `z` are, in
reverse order and with opposite sign, those of the maxima fit to the ascending sample `(-z).reverse`, up to the
symmetry of the median-rank plotting positions `F_i + F_{n+1-i} = 1`. -/
theorem min_mirror_lse (z : List ℝ) (loc scale : ℝ) (hs : 0 < scale) :
    gumbelMinLseRes loc scale z = ((gumbelLseRes (-loc) scale ((z.map fun x => -x).reverse)).map fun r => -r).reverse :=
  min_mirror_lse' z loc scale hs


/-- Weibull method of moments: the coefficient of skewness handed to the root search is invariant under positive affine
maps of the sample (so the same shape solves the skewness equation) … -/
theorem sampleSkew_affine (xs : List ℝ) (a b : ℝ) (ha : 0 < a) (hn : xs ≠ []) :
    sampleSkew (xs.map fun x => a * x + b) = sampleSkew xs :=
  sampleSkew_affine' xs a b ha hn

/-- … and, given that shape, location and scale are equivariant. -/
theorem weibullMsmGiven_equivariant (c : ℝ) (xs : List ℝ) (a b : ℝ) (ha : 0 < a) (hn : xs ≠ []) :
    weibullMsmGiven c (xs.map fun x => a * x + b) =
      (a * (weibullMsmGiven c xs).1 + b, a * (weibullMsmGiven c xs).2.1, c) :=
  weibullMsmGiven_equivariant' c xs a b ha hn

/-! ### Population-level exactness of the closed-form Gumbel estimators

`gumbel.pwm` uses `m0 = mk(x, 0)` (sample mean) and `m1 = mk(x, 1)`, the unbiased sample version of
`M_{1,0,1} = E[X·(1 − F(X))]` (weights `(n−i)/(n−1)` on the ascending sample). Below the sample moments are replaced by
the population moments of the generated density / cdf `gu_pdf`, `gu_cdf`:
`β0 = ∫ x·f`, `β1 = ∫ x·F·f`, `M101 = ∫ x·(1 − F)·f = β0 − β1`.
NOTE: the source's formula `b = (m0 − 2·m1)/log 2` is exact for `m1 = M101`; with `β1 = E[X·F]` in the place of `m1` it
would return `−scale` (`(β0 − 2·β1)/log 2 = −scale`).
That `mk(x, k)` converges to `M_{1,0,k}` for large samples is not proved (measured by the harness). -/

/-- Max-stability: `F(x)²` is the cdf of Gumbel(loc + scale·log 2, scale). -/
theorem gu_cdf_sq (loc scale x : ℝ) (hs : scale ≠ 0) :
    gu_cdf loc scale x ^ 2 = gu_cdf (loc + scale * Real.log 2) scale x :=
  Est.gu_cdf_sq' loc scale x hs

/-- `F·f = ½·f_shifted`. -/
theorem gu_cdf_mul_pdf (loc scale x : ℝ) (hs : scale ≠ 0) :
    gu_cdf loc scale x * gu_pdf loc scale x = 1 / 2 * gu_pdf (loc + scale * Real.log 2) scale x :=
  Est.gu_cdf_mul_pdf' loc scale x hs

/-- `β1 = ∫ x·F(x)·f(x) dx = ½·(loc + scale·log 2 + γ·scale)`. -/
theorem gumbel_beta1 (loc scale : ℝ) (hs : 0 < scale) :
    MeasureTheory.Integrable (fun x => x * gu_cdf loc scale x * gu_pdf loc scale x) ∧
      ∫ x, x * gu_cdf loc scale x * gu_pdf loc scale x =
        1 / 2 * (loc + scale * Real.log 2 + Real.eulerMascheroniConstant * scale) :=
  Est.gu_beta1' loc scale hs

/-- `M101 = ∫ x·(1 − F(x))·f(x) dx = ½·(loc + γ·scale − scale·log 2)`, the population counterpart of `mk(x, 1)`. -/
theorem gumbel_m101 (loc scale : ℝ) (hs : 0 < scale) :
    MeasureTheory.Integrable (fun x => x * (1 - gu_cdf loc scale x) * gu_pdf loc scale x) ∧
      ∫ x, x * (1 - gu_cdf loc scale x) * gu_pdf loc scale x =
        1 / 2 * (loc + Real.eulerMascheroniConstant * scale - scale * Real.log 2) :=
  Est.gu_m101' loc scale hs

/-- `M101 = β0 − β1`. -/
theorem gumbel_m101_eq_sub (loc scale : ℝ) (hs : 0 < scale) :
    ∫ x, x * (1 - gu_cdf loc scale x) * gu_pdf loc scale x =
      (∫ x, x * gu_pdf loc scale x) - ∫ x, x * gu_cdf loc scale x * gu_pdf loc scale x :=
  Est.gu_m101_eq_sub' loc scale hs

/-- The PWM formulas at the population moments, `γ` in the place of the source's literal: exactly `(loc, scale)`. -/
theorem gumbel_pwm_population_exact (loc scale : ℝ) (hs : 0 < scale) :
    let m0 := ∫ x, x * gu_pdf loc scale x
    let m1 := ∫ x, x * (1 - gu_cdf loc scale x) * gu_pdf loc scale x
    let b := gu_pwm_b m0 m1
    (m0 - Real.eulerMascheroniConstant * b, b) = (loc, scale) :=
  Est.gumbel_pwm_population_exact' loc scale hs

/-- The generated formulas as they are (with the literal): the scale is exact and the location is
`loc + (γ − 0.5772156649015329)·scale`. -/
theorem gumbel_pwm_population (loc scale : ℝ) (hs : 0 < scale) :
    gu_pwm_b (∫ x, x * gu_pdf loc scale x) (∫ x, x * (1 - gu_cdf loc scale x) * gu_pdf loc scale x) = scale ∧
    gu_pwm_a (gu_pwm_b (∫ x, x * gu_pdf loc scale x) (∫ x, x * (1 - gu_cdf loc scale x) * gu_pdf loc scale x))
        (∫ x, x * gu_pdf loc scale x) = loc + (Real.eulerMascheroniConstant - 0.5772156649015329) * scale :=
  Est.gumbel_pwm_population' loc scale hs

/-- Explicit error: 0 in the scale, `|c − γ|·scale` in the location, which Mathlib's `1/2 < γ < 2/3` bounds by
`scale/10` (numerically `|c − γ| ≈ 5e-17`; the harness compares the literal with `numpy.euler_gamma`). -/
theorem gumbel_pwm_population_error (loc scale : ℝ) (hs : 0 < scale) :
    let m0 := ∫ x, x * gu_pdf loc scale x
    let m1 := ∫ x, x * (1 - gu_cdf loc scale x) * gu_pdf loc scale x
    let b := gu_pwm_b m0 m1
    b = scale ∧ |gu_pwm_a b m0 - loc| = |(0.5772156649015329 : ℝ) - Real.eulerMascheroniConstant| * scale ∧
      |gu_pwm_a b m0 - loc| < scale / 10 :=
  Est.gumbel_pwm_population_error' loc scale hs

/-- Tie to the model's composition: an ascending sample whose `mk xs 0`, `mk xs 1` equal the population moments is
fitted by `gumbelPwm` with the exact scale and the location `loc + (γ − c)·scale`. -/
theorem gumbelPwm_of_population_moments (xs : List ℝ) (loc scale : ℝ) (hs : 0 < scale)
    (h0 : mk xs 0 = ∫ x, x * gu_pdf loc scale x)
    (h1 : mk xs 1 = ∫ x, x * (1 - gu_cdf loc scale x) * gu_pdf loc scale x) :
    gumbelPwm xs = (loc + (Real.eulerMascheroniConstant - 0.5772156649015329) * scale, scale) :=
  Est.gumbelPwm_of_population_moments' xs loc scale hs h0 h1

/-- Such samples exist for every `loc` and `scale > 0` (a two-point sample). -/
theorem population_sample_exists (loc scale : ℝ) (hs : 0 < scale) :
    ∃ xs : List ℝ, xs.Pairwise (· ≤ ·) ∧ mk xs 0 = (∫ x, x * gu_pdf loc scale x) ∧
      mk xs 1 = ∫ x, x * (1 - gu_cdf loc scale x) * gu_pdf loc scale x :=
  Est.population_sample_exists' loc scale hs

/-- Method of moments restricted to the mean (location given the scale): `gu_msm_a` at the population mean and the true
scale returns `loc + (γ − c)·scale`. (The scale step needs the variance `π²/6·scale²` of the density: not proved.) -/
theorem gumbel_msm_population_loc_partial (loc scale : ℝ) (hs : 0 < scale) :
    gu_msm_a scale (∫ x, x * gu_pdf loc scale x) =
      loc + (Real.eulerMascheroniConstant - 0.5772156649015329) * scale :=
  Est.gumbel_msm_population_loc' loc scale hs

/-- Same for the minima distribution (`gumbelmin.msm`: `a = mean + c·b`; the mean of `gm_pdf` is `loc − γ·scale`). -/
theorem gumbelMin_msm_population_loc_partial (loc scale : ℝ) (hs : 0 < scale) :
    gm_msm_a scale (∫ x, x * gm_pdf loc scale x) =
      loc - (Real.eulerMascheroniConstant - 0.5772156649015329) * scale :=
  Est.gumbelMin_msm_population_loc' loc scale hs

/- Full statement not proved (missing: `∫ (x − mean)²·gu_pdf = π²/6·scale²`, i.e. `Γ''(1) = γ² + π²/6`):
   gumbel_msm_population : gu_msm_b (√(∫ (x − β0)²·gu_pdf loc scale x)) = scale ∧ gu_msm_a scale β0 = loc + (γ − c)·scale -/

/-- Non-vacuity of the population theorems: the hypotheses `scale ≠ 0`, `0 < scale` hold for the unit Gumbel, and the
sample hypotheses of `gumbelPwm_of_population_moments` are satisfiable (`population_sample_exists`). -/
example : (1 : ℝ) ≠ 0 ∧ (0 : ℝ) < 1 := by norm_num
example : ∃ xs : List ℝ, mk xs 0 = (∫ x, x * gu_pdf 0 1 x) ∧
    mk xs 1 = ∫ x, x * (1 - gu_cdf 0 1 x) * gu_pdf 0 1 x := by
  obtain ⟨xs, -, h⟩ := population_sample_exists 0 1 (by norm_num)
  exact ⟨xs, h⟩

end Qats.Props.C16
