import Qats.Lemmas.W2GMain
import Qats.Lemmas.StatsMain
import Qats.Lemmas.StatsGen
import Qats.Lemmas.MomentsMain
/-!
# C17 — the extreme-value chain from peaks to quantiles is coherent

Property theorems only, over ℝ, about the generated `weibull2gumbel` / `Gumbel.fit_from_weibull_parameters` formulas.
The statistics summary (`TimeSeries.stats`) composes C11's pipeline, C14's maxima and C16's PWM estimator with these
formulas; its consistency / equivariance / mirror clauses are validated on the implementation by the harness
(partial: not restated as one composed theorem).
-/
namespace Qats.Props.C17
open Qats Qats.Gen Qats.Dist Qats.Stats

theorem gloc_is_quantile (loc scale shape n : ℝ) (hn : 1 < n) :
    w2g_loc loc n scale shape = wb_invcdf loc (1 - 1 / n) scale shape :=
  gloc_is_quantile' loc scale shape n hn

theorem gscale_is_inverse_intensity (loc scale shape n : ℝ) (hs : 0 < scale) (hc : 0 < shape) (hn : 1 < n) :
    w2g_scale n scale shape = 1 / (n * wb_pdf loc scale shape (w2g_loc loc n scale shape)) :=
  gscale_is_inverse_intensity' loc scale shape n hs hc hn

theorem entry_points_agree (loc scale shape n : ℝ) (hs : 0 < scale) (hc : 0 < shape) (hn : 1 < n) :
    wfw_loc n loc scale shape = w2g_loc loc n scale shape ∧ wfw_scale n scale shape = w2g_scale n scale shape :=
  entry_points_agree' loc scale shape n hs hc hn


/-! ### the statistics summary (`TimeSeries.stats`): composition of C14 maxima, C16 PWM and the identities above -/

/-- Quantile estimates increase with the probability (for a positive Gumbel scale). -/
theorem gumbel_quantile_increasing (gl gs p q : ℝ) (hgs : 0 < gs) (hp : 0 < p) (hpq : p < q) (hq : q < 1) :
    gu_invcdf gl p gs < gu_invcdf gl q gs :=
  gumbel_quantile_increasing' gl gs p q hgs hp hpq hq

/-- The minima variant is the mirror image of the maxima variant of the negated signal: same Weibull / Gumbel parameters,
negated quantile estimates and sample. -/
theorem summary_mirror (rnd : ℝ → Int) (sd dur : ℝ) (qs x : List ℝ) :
    summary rnd sd dur qs true x =
      (summary rnd sd dur qs false (x.map fun v => -v)).map fun s =>
        { s with pvalues := s.pvalues.map fun v => -v, sample := s.sample.map fun v => -v } :=
  summary_mirror' rnd sd dur qs x

/-- The reported Gumbel location is the Weibull (1 − 1/n)-quantile of the reported Weibull parameters, the scale is
1/(n·density there), with `n = round(statsdur/duration · #maxima)` (whenever `n > 1` and the fitted scale and shape are
positive). -/
theorem summary_chain (rnd : ℝ → Int) (sd dur : ℝ) (qs x : List ℝ) (isMin : Bool) (s : Summary ℝ)
    (h : summary rnd sd dur qs isMin x = some s) :
    let n : ℝ := ((rnd (sd / dur * (s.sample.length : ℝ)) : Int) : ℝ)
    1 < n → 0 < s.wscale → 0 < s.wshape →
      s.gloc = wb_invcdf s.wloc (1 - 1 / n) s.wscale s.wshape ∧
      s.gscale = 1 / (n * wb_pdf s.wloc s.wscale s.wshape s.gloc) ∧
      s.pvalues = qs.map fun p => (if isMin then -1 else 1) * gu_invcdf s.gloc p s.gscale :=
  summary_chain' rnd sd dur qs x isMin s h

/-- Affine equivariance of the maxima summary: under `x ↦ a·x + b` (`a > 0`) location-type quantities map as `a·v + b`,
scale-type quantities as `a·v`, the shape is unchanged, quantile estimates and the sample map as `a·v + b`.
(Hypotheses: at least four maxima and the non-degeneracy of the PWM formulas, as in `weibullPwm_equivariant`.) -/
theorem summary_affine (rnd : ℝ → Int) (sd dur a b : ℝ) (ha : 0 < a) (qs x : List ℝ) (s : Summary ℝ)
    (h : summary rnd sd dur qs false x = some s) (h4 : 4 ≤ s.sample.length)
    (hden : Dist.mlj s.sample 0 - 8 * Dist.mlj s.sample 1 + 12 * Dist.mlj s.sample 2 - 4 * Dist.mlj s.sample 3 ≠ 0)
    (hden2 : 5 * Dist.mlj s.sample 1 - Dist.mlj s.sample 0 - 6 * Dist.mlj s.sample 2 + 2 * Dist.mlj s.sample 3 ≠ 0) :
    summary rnd sd dur qs false (x.map fun v => a * v + b) =
      some { wloc := a * s.wloc + b, wscale := a * s.wscale, wshape := s.wshape,
             gloc := a * s.gloc + b, gscale := a * s.gscale,
             pvalues := s.pvalues.map fun v => a * v + b, sample := s.sample.map fun v => a * v + b } :=
  summary_affine' rnd sd dur a b ha qs x s h h4 hden hden2


/-! ### the descriptive half of the statistics summary (`Qats.Moments.describe`: start / end / duration / dtavg / mean / std /
skew / kurt / min / max / tz of `TimeSeries.stats`)

`eps` is scipy's degenerate-sample threshold factor (`m2 ≤ (eps·mean)²` → skew = kurt = nan): `2^-52` in the implementation,
`0` in exact arithmetic.  The consistency clauses hold for every `eps`; the equivariance clauses are stated at `eps = 0`
(unconditionally) and for an arbitrary `eps` under the hypothesis that the test answers the same for both signals. -/
section Descriptive
variable {α : Type} [Field α] [LinearOrder α] [IsStrictOrderedRing α] [TranscOps α]

/-- min ≤ mean for every non-empty series (any linearly ordered field, any `eps`). -/
theorem summary_min_le_mean (eps : α) (t x : List α) (d : Moments.Desc α) (h : Moments.describe eps t x = some d) :
    d.min ≤ d.mean :=
  Moments.summary_min_le_mean' eps t x d h

/-- mean ≤ max for every non-empty series. -/
theorem summary_mean_le_max (eps : α) (t x : List α) (d : Moments.Desc α) (h : Moments.describe eps t x = some d) :
    d.mean ≤ d.max :=
  Moments.summary_mean_le_max' eps t x d h

/-- duration = end − start, where start / end are the first / last time sample. -/
theorem summary_duration (eps : α) (t x : List α) (d : Moments.Desc α) (h : Moments.describe eps t x = some d) :
    d.duration = d.stop - d.start ∧ t.head? = some d.start ∧ t.getLast? = some d.stop :=
  Moments.summary_duration' eps t x d h

/-- The mean step times (n − 1) is the duration (telescoping sum), for n ≥ 2 samples — whatever the sampling. -/
theorem summary_dtavg (eps : α) (t x : List α) (d : Moments.Desc α) (h : Moments.describe eps t x = some d)
    (hn : 2 ≤ t.length) :
    ∃ v, d.dtavg = some v ∧ v * ((t.length : α) - 1) = d.duration :=
  Moments.summary_dtavg' eps t x d h hn

/-- The fields computed with field operations only under `x ↦ a·x + b`, `a > 0`, over any linearly ordered field: mean and
min / max map as `a·v + b`, the variance (std²) as `a²·v`; kurtosis and the mean up-crossing period are unchanged. -/
theorem moments_affine_field (a b : α) (ha : 0 < a) (t : List α) (x0 : α) (xr : List α) :
    Peaks.mean ((x0 :: xr).map fun v => a * v + b) = a * Peaks.mean (x0 :: xr) + b ∧
    Moments.tvar ((x0 :: xr).map fun v => a * v + b) = (Moments.tvar (x0 :: xr)).map (fun v => a ^ 2 * v) ∧
    Moments.kurt 0 ((x0 :: xr).map fun v => a * v + b) = Moments.kurt 0 (x0 :: xr) ∧
    Moments.minL (a * x0 + b) (xr.map fun v => a * v + b) = a * Moments.minL x0 xr + b ∧
    Moments.maxL (a * x0 + b) (xr.map fun v => a * v + b) = a * Moments.maxL x0 xr + b ∧
    Moments.tz t ((x0 :: xr).map fun v => a * v + b) = Moments.tz t (x0 :: xr) :=
  Moments.moments_affine_field' a b ha t x0 xr

end Descriptive

/-- Affine equivariance of the descriptive summary (exact arithmetic, every series, every length): under `x ↦ a·x + b`,
`a > 0`, mean / min / max map as `a·v + b`, std as `a·v`; skew, kurt, tz, start, end, duration, dtavg are unchanged
(`nan` fields stay `nan`: std for n = 1, skew / kurt for a constant signal, tz with fewer than two up-crossings). -/
theorem summary_affine_desc (a b : ℝ) (ha : 0 < a) (t x : List ℝ) (d : Moments.Desc ℝ)
    (h : Moments.describe 0 t x = some d) :
    Moments.describe 0 t (x.map fun v => a * v + b) =
      some { d with mean := a * d.mean + b, std := d.std.map fun v => a * v, min := a * d.min + b,
                    max := a * d.max + b } :=
  Moments.summary_affine_desc' a b ha t x d h

/-- The same for scipy's actual threshold factor `eps`, whenever the degenerate-sample test answers the same for the two
signals (it does not in general: `(eps·mean)²` is not shift-invariant, so a nearly constant signal can get `nan` before and a
number after the map — rounding noise either way). -/
theorem summary_affine_desc_eps (eps a b : ℝ) (ha : 0 < a) (t x : List ℝ) (d : Moments.Desc ℝ)
    (h : Moments.describe eps t x = some d)
    (hz : Moments.isZero eps (x.map fun v => a * v + b) = Moments.isZero eps x) :
    Moments.describe eps t (x.map fun v => a * v + b) =
      some { d with mean := a * d.mean + b, std := d.std.map fun v => a * v, min := a * d.min + b,
                    max := a * d.max + b } :=
  Moments.summary_affine_desc_eps' eps a b ha t x d h hz

/-- Mirror `x ↦ −x` (exact arithmetic): mean and skew negate, std and kurt are unchanged, min / max swap with the sign, the
time fields are unchanged.  `tz` is deliberately absent: it counts UP-crossings of the mean level, which the mirror turns into
strict down-crossings — a different set of instants (example below). -/
theorem summary_mirror_desc (t x : List ℝ) (d : Moments.Desc ℝ) (h : Moments.describe 0 t x = some d) :
    ∃ d', Moments.describe 0 t (x.map fun v => -v) = some d' ∧
      d'.mean = -d.mean ∧ d'.std = d.std ∧ d'.skew = d.skew.map (fun v => -v) ∧ d'.kurt = d.kurt ∧
      d'.min = -d.max ∧ d'.max = -d.min ∧
      d'.start = d.start ∧ d'.stop = d.stop ∧ d'.duration = d.duration ∧ d'.dtavg = d.dtavg :=
  Moments.summary_mirror_desc' t x d h

/-- Non-vacuity: a series with a summary, at least two samples, a positive factor, and a pair of signals on which the
degenerate-sample test agrees. -/
example : (∃ d, Moments.describe (0 : ℝ) [0, 1, 3] [1, 2, 4] = some d) ∧ 2 ≤ ([0, 1, 3] : List ℝ).length ∧ (0 : ℝ) < 2 ∧
    Moments.isZero (0 : ℝ) (([1, 2, 4] : List ℝ).map fun v => 2 * v + 1) = Moments.isZero (0 : ℝ) ([1, 2, 4] : List ℝ) :=
  ⟨⟨_, rfl⟩, by simp, by norm_num, Moments.isZero_zero_affine (2 : ℝ) 1 (by norm_num) _⟩

/-- Worked example (exact, checked by the kernel; the implementation returns the same numbers: mean 2, std² 2.5, kurt 1.8,
min 0, max 4, dtavg 1.25, tz 2) and the mirror counter-example for `tz`: on a uniform time grid the signal below has mean
up-crossing period 3, its mirror image 2. -/
example :
    Peaks.mean ([1, 3, 0, 4, 2] : List Rat) = 2 ∧ Moments.tvar ([1, 3, 0, 4, 2] : List Rat) = some (5 / 2) ∧
    Moments.kurt 0 ([1, 3, 0, 4, 2] : List Rat) = some (9 / 5) ∧ Moments.minL (1 : Rat) [3, 0, 4, 2] = 0 ∧
    Moments.maxL (1 : Rat) [3, 0, 4, 2] = 4 ∧ Moments.dtavg ([0, 1, 2, 3, 5] : List Rat) = some (5 / 4) ∧
    Moments.tz ([0, 1, 2, 3, 5] : List Rat) [1, 3, 0, 4, 2] = some 2 ∧
    Moments.kurt 0 ([7, 7, 7, 7] : List Rat) = none ∧
    Moments.tz ([0, 1, 2, 3, 4, 5, 6, 7] : List Rat) [-1, 1, 1, -1, 1, -1, -1, 1] = some 3 ∧
    Moments.tz ([0, 1, 2, 3, 4, 5, 6, 7] : List Rat) (([-1, 1, 1, -1, 1, -1, -1, 1] : List Rat).map fun v => -v) = some 2 := by
  decide +kernel


/-- `summary_chain` with the number of peaks in the statistics duration written through the source's own expression:
`Qats.Gen.stats_n_ratio` is the argument of `round` in `TimeSeries.stats`, regenerated from `qats/ts.py` on every run (the duration of
the *processed* series and the number of extracted peaks are its parameters). -/
theorem summary_chain_source (rnd : ℝ → Int) (sd dur : ℝ) (qs x : List ℝ) (isMin : Bool) (s : Summary ℝ)
    (h : summary rnd sd dur qs isMin x = some s) :
    let n : ℝ := ((rnd (stats_n_ratio dur (s.sample.length : ℝ) sd) : Int) : ℝ)
    1 < n → 0 < s.wscale → 0 < s.wshape →
      s.gloc = wb_invcdf s.wloc (1 - 1 / n) s.wscale s.wshape ∧
      s.gscale = 1 / (n * wb_pdf s.wloc s.wscale s.wshape s.gloc) ∧
      s.pvalues = qs.map fun p => (if isMin then -1 else 1) * gu_invcdf s.gloc p s.gscale :=
  summary_chain_source' rnd sd dur qs x isMin s h

end Qats.Props.C17
