import Qats.Lemmas.W2GMain
/-!
# C17 — the extreme-value chain from peaks to quantiles is coherent

Property theorems only, over ℝ, about the generated `weibull2gumbel` / `Gumbel.fit_from_weibull_parameters` formulas.
The statistics summary (`TimeSeries.stats`) composes C11's pipeline, C14's maxima and C16's PWM estimator with these
formulas; its consistency / equivariance / mirror clauses are validated on the implementation by the harness
(partial: not restated as one composed theorem).
-/
namespace Qats.Props.C17
open Qats Qats.Gen Qats.Dist

theorem gloc_is_quantile (loc scale shape n : ℝ) (hn : 1 < n) :
    w2g_loc loc n scale shape = wb_invcdf loc (1 - 1 / n) scale shape :=
  gloc_is_quantile' loc scale shape n hn

theorem gscale_is_inverse_intensity (loc scale shape n : ℝ) (hs : 0 < scale) (hc : 0 < shape) (hn : 1 < n) :
    w2g_scale n scale shape = 1 / (n * wb_pdf loc scale shape (w2g_loc loc n scale shape)) :=
  gscale_is_inverse_intensity' loc scale shape n hs hc hn

theorem entry_points_agree (loc scale shape n : ℝ) (hs : 0 < scale) (hc : 0 < shape) (hn : 1 < n) :
    wfw_loc n loc scale shape = w2g_loc loc n scale shape ∧ wfw_scale n scale shape = w2g_scale n scale shape :=
  entry_points_agree' loc scale shape n hs hc hn


end Qats.Props.C17
