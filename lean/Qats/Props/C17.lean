import Qats.Lemmas.W2GMain
import Qats.Lemmas.StatsMain
/-!
# C17 — the extreme-value chain from peaks to quantiles is coherent

Property theorems only, over ℝ, about the generated `weibull2gumbel` / `Gumbel.fit_from_weibull_parameters` formulas.
The statistics summary (`TimeSeries.stats`) composes C11's pipeline, C14's maxima and C16's PWM estimator with these
formulas; its consistency / equivariance / mirror clauses are validated on the implementation by the harness
(partial: not restated as one composed theorem).
-/
namespace Qats.Props.C17
open Qats Qats.Gen Qats.Dist Qats.Stats

theorem gloc_is_quantile (loc scale shape n : ℝ) (hn : 1 < n) :
    w2g_loc loc n scale shape = wb_invcdf loc (1 - 1 / n) scale shape :=
  gloc_is_quantile' loc scale shape n hn

theorem gscale_is_inverse_intensity (loc scale shape n : ℝ) (hs : 0 < scale) (hc : 0 < shape) (hn : 1 < n) :
    w2g_scale n scale shape = 1 / (n * wb_pdf loc scale shape (w2g_loc loc n scale shape)) :=
  gscale_is_inverse_intensity' loc scale shape n hs hc hn

theorem entry_points_agree (loc scale shape n : ℝ) (hs : 0 < scale) (hc : 0 < shape) (hn : 1 < n) :
    wfw_loc n loc scale shape = w2g_loc loc n scale shape ∧ wfw_scale n scale shape = w2g_scale n scale shape :=
  entry_points_agree' loc scale shape n hs hc hn


/-! ### the statistics summary (`TimeSeries.stats`): composition of C14 maxima, C16 PWM and the identities above -/

/-- Quantile estimates increase with the probability (for a positive Gumbel scale). -/
theorem gumbel_quantile_increasing (gl gs p q : ℝ) (hgs : 0 < gs) (hp : 0 < p) (hpq : p < q) (hq : q < 1) :
    gu_invcdf gl p gs < gu_invcdf gl q gs :=
  gumbel_quantile_increasing' gl gs p q hgs hp hpq hq

/-- The minima variant is the mirror image of the maxima variant of the negated signal: same Weibull / Gumbel parameters,
negated quantile estimates and sample. -/
theorem summary_mirror (rnd : ℝ → Int) (sd dur : ℝ) (qs x : List ℝ) :
    summary rnd sd dur qs true x =
      (summary rnd sd dur qs false (x.map fun v => -v)).map fun s =>
        { s with pvalues := s.pvalues.map fun v => -v, sample := s.sample.map fun v => -v } :=
  summary_mirror' rnd sd dur qs x

/-- The reported Gumbel location is the Weibull (1 − 1/n)-quantile of the reported Weibull parameters, the scale is
1/(n·density there), with `n = round(statsdur/duration · #maxima)` (whenever `n > 1` and the fitted scale and shape are
positive). -/
theorem summary_chain (rnd : ℝ → Int) (sd dur : ℝ) (qs x : List ℝ) (isMin : Bool) (s : Summary ℝ)
    (h : summary rnd sd dur qs isMin x = some s) :
    let n : ℝ := ((rnd (sd / dur * (s.sample.length : ℝ)) : Int) : ℝ)
    1 < n → 0 < s.wscale → 0 < s.wshape →
      s.gloc = wb_invcdf s.wloc (1 - 1 / n) s.wscale s.wshape ∧
      s.gscale = 1 / (n * wb_pdf s.wloc s.wscale s.wshape s.gloc) ∧
      s.pvalues = qs.map fun p => (if isMin then -1 else 1) * gu_invcdf s.gloc p s.gscale :=
  summary_chain' rnd sd dur qs x isMin s h

/-- Affine equivariance of the maxima summary: under `x ↦ a·x + b` (`a > 0`) location-type quantities map as `a·v + b`,
scale-type quantities as `a·v`, the shape is unchanged, quantile estimates and the sample map as `a·v + b`.
(Hypotheses: at least four maxima and the non-degeneracy of the PWM formulas, as in `weibullPwm_equivariant`.) -/
theorem summary_affine (rnd : ℝ → Int) (sd dur a b : ℝ) (ha : 0 < a) (qs x : List ℝ) (s : Summary ℝ)
    (h : summary rnd sd dur qs false x = some s) (h4 : 4 ≤ s.sample.length)
    (hden : Dist.mlj s.sample 0 - 8 * Dist.mlj s.sample 1 + 12 * Dist.mlj s.sample 2 - 4 * Dist.mlj s.sample 3 ≠ 0)
    (hden2 : 5 * Dist.mlj s.sample 1 - Dist.mlj s.sample 0 - 6 * Dist.mlj s.sample 2 + 2 * Dist.mlj s.sample 3 ≠ 0) :
    summary rnd sd dur qs false (x.map fun v => a * v + b) =
      some { wloc := a * s.wloc + b, wscale := a * s.wscale, wshape := s.wshape,
             gloc := a * s.gloc + b, gscale := a * s.gscale,
             pvalues := s.pvalues.map fun v => a * v + b, sample := s.sample.map fun v => a * v + b } :=
  summary_affine' rnd sd dur a b ha qs x s h h4 hden hden2


end Qats.Props.C17
