import Qats.Lemmas.DtgMain
/-!
# C18 — the absolute time of every sample survives date-time bookkeeping

Property theorems only.  Instants and seconds are elements of one commutative additive group `α` (every ordered field, in
particular ℚ and ℝ, is an instance); exact arithmetic: the rounding of `timedelta(seconds=·)` to whole microseconds and
float rounding are outside the theorems (measured by the harness: ≤ 2 µs on realistic inputs).
`absT s` is the list of absolute instants `ref + tᵢ`; `run s ops` the state after a history of `set_dtg_ref(x | None |
non-datetime)`, `copy()` and `dtg_time` reads.
-/
namespace Qats.Props.C18
open Qats Qats.Dtg
set_option linter.unusedSectionVars false
variable {α : Type} [AddCommGroup α]

/-- The invariant: once a series has a reference, no history of re-referencing (to an instant or to the series start),
rejected calls, copying and reading changes the absolute instant of any sample. -/
theorem abs_invariant (s : St α) (r : α) (h : s.ref = some r) (ops : List (Op α)) :
    absT (run s ops) = absT s :=
  abs_invariant' s r h ops

/-- A reference is never lost. -/
theorem ref_stays (s : St α) (r : α) (h : s.ref = some r) (ops : List (Op α)) : ∃ r', (run s ops).ref = some r' :=
  ref_stays' s r h ops

/-- Relative times after any history are the original ones shifted by (original reference − current reference): the
docstring's `t += (dtg_ref - new_ref)`, for whole histories; in particular sample spacing never changes. -/
theorem rel_times_after (s : St α) (r r' : α) (h : s.ref = some r) (ops : List (Op α))
    (h' : (run s ops).ref = some r') : (run s ops).t = s.t.map fun ti => ti + (r - r') :=
  rel_times_after' s r r' h ops h'

/-- No history changes the number of samples. -/
theorem length_run (s : St α) (ops : List (Op α)) : (run s ops).t.length = s.t.length :=
  length_run' s ops

/-- A series without reference: the first instant ever set fixes the absolute instants for the rest of the history
(`x + tᵢ` with the ORIGINAL relative times), and as long as none is set the relative times are untouched. -/
theorem no_ref_history (s : St α) (h : s.ref = none) (ops : List (Op α)) :
    absT (run s ops) = (firstInst ops).map (fun x => s.t.map fun ti => x + ti) ∧
      (firstInst ops = none → (run s ops).t = s.t ∧ (run s ops).ref = none) :=
  no_ref_history' s h ops

/-- Setting a reference on a series that has none changes nothing but the reference (no relative time, no error). -/
theorem set_on_none_keeps_t (s : St α) (h : s.ref = none) (x : α) :
    setRef (.inst x) s = ({ s with ref := some x }, none) :=
  set_on_none_keeps_t' s h x

/-- Construction from stamps (optionally with an explicit reference): after any history the absolute instants are
exactly the stamps the series was built from. -/
theorem from_stamps (st : List α) (ref : Option α) (s : St α) (h : ofStamps st ref = some s) (ops : List (Op α)) :
    absT (run s ops) = some st :=
  from_stamps' st ref s h ops

/-- Construction succeeds exactly for non-empty input (so the hypotheses of the construction theorems are satisfiable
for every non-empty list and every reference). -/
theorem constructed_iff (t : List α) (ref : Option α) :
    ((ofFloats t ref).isSome ↔ t ≠ []) ∧ ((ofStamps t ref).isSome ↔ t ≠ []) :=
  constructed_iff' t ref

/-- The cache is either empty or equal to `ref + t`: established by both constructors … -/
theorem cache_consistent_init (t : List α) (ref : Option α) (s : St α)
    (h : ofFloats t ref = some s ∨ ofStamps t ref = some s) : CacheOK s :=
  h.elim (cacheOK_ofFloats t ref s) (cacheOK_ofStamps t ref s)

/-- … kept by every history, so `dtg_time` always returns the current `ref + tᵢ` (never a stale cache). -/
theorem cache_consistent (ops : List (Op α)) (s : St α) (h : CacheOK s) :
    CacheOK (run s ops) ∧ (dtgTime (run s ops)).2 = absT (run s ops) :=
  cache_consistent' ops s h

/-- A filled cache never goes stale: whatever history follows, the stamps cached earlier are still the current `ref + tᵢ`
(so an implementation that resets the cache less often than the code does still satisfies the property). -/
theorem filled_cache_stays_valid (s : St α) (c : List α) (hc : CacheOK s) (h : s.cache = some c) (ops : List (Op α)) :
    absT (run s ops) = some c :=
  filled_cache_stays_valid' s c hc h ops

/-- In-place processing (`modify` with a window: the samples selected by a mask remain): the cache invariant survives every
history of re-referencing, copying, reading **and processing**, so `dtg_time` is `ref + tᵢ` of the samples the series holds
now (F54: `modify` used to keep the cache of the former time array) … -/
theorem cache_consistent_processing (ops : List (OpX α)) (s : St α) (h : CacheOK s) :
    CacheOK (runX s ops) ∧ (dtgTime (runX s ops)).2 = absT (runX s ops) :=
  cache_consistent_x' ops s h

/-- … and processing changes no absolute instant: after `modify` exactly the instants of the retained samples remain, in
order; every other operation keeps all of them. -/
theorem processing_keeps_retained_instants (s : St α) (l : List α) (h : absT s = some l) (op : OpX α) :
    absT (stepX s op) = some (match op with | .base _ => l | .keep m => keepMask m l) :=
  absT_stepX s l h op

/-- `dtg_start` / `dtg_end` are the first / last absolute instant. -/
theorem start_end (s : St α) :
    dtgStart s = (absT s).bind List.head? ∧ dtgEnd s = (absT s).bind List.getLast? :=
  start_end' s

/-- What a user observes after any history on a series built from numbers with a reference: `dtg_time` is `r + tᵢ` of the
ORIGINAL times, `dtg_start` / `dtg_end` its first / last entry. -/
theorem floats_history (t : List α) (r : α) (s : St α) (h : ofFloats t (some r) = some s) (ops : List (Op α)) :
    (dtgTime (run s ops)).2 = some (t.map fun ti => r + ti) ∧
      dtgStart (run s ops) = t.head?.map (fun ti => r + ti) ∧
      dtgEnd (run s ops) = t.getLast?.map (fun ti => r + ti) :=
  floats_history' t r s h ops

/-- … and on a series built from stamps: `dtg_time` returns the stamps, `dtg_start` / `dtg_end` the first / last stamp. -/
theorem stamps_history (st : List α) (ref : Option α) (s : St α) (h : ofStamps st ref = some s) (ops : List (Op α)) :
    (dtgTime (run s ops)).2 = some st ∧ dtgStart (run s ops) = st.head? ∧ dtgEnd (run s ops) = st.getLast? :=
  stamps_history' st ref s h ops

/-- A rejected call leaves the series exactly as it was; and (non-empty series) a call is rejected exactly when the argument
is not a date-time, or is `None` while there is no reference to adjust. -/
theorem invalid_rejected_unchanged (a : Arg α) (s : St α) :
    ((setRef a s).2 ≠ none → (setRef a s).1 = s) ∧
      (s.t ≠ [] → ((setRef a s).2 ≠ none ↔ a = .bad ∨ (a = .none ∧ s.ref = none))) :=
  invalid_rejected_unchanged' a s

/-- Re-referencing does what it says: to an instant → that instant is the reference; to the series start → the reference
is the old start instant, the first relative time is 0 and the start instant is unchanged. -/
theorem setRef_post (s : St α) (r : α) (h : s.ref = some r) :
    (∀ x, (setRef (.inst x) s).1.ref = some x) ∧
      (∀ t0 tl, s.t = t0 :: tl →
        (setRef .none s).1.ref = some (r + t0) ∧ (setRef .none s).1.t.head? = some 0 ∧
          dtgStart (setRef .none s).1 = dtgStart s) :=
  setRef_post' s r h

/-- Re-referencing is path independent: going through an intermediate reference gives the same state as going directly. -/
theorem set_path_independent (s : St α) (r : α) (h : s.ref = some r) (x y : α) :
    run s [.set (.inst x), .set (.inst y)] = run s [.set (.inst y)] :=
  set_path_independent' s r h x y

/-- Re-referencing to the series start twice is the same as once. -/
theorem set_none_idempotent (s : St α) : run s [.set .none, .set .none] = run s [.set .none] :=
  set_none_idempotent' s

/-- `_check_time_arrays`: the reference rule lets a set of series pass exactly when all references are equal (all absent
included) — so equal relative times of series that pass mean equal absolute instants. -/
theorem refBlocked_iff [DecidableEq α] (refs : List (Option α)) :
    refBlocked refs = false ↔ ∀ a ∈ refs, ∀ b ∈ refs, a = b :=
  refBlocked_iff' refs

/-- … and the reported common reference is `r` exactly when every series has reference `r`. -/
theorem commonRef_iff [DecidableEq α] (refs : List (Option α)) (r : α) :
    commonRef refs = some r ↔ refs ≠ [] ∧ ∀ a ∈ refs, a = some r :=
  commonRef_iff' refs r


/-- Non-vacuity / worked example (seconds on ℚ): a series with reference 100 is read, re-referenced to 98, copied, read,
re-referenced to its start, and a non-datetime is rejected: the absolute instants stay 100, 100½, 103; a series built from
the stamps 10, 11, 13 keeps them through re-referencing to 0. -/
example :
    (ofFloats ([0, 1/2, 3] : List Rat) (some 100)).map (fun s =>
        let s' := run s [.read, .set (.inst 98), .copy, .read, .set .none, .set .bad]
        (s'.ref, s'.t, absT s')) = some (some 100, [0, 1/2, 3], some [100, 201/2, 103]) ∧
    (ofFloats ([0, 1/2, 3] : List Rat) (some 100)).map (fun s => (run s [.set (.inst 98)]).t) = some [2, 5/2, 5] ∧
    (ofStamps ([10, 11, 13] : List Rat) none).map (fun s =>
        let s' := run s [.set .none, .copy, .set (.inst 0)]
        (s'.ref, s'.t, (dtgTime s').2)) = some (some 0, [10, 11, 13], some [10, 11, 13]) := by
  decide +kernel

end Qats.Props.C18
