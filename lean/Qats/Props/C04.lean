import Qats.Lemmas.RebinMain
/-!
# C04 — re-binning and meshing conserve cycles

Property theorems only, over any linearly ordered field (exact arithmetic; `FloorRing` where the bin-width count
`⌈(stop−start)/w⌉` is needed). Floating-point construction of the edges is outside these theorems: it is searched by the
harness against the exact `Rat` run of the same model (finding F5, fixed).
-/
namespace Qats.Props.C04
open Qats Qats.Rebin
set_option linter.unusedSectionVars false
variable {α : Type} [Field α] [LinearOrder α] [IsStrictOrderedRing α]

theorem linspace_good (start stop : α) (n : Nat) (hn : 1 ≤ n) (h : start < stop) :
    GoodEdges (linspaceEdges start stop n) ∧ (linspaceEdges start stop n).head? = some start ∧
      (linspaceEdges start stop n).getLast? = some stop ∧ (linspaceEdges start stop n).length = n + 1 :=
  linspace_good' start stop n hn h

theorem width_good (start w : α) (k : Nat) (hk : 1 ≤ k) (hw : 0 < w) :
    GoodEdges (widthEdges start w k) ∧ (widthEdges start w k).head? = some start ∧
      (widthEdges start w k).getLast? = some (start + w * k) ∧ (widthEdges start w k).length = k + 1 :=
  width_good' start w k hk hw

/-- The bin count of `_create_bins(start, stop, w=w)` reaches `stop`. -/
theorem width_covers [FloorRing α] (start stop w : α) (hw : 0 < w) (h : start ≤ stop) :
    stop ≤ start + w * ((max (Nat.ceil ((stop - start) / w)) 1 : Nat) : α) :=
  width_covers' start stop w hw h

/-- Every covered value gets the index of the bin whose interval contains it: half-open bins, the last one closed. -/
theorem binIndex_contains (edges : List α) (hg : GoodEdges edges) (v : α) (hc : Covered edges v) :
    ∃ j lo hi, binIndex edges v = some j ∧ j + 1 < edges.length ∧ edges[j]? = some lo ∧ edges[j + 1]? = some hi ∧
      lo ≤ v ∧ (v < hi ∨ (j + 2 = edges.length ∧ v = hi)) :=
  binIndex_contains' edges hg v hc

/-- … and values outside the outer edges are dropped. -/
theorem binIndex_outside (edges : List α) (v : α) (h : ¬ Covered edges v) : binIndex edges v = none :=
  binIndex_outside' edges v h

/-- The histogram conserves the total weight of the covered values. -/
theorem hist_total (edges : List α) (hg : GoodEdges edges) (vals weights : List α) (hl : vals.length = weights.length)
    (hc : ∀ v ∈ vals, Covered edges v) : sum (hist edges vals weights) = sum weights :=
  hist_total' edges hg vals weights hl hc

/-- A bin that contains no value has weight 0. -/
theorem hist_empty (edges vals weights : List α) (j : Nat) (hj : j + 1 < edges.length)
    (he : ∀ v ∈ vals, binIndex edges v ≠ some j) : (hist edges vals weights)[j]? = some 0 :=
  hist_empty' edges vals weights j hj he

/-- Total count and count-weighted sum of the secondary quantity are conserved by `rebinWith` (positive counts). -/
theorem rebinWith_conserves (edges : List α) (hg : GoodEdges edges) (p s c : List α)
    (hl : p.length = s.length ∧ s.length = c.length) (hpos : ∀ x ∈ c, 0 < x) (hc : ∀ v ∈ p, Covered edges v) :
    sum ((rebinWith edges p s c).map (·.count)) = sum c ∧
    sum ((rebinWith edges p s c).map fun b => b.count * b.secondary.getD 0) = sum (List.zipWith (· * ·) c s) :=
  rebinWith_conserves' edges hg p s c hl hpos hc

/-- Bins report mid-points; an empty bin carries count 0 and no secondary value (nan). -/
theorem rebinWith_shape (edges : List α) (hg : GoodEdges edges) (p s c : List α) (j : Nat) (hj : j + 1 < edges.length)
    (lo hi : α) (hlo : edges[j]? = some lo) (hhi : edges[j + 1]? = some hi) :
    ∃ b, (rebinWith edges p s c)[j]? = some b ∧ b.primary = (lo + hi) / 2 ∧
      ((∀ v ∈ p, binIndex edges v ≠ some j) → b.count = 0 ∧ b.secondary = none) :=
  rebinWith_shape' edges hg p s c j hj lo hi hlo hhi

/-- Re-binning by range (some positive range) conserves the total count and the count-weighted sum of means, for any
number of bins `n ≥ 1` and any width `w > 0` (with the code's bin count). -/
theorem rebin_range_conserves [FloorRing α] (t : List (Row α)) (hv : ValidTable t) (hpos : ∃ r ∈ t, 0 < r.range)
    (spec : Spec α)
    (hs : (∃ n, 1 ≤ n ∧ spec = .n n) ∨
      (∃ w, 0 < w ∧ spec = .w w (max (Nat.ceil ((maxOf (t.map (·.range)) 0 - 0) / w)) 1))) :
    sum ((rebin t .range spec).map (·.count)) = sum (t.map (·.count)) ∧
    sum ((rebin t .range spec).map fun b => b.count * b.secondary.getD 0) = sum (t.map fun r => r.count * r.mean) :=
  rebin_range_conserves' t hv hpos spec hs

/-- Re-binning by mean (at least two distinct means) conserves the total count and the count-weighted sum of ranges. -/
theorem rebin_mean_conserves [FloorRing α] (t : List (Row α)) (hv : ValidTable t)
    (hdist : minOf (t.map (·.mean)) 0 < maxOf (t.map (·.mean)) 0) (spec : Spec α)
    (hs : (∃ n, 1 ≤ n ∧ spec = .n n) ∨
      (∃ w, 0 < w ∧ spec = .w w (max (Nat.ceil ((maxOf (t.map (·.mean)) 0 - minOf (t.map (·.mean)) 0) / w)) 1))) :
    sum ((rebin t .mean spec).map (·.count)) = sum (t.map (·.count)) ∧
    sum ((rebin t .mean spec).map fun b => b.count * b.secondary.getD 0) = sum (t.map fun r => r.count * r.range) :=
  rebin_mean_conserves' t hv hdist spec hs

/-- The mesh has the same total as the table. -/
theorem mesh_total (t : List (Row α)) (hv : ValidTable t) (nr nm : Nat) (hr : 1 ≤ nr) (hm : 1 ≤ nm) :
    sum ((mesh t nr nm).2.2.map sum) = sum (t.map (·.count)) :=
  mesh_total' t hv nr nm hr hm

/-- Summing the mesh over the mean bins gives the one-dimensional re-binning by range with `nr` bins … -/
theorem mesh_marginal_range (t : List (Row α)) (hv : ValidTable t) (hpos : ∃ r ∈ t, 0 < r.range) (nr nm : Nat)
    (hr : 1 ≤ nr) (hm : 1 ≤ nm) (jr : Nat) (hjr : jr < nr) :
    sum ((mesh t nr nm).2.2.map fun row => row.getD jr 0) = ((rebin t .range (.n nr)).map (·.count)).getD jr 0 :=
  mesh_marginal_range' t hv hpos nr nm hr hm jr hjr

/-- … and summing over the range bins gives the re-binning by mean with `nm` bins (two distinct means). -/
theorem mesh_marginal_mean (t : List (Row α)) (hv : ValidTable t)
    (hdist : minOf (t.map (·.mean)) 0 < maxOf (t.map (·.mean)) 0) (nr nm : Nat)
    (hr : 1 ≤ nr) (hm : 1 ≤ nm) (jm : Nat) (hjm : jm < nm) :
    sum (((mesh t nr nm).2.2.getD jm [])) = ((rebin t .mean (.n nm)).map (·.count)).getD jm 0 :=
  mesh_marginal_mean' t hv hdist nr nm hr hm jm hjm


/-- Non-vacuity: a three-cycle table re-binned by range into two bins (total 5/2 conserved, weighted means conserved). -/
example : (rebin ([⟨1, 0, 1⟩, ⟨2, 1, 1/2⟩, ⟨3, -1, 1⟩] : List (Row Rat)) .range (.n 2)).map (fun b => (b.primary, b.secondary, b.count))
    = [(3/4, some 0, 1), (9/4, some (-1/3), 3/2)] := by decide +kernel

end Qats.Props.C04
