import Qats.Lemmas.ReadBindHist
/-!
# C01 — a series read from a file is the series stored under that name

Property theorems only, about the model `Qats.ReadBind` (`load`, `_read`, `get*`; four reader styles covering the ten
formats) and the record-level model `Qats.Direct` of the direct-access reader.  The correspondence check compares the
model with the real `TsDB` on synthesised files of all ten formats after every operation of seeded histories.
All theorems hold for an arbitrary scalar type `α` (the model only moves values) and for requests that repeat keys.
Byte/text decoding and the third-party readers are outside the model (tied by correspondence only).
-/
namespace Qats.Props.C01
open Qats Qats.Names Qats.ReadBind

variable {α : Type}

/-- `_read`: for well-formed files on disk, a registry produced by `load` whose cache holds only stored series, any list
of registered keys in any order (repetitions allowed) and either `store` flag, the call succeeds and
* returns exactly the requested keys, first occurrences in request order;
* every returned series is the stored one — name, time and data of the `j`-th series of the file `f` the key was
  registered from (`stored f j`);
* already cached series are returned as they are;
* the registry invariant is preserved, registration data (key, parent, index) never changes; with `store = false` the
  database is unchanged, with `store = true` every requested key is cached afterwards, and what was cached stays cached. -/
theorem read_correct [OfNat α 0] (disk : List (File α)) (hd : DiskOk disk) (db : Db α) (h0 : RegOk disk db)
    (ks : List Str) (hks : ∀ k ∈ ks, k ∈ keysOf db) (store : Bool) :
    ∃ db' out, readKeys disk db ks store = some (db', out) ∧ ReadOk disk db ks store db' out :=
  Qats.ReadBind.read_correct' disk hd db h0 ks hks store

/-- One reader call, every index-addressed style (direct access, array indexing, csv): for a request `ind` of existing
records the reader succeeds and row `p` is record `ind[p]`, unless the same record number is requested again further
right (only the direct-access style then leaves a row of zeros; `_read` overwrites the series built from it). -/
theorem reader_rows [OfNat α 0] (f : File α) (hf : FileOk f) (hs : styleOf f.format ≠ .byName) (ind : List Nat)
    (hind : ∀ i ∈ ind, i < (records f).length) :
    ∃ rows, readRows f ind = some rows ∧
      LastWins (fun i row => row = (records f).getD i []) (fun a b => a = b) ind rows :=
  Qats.ReadBind.readRows_spec f hf hs ind hind

/-- Array indexing (`.bin .pkl .asc .dat`) and csv (`sorted(set(ind))` frame, then re-arranged): exactly the requested
records in the requested order, repeats included. -/
theorem reader_rows_exact [OfNat α 0] (f : File α) (hs : styleOf f.format = .fancy ∨ styleOf f.format = .csv)
    (ind : List Nat) (hind : ∀ i ∈ ind, i < (records f).length) :
    readRows f ind = some (ind.map fun i => (records f).getD i []) :=
  Qats.ReadBind.readRows_exact f hs ind hind

/-- One reader call of `_read` for keys of one file, any style: the `i`-th constructed series is the one stored under
the `i`-th key, unless that key occurs again further right in the request. -/
theorem reader_group [OfNat α 0] (f : File α) (hf : FileOk f) (g : List (Entry α)) (hg : ∀ e ∈ g, ∃ j, From f j e) :
    ∃ ts, readGroup f g = some ts ∧
      LastWins (fun e s => ∀ j, From f j e → s = stored f j) (fun e' e => e'.key = e.key) g ts :=
  Qats.ReadBind.readGroup_spec f hf g hg

/-- Direct-access reader, cursor arithmetic: started before record `i` with the file cursor at byte `(i+1)·4·ndat`,
`n` iterations advance the cursor by `n·4·ndat` bytes, and row `p` of the output holds record `ind[p]` — the `ndat`
words at byte offset `(ind[p]+1)·4·ndat` — iff that record number lies in `[i, i+n)` and the position table sends it to
`p`; every other row is untouched. -/
theorem direct_cursor (w : List α) (ndat : Nat) (ind : List Nat) (n i : Nat) (arr : List (List α))
    (harr : arr.length = ind.length) (p : Nat) (hp : p < ind.length) :
    (Direct.loop w ndat ind n i ((i + 1) * (4 * ndat)) arr).1 = (i + 1) * (4 * ndat) + n * (4 * ndat) ∧
    (Direct.loop w ndat ind n i ((i + 1) * (4 * ndat)) arr).2[p]? =
      if i ≤ ind[p] ∧ ind[p] < i + n ∧ Direct.pos ind 0 ind[p] = some p then some (Direct.record w ndat ind[p])
      else arr[p]? :=
  ⟨Direct.loop_fst w ndat ind n i _ arr, Direct.loop_row w ndat ind n i arr harr p hp⟩

/-- Direct-access reader, result: when every requested record exists the reader succeeds; row `p` is record `ind[p]` if
`p` is the last position requesting that record number, a row of zeros otherwise. -/
theorem direct_read [OfNat α 0] (w : List α) (ndat : Nat) (ind : List Nat) (hind : ∀ i ∈ ind, i ≤ Direct.nts w ndat) :
    ∃ rows, Direct.read w ndat ind = some rows ∧ rows.length = ind.length ∧
      ∀ p (hp : p < ind.length), rows[p]? = some (if Direct.pos ind 0 ind[p] = some p then Direct.record w ndat ind[p]
        else List.replicate ndat 0) :=
  Direct.read_spec w ndat ind hind

/-- The word image of a well-formed file has the records where the reader looks for them. -/
theorem direct_layout [OfNat α 0] (f : File α) (hf : FileOk f) (i : Nat) (hi : i < (records f).length) :
    Direct.nts (words f) f.time.length = f.cols.length ∧
      Direct.record (words f) f.time.length i = (records f).getD i [] :=
  ⟨Qats.ReadBind.nts_words f hf.collen hf.nonempty, Qats.ReadBind.record_words f hf.collen i hi⟩

/-- `key.replace(parent, "").lstrip("/")` recovers the registered name from the key `parent/name`. -/
theorem name_recovered (path n : Str) (hp : path ≠ []) (hn : n.head? ≠ some sep) (hinf : ¬ path <:+: (sep :: n)) :
    nameOf path (path ++ sep :: n) = n :=
  Qats.ReadBind.nameOf_join path n hp hn hinf

/-- `load`: a file none of whose keys is registered yet is accepted; every name `names[j]` is registered under
`path/names[j]` with parent `path` and record index `j+1`; with `read = true` its cache holds the stored series. -/
theorem load_registers [OfNat α 0] (disk : List (File α)) (hd : DiskOk disk) (db : Db α) (h0 : RegOk disk db) (f : File α)
    (hf : f ∈ disk) (hnew : ∀ n ∈ f.names, pathJoin f.path n ∉ keysOf db) (read : Bool) :
    (step disk db (.load f.path read)).2 = .done ∧
      ∀ j (hj : j < f.names.length),
        ∃ e ∈ (step disk db (.load f.path read)).1.reg, e.key = pathJoin f.path f.names[j] ∧ From f j e ∧
          (read = true → e.cache = some (stored f j)) :=
  Qats.ReadBind.load_registers' disk hd db h0 f hf hnew read

/-- `getm/getd/getl/getda`: a selection (by names, wildcards or indices) that resolves to keys `ks` never fails and
returns exactly `ks` without repetitions, in order; with `store = false` the database is unchanged. -/
theorem getm_returns [OfNat α 0] (disk : List (File α)) (hd : DiskOk disk) (db : Db α) (h0 : RegOk disk db) (sel : Sel)
    (store : Bool) (ks : List Str) (hsel : selectKeys db sel = some ks) :
    ∃ l, (step disk db (.getm sel store)).2 = .series l ∧ l.map (·.1) = ks.eraseDups ∧
      (store = false → (step disk db (.getm sel store)).1 = db) :=
  Qats.ReadBind.getm_returns' disk hd db h0 sel store ks hsel

/-- Any single operation (load lazily/eagerly, container retrieval, single retrieval; by name, wildcard or index; cached
or not; store or not): the registry invariant is preserved, every returned pair is (a registered key, the series stored
under it), and no registration is lost or altered. -/
theorem step_correct [OfNat α 0] (disk : List (File α)) (hd : DiskOk disk) (db : Db α) (h0 : RegOk disk db) (op : Op) :
    RegOk disk (step disk db op).1 ∧ OutOk disk db (step disk db op).2 ∧
      (∀ e ∈ db.reg, ∃ e' ∈ (step disk db op).1.reg, skel e' = skel e) :=
  Qats.ReadBind.step_correct' disk hd db h0 op

/-- Any history of operations from the empty database: every series any operation ever returned is the series stored,
on a file `f` on disk, under the name `names[j]` for which the returned key was registered. -/
theorem run_correct [OfNat α 0] (disk : List (File α)) (hd : DiskOk disk) (ops : List Op) :
    RegOk disk (run disk {} ops).1 ∧
      ∀ o ∈ (run disk ({} : Db α) ops).2, ∀ l, o = .series l → ∀ ks ∈ l,
        ∃ f ∈ disk, ∃ j, Registered (run disk {} ops).1 ks.1 f j ∧ ks.2 = stored f j :=
  Qats.ReadBind.run_correct' disk hd ops {} (Qats.ReadBind.regOk_empty disk)

/-! ### non-vacuity -/

/-- The hypotheses are satisfiable … -/
example : DiskOk exDisk := by
  refine ⟨?_, by decide⟩
  intro f hf
  simp only [exDisk, List.mem_cons, List.mem_nil_iff, or_false] at hf
  rcases hf with rfl | rfl <;>
    exact ⟨by decide, by decide, by decide, by decide, by decide, by decide, by decide, by decide⟩

/-- … and the model computes what the theorems say: lazy load, an out-of-order request by index that repeats a key
(direct-access style, nothing cached), an eager load of the csv file, a cached single retrieval by name, a request in
reverse file order with caching disabled. -/
example :
    (run exDisk {} [.load "/d/f.ts".toList false, .getm (.inds [2, 0, 2]) true, .load "/d/g.csv".toList true,
        .get (.name "x".toList) false, .getm (.names (some ["x".toList, "y".toList])) false]).2 =
      [.done,
       .series [("/d/f.ts/c".toList, ⟨"c".toList, [0, 1], [30, 31]⟩), ("/d/f.ts/b".toList, ⟨"b".toList, [0, 1], [10, 11]⟩)],
       .done,
       .series [("/d/g.csv/x".toList, ⟨"x".toList, [5, 6], [80, 81]⟩)],
       .series [("/d/g.csv/x".toList, ⟨"x".toList, [5, 6], [80, 81]⟩), ("/d/g.csv/y".toList, ⟨"y".toList, [5, 6], [70, 71]⟩)]] := by
  decide +kernel

end Qats.Props.C01
