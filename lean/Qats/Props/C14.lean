import Qats.Lemmas.PeaksMain
/-!
# C14 — extracted peaks are true maxima of the signal

Property theorems only, over any linearly ordered field (exact arithmetic; the float mean is outside the theorems).
-/
namespace Qats.Props.C14
open Qats Qats.Peaks
set_option linter.unusedSectionVars false
variable {α : Type} [Field α] [LinearOrder α] [IsStrictOrderedRing α]

/-- Exact characterisation of the global maxima (before threshold and sorting). -/
theorem globalMaxima_spec (x : List α) (i : Nat) (v : α) : (i, v) ∈ globalMaxima x ↔ IsGlobalMax x i v :=
  globalMaxima_spec' x i v

/-- The global maxima are reported in time order, one per excursion (positions strictly increasing). -/
theorem globalMaxima_increasing (x : List α) : (globalMaxima x).Pairwise (fun a b => a.1 < b.1) :=
  globalMaxima_increasing' x

/-- Exact characterisation of the local maxima. -/
theorem localMaxima_spec (x : List α) (i : Nat) (v : α) : (i, v) ∈ localMaxima x ↔ IsLocalMax x i v :=
  localMaxima_spec' x i v

/-- Every global maximum value is a local maximum of the same excursion (reached through a plateau of that value). -/
theorem global_subset_local (x : List α) (i : Nat) (v : α) (h : (i, v) ∈ globalMaxima x) :
    ∃ j, i ≤ j ∧ (j, v) ∈ localMaxima x ∧ ∀ k, i ≤ k → k ≤ j → x[k]? = some v :=
  global_subset_local' x i v h

/-- The result of `find_maxima` consists of exactly the raw maxima not below the threshold … -/
theorem findMaxima_mem (x : List α) (loc : Bool) (thr : Option α) (iv : Nat × α) :
    iv ∈ findMaxima x loc thr ↔
      iv ∈ (if loc then localMaxima x else globalMaxima x) ∧ (∀ t, thr = some t → t ≤ iv.2) :=
  findMaxima_mem' x loc thr iv

/-- … each with the same multiplicity (a permutation of the filtered list) … -/
theorem findMaxima_perm (x : List α) (loc : Bool) (thr : Option α) :
    (findMaxima x loc thr).Perm
      ((if loc then localMaxima x else globalMaxima x).filter fun iv => decide (∀ t, thr = some t → t ≤ iv.2)) :=
  findMaxima_perm' x loc thr

/-- … in ascending order of value, and every reported value is the signal value at the reported position. -/
theorem findMaxima_sorted (x : List α) (loc : Bool) (thr : Option α) :
    (findMaxima x loc thr).Pairwise (fun a b => a.2 ≤ b.2) ∧ ∀ iv ∈ findMaxima x loc thr, x[iv.1]? = some iv.2 :=
  findMaxima_sorted' x loc thr

/-- A positive affine map of the signal keeps the positions and maps the values (threshold mapped alike). -/
theorem findMaxima_affine (x : List α) (loc : Bool) (thr : Option α) (a b : α) (ha : 0 < a) :
    findMaxima (x.map fun v => a * v + b) loc (thr.map fun t => a * t + b) =
      (findMaxima x loc thr).map fun iv => (iv.1, a * iv.2 + b) :=
  findMaxima_affine' x loc thr a b ha

/-- Minima are the mirrored maxima of the negated signal: positions are interior troughs / excursion minima below the
mean; stated for the local case as the exact characterisation. -/
theorem findMinima_local_spec (x : List α) (iv : Nat × α) :
    iv ∈ findMinima x true none ↔
      1 ≤ iv.1 ∧ ∃ a c, x[iv.1 - 1]? = some a ∧ x[iv.1]? = some iv.2 ∧ x[iv.1 + 1]? = some c ∧ iv.2 ≤ a ∧ iv.2 < c :=
  findMinima_local_spec' x iv

/-- Values reported by `findMinima` are the signal values at the reported positions. -/
theorem findMinima_value (x : List α) (loc : Bool) (thr : Option α) :
    ∀ iv ∈ findMinima x loc thr, x[iv.1]? = some iv.2 :=
  findMinima_value' x loc thr


/-- Non-vacuity / worked example: three closed excursions, one of them with a plateau at its top (first position
reported), end points never reported. -/
example : findMaxima ([0, 3, 3, 0, 5, 1, 0, 4, 0] : List Rat) false none = [(1, 3), (7, 4), (4, 5)] ∧
    findMaxima ([0, 3, 3, 0, 5, 1, 0, 4, 0] : List Rat) true none = [(2, 3), (7, 4), (4, 5)] := by
  decide +kernel

end Qats.Props.C14
