import Qats.Lemmas.MotionMain
/-!
# C20 — motion transformation is rigid; derivatives are exact for low-order motion

Property theorems only.  Rotation: over ℝ about the nine matrix entries **generated from `qats/motions.py`**.
Gradient: over any linearly ordered field, for any strictly increasing time grid (uniform or not) and, through
`stepTimes`, for a scalar step.
-/
namespace Qats.Props.C20
open Qats Qats.Gen Qats.Motion

/-- The matrix is the yaw-pitch-roll (z-y-x) product of elementary rotations: an independent Euler rotation. -/
theorem R_is_RzRyRx (rx ry rz : ℝ) (v : V3 ℝ) : rotate rx ry rz v = rotZ rz (rotY ry (rotX rx v)) :=
  rotate_eq_zyx' rx ry rz v

/-- The matrix is orthogonal: lengths are preserved. -/
theorem R_orthogonal (rx ry rz : ℝ) (v : V3 ℝ) : normSq (rotate rx ry rz v) = normSq v :=
  rotate_normSq' rx ry rz v

/-- Rigid body: at every time step the distance between two transformed body points is their body distance
(in particular the distance to the reference point, `b = 0`, is constant). -/
theorem rigid (deg : Bool) (pos : V3 ℝ) (rx ry rz : ℝ) (a b : V3 ℝ) :
    normSq (sub3 (transformStep deg pos rx ry rz a) (transformStep deg pos rx ry rz b)) = normSq (sub3 a b) :=
  transform_rigid' deg pos rx ry rz a b

/-- Zero rotation is a pure offset. -/
theorem zero_rotation_offset (deg : Bool) (pos ref : V3 ℝ) :
    transformStep deg pos 0 0 0 ref = ⟨ref.x + pos.x, ref.y + pos.y, ref.z + pos.z⟩ :=
  transform_zero_rotation' deg pos ref

/-- Degree and radian input agree. -/
theorem deg_rad_agree (pos ref : V3 ℝ) (rx ry rz : ℝ) :
    transformStep true pos rx ry rz ref =
      transformStep false pos (rx * (Real.pi / 180)) (ry * (Real.pi / 180)) (rz * (Real.pi / 180)) ref :=
  transform_deg_rad' pos ref rx ry rz

section grad
variable {α : Type} [Field α] [LinearOrder α] [IsStrictOrderedRing α] [OfScientific α] [TranscOps α]

/-- Velocity keeps the input shape (and exists for every signal of ≥ 2 samples with a matching time array). -/
theorem shape_preserved (t x : List α) (hl : t.length = x.length) (h2 : 2 ≤ x.length) :
    ∃ g, gradient t x = some g ∧ g.length = x.length := by
  obtain ⟨g, hg⟩ := gradient_some' t x hl h2
  exact ⟨g, hg, gradient_length' t x g hg⟩

/-- Velocity is linear in the signal. -/
theorem velocity_linear (t x y gx gy : List α) (a b : α) (hxy : x.length = y.length)
    (hx : gradient t x = some gx) (hy : gradient t y = some gy) :
    gradient t (List.zipWith (fun u v => a * u + b * v) x y) = some (List.zipWith (fun u v => a * u + b * v) gx gy) :=
  gradient_linear' t x y gx gy a b hxy hx hy

/-- Exact everywhere for constant-velocity motion. -/
theorem velocity_exact_affine (t : List α) (p q : α) (ht : t.Pairwise (· < ·)) (h2 : 2 ≤ t.length) :
    gradient t (t.map fun u => p * u + q) = some (List.replicate t.length p) :=
  gradient_affine' t p q ht h2

/-- Exact from the second to the second-last sample for constant-acceleration motion. -/
theorem velocity_exact_quadratic (t g : List α) (a b c : α) (ht : t.Pairwise (· < ·))
    (hg : gradient t (t.map fun u => a * u * u + b * u + c) = some g) (i : Nat) (hi : 1 ≤ i) (hi' : i + 1 < t.length)
    (ti : α) (hti : t[i]? = some ti) : g[i]? = some (2 * a * ti + b) :=
  gradient_quadratic' t g a b c ht hg i hi hi' ti hti

/-- Acceleration is exact from the third to the third-last sample for constant-acceleration motion. -/
theorem acceleration_exact_quadratic (t acc : List α) (a b c : α) (ht : t.Pairwise (· < ·))
    (hacc : acceleration (t.map fun u => a * u * u + b * u + c) (.inr t) = some acc) (i : Nat) (hi : 2 ≤ i)
    (hi' : i + 2 < t.length) : acc[i]? = some (2 * a) :=
  acceleration_quadratic' t acc a b c ht hacc i hi hi'

/-- A scalar step `h > 0` is the time array `s, s+h, s+2h, …` — strictly increasing, so all of the above applies. -/
theorem scalar_step_grid (h : α) (hh : 0 < h) (n : Nat) (s : α) :
    (stepTimes h n s).length = n ∧ (stepTimes h n s).Pairwise (· < ·) ∧
      ∀ i, i < n → (stepTimes h n s)[i]? = some (s + i * h) :=
  stepTimes_spec' h hh n s

end grad

/-- Non-vacuity: x = t² on t = 0,1,2,3,4 (exact in the interior, one-sided at the ends). -/
example : velocity ([0, 1, 4, 9, 16] : List Rat) (.inl 1) = some [1, 2, 4, 6, 7] := by decide +kernel

end Qats.Props.C20
