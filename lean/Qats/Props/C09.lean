import Qats.Lemmas.NamesMain
/-!
# C09 — selecting series by name is literal, complete and ordered

Property theorems only, about the string-level model `Qats.Names` of `TsDB.list/get/__contains__/common`.
`fnmatch`, `str.replace` and `os.path` are modelled (DESIGN.md section 3); the model is tied to the real functions by the
correspondence check on every run.
-/
namespace Qats.Props.C09
open Qats Qats.Names

/-- The three-step replacement with the `:[:` detour is, for **every** string, the character-wise escaping. -/
theorem escapeSpecial_eq_flatMap (s : Str) : escapeSpecial s = s.flatMap escChar :=
  escapeSpecial_eq_flatMap' s

/-- Escaping makes matching literal: for every pattern `p` and key `k` (any characters), `fnmatch` of the escaped pattern
is shell-style matching in which only `*` and `?` are special — brackets, parentheses and carets are taken literally. -/
theorem escape_literal (p k : Str) : fnmatch (escapeSpecial p) k = glob p k :=
  escape_literal' p k

/-- A pattern without `*` and `?` matches exactly itself. -/
theorem glob_literal (p k : Str) (hp : ∀ c ∈ p, c ≠ '*' ∧ c ≠ '?') : glob p k = true ↔ k = p :=
  glob_literal' p k hp

/-- `*/` followed by a wildcard-free text matches exactly the keys ending in `/text`. -/
theorem glob_star_suffix (r k : Str) (hr : ∀ c ∈ r, c ≠ '*' ∧ c ≠ '?') :
    glob ('*' :: '/' :: r) k = true ↔ ('/' :: r).isSuffixOf k = true :=
  glob_star_suffix' r k hr

/-- Listing is complete and ordered: for each pattern in order, the registered keys in registration order matching it. -/
theorem listKeys_spec (keys names : List Str) :
    listKeys keys names = names.flatMap fun n => keys.filter fun k => glob (prefixed (common keys) n) k :=
  listKeys_spec' keys names

/-- The common path of two or more normalised keys is a string prefix of every key (so full keys are matched without the
wildcard prefix). -/
theorem common_isPrefix (keys : List Str) (h2 : 2 ≤ keys.length) (hnorm : ∀ k ∈ keys, Normalized k) (k : Str) (hk : k ∈ keys) :
    (common keys).isPrefixOf k = true :=
  common_isPrefix' keys h2 hnorm k hk

/-- Every registered key selects itself, and only itself, by its full key (keys without `*`/`?`, pairwise distinct; for a
single key: its directory part must be a prefix of it, which holds for every key `dir/name`). -/
theorem self_select_fullkey (keys : List Str) (hn : keys.Nodup) (hnorm : ∀ k ∈ keys, Normalized k) (k : Str) (hk : k ∈ keys)
    (hw : ∀ c ∈ k, c ≠ '*' ∧ c ≠ '?') (h1 : keys = [k] → (pathDirname k).isPrefixOf k = true) :
    listKeys keys [k] = [k] ∧ getKey keys k = .ok k ∧ contains keys k = true :=
  self_select_fullkey' keys hn hnorm k hk hw h1

/-- Single retrieval and containment agree with the listing. -/
theorem get_agrees (keys : List Str) (name : Str) :
    (getKey keys name = .error .lookup ↔ listKeys keys [name] = []) ∧
    (getKey keys name = .error .value ↔ 2 ≤ (listKeys keys [name]).length) ∧
    (∀ k, getKey keys name = .ok k ↔ listKeys keys [name] = [k]) ∧
    (contains keys name = true ↔ listKeys keys [name] ≠ []) :=
  get_agrees' keys name

/-- *Partial* (the hypothesis the proof forces): a key `k = common/rel` is selected unambiguously by its listed relative
name `rel` provided no other key ends in `/rel`. Without that hypothesis the statement is false (`ambiguous`, F18). -/
theorem self_select_relative_partial (keys : List Str) (rel k : Str) (hk : k ∈ keys) (hn : keys.Nodup)
    (hcm : common keys ≠ []) (hrel : k = common keys ++ '/' :: rel) (hw : ∀ c ∈ rel, c ≠ '*' ∧ c ≠ '?')
    (hp : (common keys).isPrefixOf rel = false)
    (huniq : ∀ k' ∈ keys, k' ≠ k → ('/' :: rel).isSuffixOf k' = false) :
    listKeys keys [rel] = [k] :=
  self_select_relative_partial' keys rel k hk hn hcm hrel hw hp huniq


/-- The general statement "every key is selected unambiguously by its listed relative name" is false for the code as it
is (finding F18): with `f.ts` and `sub/f.ts` loaded, the listed name `f.ts/x` of the first key matches both. -/
theorem ambiguous_relative_counterexample :
    let keys := ["/r/f.ts/x".toList, "/r/sub/f.ts/x".toList]
    listRelative "/w".toList keys none = ["f.ts/x".toList, "sub/f.ts/x".toList] ∧
      listKeys keys ["f.ts/x".toList] = keys := by
  decide +kernel

/-- A single series whose name carries unit brackets with a `/`: the common path is the file, the listed relative name is
the series name, and both the relative name and the full key select it. -/
theorem single_series_bracket :
    let k := "/d/g.ts/Tension [kN/m]".toList
    common [k] = "/d/g.ts".toList ∧ listRelative "/w".toList [k] none = ["Tension [kN/m]".toList] ∧
      listKeys [k] ["Tension [kN/m]".toList] = [k] ∧ listKeys [k] [k] = [k] := by
  decide +kernel

end Qats.Props.C09
