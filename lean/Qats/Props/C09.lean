import Qats.Lemmas.NamesMain
/-!
# C09 — selecting series by name is literal, complete and ordered

Property theorems only, about the string-level model `Qats.Names` of `TsDB.list/get/__contains__/common`.
`fnmatch`, `str.replace` and `os.path` are modelled (DESIGN.md section 3); the model is tied to the real functions by the
correspondence check on every run.
-/
namespace Qats.Props.C09
open Qats Qats.Names

/-- The three-step replacement with the `:[:` detour is, for **every** string, the character-wise escaping. -/
theorem escapeSpecial_eq_flatMap (s : Str) : escapeSpecial s = s.flatMap escChar :=
  escapeSpecial_eq_flatMap' s

/-- Escaping makes matching literal: for every pattern `p` and key `k` (any characters), `fnmatch` of the escaped pattern
is shell-style matching in which only `*` and `?` are special — brackets, parentheses and carets are taken literally. -/
theorem escape_literal (p k : Str) : fnmatch (escapeSpecial p) k = glob p k :=
  escape_literal' p k

/-- A pattern without `*` and `?` matches exactly itself. -/
theorem glob_literal (p k : Str) (hp : ∀ c ∈ p, c ≠ '*' ∧ c ≠ '?') : glob p k = true ↔ k = p :=
  glob_literal' p k hp

/-- `*/` followed by a wildcard-free text matches exactly the keys ending in `/text`. -/
theorem glob_star_suffix (r k : Str) (hr : ∀ c ∈ r, c ≠ '*' ∧ c ≠ '?') :
    glob ('*' :: '/' :: r) k = true ↔ ('/' :: r).isSuffixOf k = true :=
  glob_star_suffix' r k hr

/-- Listing is complete and ordered: for each pattern in order, the registered keys in registration order matching it. -/
theorem listKeys_spec (keys names : List Str) :
    listKeys keys names = names.flatMap fun n => keys.filter fun k => glob (prefixed (common keys) n) k :=
  listKeys_spec' keys names

/-- The common path of two or more keys (with normalised directory parts) is a string prefix of every key (so full keys are
matched without the wildcard prefix). -/
theorem common_isPrefix (keys : List Str) (h2 : 2 ≤ keys.length) (hnorm : ∀ k ∈ keys, Normalized (pathDirname k)) (k : Str)
    (hk : k ∈ keys) : (common keys).isPrefixOf k = true :=
  common_isPrefix' keys h2 hnorm k hk

/-- The common path is a directory prefix of every key: unless it is empty or the root, the key continues with `/` after it. -/
theorem common_dirPrefix (keys : List Str) (h2 : 2 ≤ keys.length) (hnorm : ∀ k ∈ keys, Normalized (pathDirname k))
    (k : Str) (hk : k ∈ keys) (hc : common keys ≠ []) (hroot : common keys ≠ [sep]) :
    ∃ rel, k = common keys ++ sep :: rel :=
  common_dirPrefix' keys h2 hnorm k hk hc hroot

/-- `getm(…, fullkey=False)` names a key `common/rel` by `rel` — whatever separators `rel` contains. -/
theorem retKey_relative (keys : List Str) (k rel : Str) (hrel : k = common keys ++ sep :: rel) : retKey keys k = rel :=
  retKey_relative' keys k rel hrel

/-- Without a common path, keys that do not start with a separator (in-memory series) keep their names. -/
theorem retKey_no_common (keys : List Str) (k : Str) (hc : common keys = []) (hk : isAbs k = false) : retKey keys k = k :=
  retKey_no_common' keys k hc hk

/-- Without a common path the relative listing is the listing itself. -/
theorem listRelative_no_common (cwd : Str) (keys : List Str) (hc : common keys = []) :
    listRelative cwd keys none = keys :=
  listRelative_no_common' cwd keys hc

/-- Every registered key selects itself, and only itself, by its full key (keys without `*`/`?`, pairwise distinct, directory
parts normalised). -/
theorem self_select_fullkey (keys : List Str) (hn : keys.Nodup) (hnorm : ∀ k ∈ keys, Normalized (pathDirname k)) (k : Str)
    (hk : k ∈ keys) (hw : ∀ c ∈ k, c ≠ '*' ∧ c ≠ '?') :
    listKeys keys [k] = [k] ∧ getKey keys k = .ok k ∧ contains keys k = true :=
  self_select_fullkey' keys hn hnorm k hk hw

/-- Single retrieval and containment agree with the listing. -/
theorem get_agrees (keys : List Str) (name : Str) :
    (getKey keys name = .error .lookup ↔ listKeys keys [name] = []) ∧
    (getKey keys name = .error .value ↔ 2 ≤ (listKeys keys [name]).length) ∧
    (∀ k, getKey keys name = .ok k ↔ listKeys keys [name] = [k]) ∧
    (contains keys name = true ↔ listKeys keys [name] ≠ []) :=
  get_agrees' keys name

/-- *Partial* (the hypothesis the proof forces): a key `k = common/rel` is selected unambiguously by its listed relative
name `rel` provided no other key ends in `/rel`. Without that hypothesis the statement is false (`ambiguous`, F18). -/
theorem self_select_relative_partial (keys : List Str) (rel k : Str) (hk : k ∈ keys) (hn : keys.Nodup)
    (hcm : common keys ≠ []) (hrel : k = common keys ++ '/' :: rel) (hw : ∀ c ∈ rel, c ≠ '*' ∧ c ≠ '?')
    (hp : (common keys).isPrefixOf rel = false)
    (huniq : ∀ k' ∈ keys, k' ≠ k → ('/' :: rel).isSuffixOf k' = false) :
    listKeys keys [rel] = [k] :=
  self_select_relative_partial' keys rel k hk hn hcm hrel hw hp huniq


/-- The general statement "every key is selected unambiguously by its listed relative name" is false for the code as it
is (finding F18): with `f.ts` and `sub/f.ts` loaded, the listed name `f.ts/x` of the first key matches both. -/
theorem ambiguous_relative_counterexample :
    let keys := ["/r/f.ts/x".toList, "/r/sub/f.ts/x".toList]
    listRelative "/w".toList keys none = ["f.ts/x".toList, "sub/f.ts/x".toList] ∧
      listKeys keys ["f.ts/x".toList] = keys := by
  decide +kernel

/-- A single series whose name carries unit brackets with a `/`: the common path is the file, the listed relative name is
the series name, and both the relative name and the full key select it. -/
theorem single_series_bracket :
    let k := "/d/g.ts/Tension [kN/m]".toList
    common [k] = "/d/g.ts".toList ∧ listRelative "/w".toList [k] none = ["Tension [kN/m]".toList] ∧
      listKeys [k] ["Tension [kN/m]".toList] = [k] ∧ listKeys [k] [k] = [k] := by
  decide +kernel

/-- Regression (F33–F35): two series of one file whose unit brackets contain `/`. The common path is the file (not
`…/A [kN`), the relative names are the series names, and a relative name selects its key and is returned by `getm`. -/
theorem bracket_stem_roundtrip :
    let keys := ["/d/f.ts/A [kN/m]".toList, "/d/f.ts/A [kN/s]".toList]
    common keys = "/d/f.ts".toList ∧ listRelative "/w".toList keys none = ["A [kN/m]".toList, "A [kN/s]".toList] ∧
      listKeys keys ["A [kN/m]".toList] = ["/d/f.ts/A [kN/m]".toList] ∧ retKey keys "/d/f.ts/A [kN/m]".toList = "A [kN/m]".toList := by
  decide +kernel

/-- Regression (F33–F35), in-memory variant: the same two names registered without a file. There is no common path, the
relative listing is the keys themselves, each name selects itself and `getm` keeps the names. -/
theorem bracket_stem_roundtrip_in_memory :
    let keys := ["A [kN/m]".toList, "A [kN/s]".toList]
    common keys = [] ∧ listRelative "/w".toList keys none = keys ∧
      listKeys keys ["A [kN/m]".toList] = ["A [kN/m]".toList] ∧ listKeys keys ["A [kN/s]".toList] = ["A [kN/s]".toList] ∧
      retKey keys "A [kN/m]".toList = "A [kN/m]".toList ∧ retKey keys "A [kN/s]".toList = "A [kN/s]".toList := by
  decide +kernel

end Qats.Props.C09
