import Qats.Lemmas.PipelineMain
import Qats.Lemmas.SmoothMain
import Qats.Lemmas.PipelineGen
/-!
# C11 — the processing pipeline means what its options say

Property theorems only, over any linearly ordered field (exact arithmetic). Tapering, filtering and smoothing are abstract
stage functions: the theorems fix *where*, *in which order* and *with which sampling interval* they are applied; the
correspondence check instantiates them with non-commuting tag functions on both sides. Float grids are searched (F7, fixed).
The two stages written in qats itself — the Tukey taper about the mean and the moving-average smoothing — are also modelled
concretely (`Qats.Smooth`, executed against `qats.signal.taper` / `smooth` / `TimeSeries.get`), which discharges the
length hypothesis of `get_equal_length` for them (`get_equal_length_concrete`).
-/
namespace Qats.Props.C11
open Qats Qats.Pipeline
set_option linter.unusedSectionVars false
variable {α : Type} [Field α] [LinearOrder α] [IsStrictOrderedRing α]

/-- The windowed arrays have equal length and are exactly the sample pairs whose time lies in the closed window, in order. -/
theorem window_spec (a b : α) (t x : List α) (hl : t.length = x.length) :
    (window a b t x).1.length = (window a b t x).2.length ∧
    List.zip (window a b t x).1 (window a b t x).2 = (List.zip t x).filter (fun p => decide (a ≤ p.1 ∧ p.1 ≤ b)) :=
  window_spec' a b t x hl

theorem interp_at_nodes (t x : List α) (hl : t.length = x.length) (ht : Increasing t) (i : Nat) (ti xi : α)
    (hti : t[i]? = some ti) (hxi : x[i]? = some xi) : interp t x ti = some xi :=
  interp_at_nodes' t x hl ht i ti xi hti hxi

/-- Between two consecutive nodes the value is the linear interpolant (hence a convex combination of the neighbours). -/
theorem interp_between (t x : List α) (hl : t.length = x.length) (ht : Increasing t) (i : Nat) (t0 t1 x0 x1 q : α)
    (h0 : t[i]? = some t0) (h1 : t[i + 1]? = some t1) (hx0 : x[i]? = some x0) (hx1 : x[i + 1]? = some x1)
    (hq0 : t0 ≤ q) (hq1 : q ≤ t1) :
    interp t x q = some (x0 + (x1 - x0) / (t1 - t0) * (q - t0)) ∧
      min x0 x1 ≤ x0 + (x1 - x0) / (t1 - t0) * (q - t0) ∧ x0 + (x1 - x0) / (t1 - t0) * (q - t0) ≤ max x0 x1 :=
  interp_between' t x hl ht i t0 t1 x0 x1 q h0 h1 hx0 hx1 hq0 hq1

/-- No extrapolation: outside `[t₀, t_last]` there is no value (the code raises). -/
theorem interp_outside (t x : List α) (hl : t.length = x.length) (ht : Increasing t) (lo hi q : α)
    (hlo : t.head? = some lo) (hhi : t.getLast? = some hi) (hq : q < lo ∨ hi < q) : interp t x q = none :=
  interp_outside' t x hl ht lo hi q hlo hhi hq

/-- Inside the span there always is a value. -/
theorem interp_inside (t x : List α) (hl : t.length = x.length) (ht : Increasing t) (lo hi q : α)
    (hlo : t.head? = some lo) (hhi : t.getLast? = some hi) (h0 : lo ≤ q) (h1 : q ≤ hi) : ∃ v, interp t x q = some v :=
  interp_inside' t x hl ht lo hi q hlo hhi h0 h1

/-- `new_timearray(t0, t1, d)` for `t0 < t1`, `0 < d` and a span of at least half a step: `k + 1` equidistant points
from `t0` to `t1` where `k = round((t1 − t0)/d)` is the integer closest to the requested number of steps, i.e. the spacing
`(t1 − t0)/k` is the one closest to `d` in the sense `|(t1−t0)/d − k| ≤ 1/2`. -/
theorem grid_spec (rnd : α → Int) (hr : IsRound rnd) (t0 t1 d : α) (h01 : t0 < t1) (hd : 0 < d)
    (hk : 1 ≤ rnd ((t1 - t0) / d)) :
    let k := (rnd ((t1 - t0) / d)).toNat
    (newTimearray rnd t0 t1 d).length = k + 1 ∧
    (newTimearray rnd t0 t1 d).head? = some t0 ∧ (newTimearray rnd t0 t1 d).getLast? = some t1 ∧
    (∀ i, i ≤ k → (newTimearray rnd t0 t1 d)[i]? = some (t0 + (i : α) * ((t1 - t0) / (k : α)))) ∧
    |((k : Nat) : α) - (t1 - t0) / d| ≤ 1 / 2 :=
  grid_spec' rnd hr t0 t1 d h01 hd hk

/-- Without options the stored arrays are returned. -/
theorem get_no_options (rnd : α → Int) (st : Stages α) (t x : List α) :
    get rnd st t x {} = .ok (t, x) :=
  get_no_options' rnd st t x

/-- Stage order and the filter's sampling interval: with a window only (uniform series or no filter), the result is
`smooth (filter (t'[1] − t'[0]) (taper x'))` on the windowed arrays `(t', x')`, each stage applied iff requested. -/
theorem get_window_stages (rnd : α → Int) (st : Stages α) (t x : List α) (a b : α) (tp fl sm : Bool)
    (hc : fl = true → isConstantDt t = true) (t0 t1 : α) (rest : List α)
    (hw : (window a b t x).1 = t0 :: t1 :: rest) :
    get rnd st t x { twin := some (a, b), taper := tp, filter := fl, smooth := sm } =
      .ok ((window a b t x).1,
        (fun v => if sm then st.smooth v else v)
          ((fun v => if fl then st.filter (t1 - t0) v else v)
            ((fun v => if tp then st.taper v else v) (window a b t x).2))) :=
  get_window_stages' rnd st t x a b tp fl sm hc t0 t1 rest hw

/-- Resampling to a step after windowing: the grid runs from the first to the last retained sample, the data are the
linear interpolation of the *stored* series on it, then taper → filter (with the grid's spacing) → smooth. -/
theorem get_resample_step_stages (rnd : α → Int) (st : Stages α) (t x : List α) (tw : Option (α × α)) (d : α)
    (tp fl sm : Bool) (lo hi : α) (g0 g1 : α) (grest xs : List α)
    (hlo : (match tw with | some (a, b) => (window a b t x).1 | none => t).head? = some lo)
    (hhi : (match tw with | some (a, b) => (window a b t x).1 | none => t).getLast? = some hi)
    (hg : newTimearray rnd lo hi d = g0 :: g1 :: grest) (hi' : interpAll t x (g0 :: g1 :: grest) = some xs) :
    get rnd st t x { twin := tw, resample := some (.step d), taper := tp, filter := fl, smooth := sm } =
      .ok (g0 :: g1 :: grest,
        (fun v => if sm then st.smooth v else v)
          ((fun v => if fl then st.filter (g1 - g0) v else v)
            ((fun v => if tp then st.taper v else v) xs))) :=
  get_resample_step_stages' rnd st t x tw d tp fl sm lo hi g0 g1 grest xs hlo hhi hg hi'

/-- Resampling to a given array: the returned time is that array, the data its interpolation; outside the stored span
the call fails instead of extrapolating; combining it with a window is refused. -/
theorem get_resample_times (rnd : α → Int) (st : Stages α) (t x ts : List α) :
    (∀ xs, interpAll t x ts = some xs → get rnd st t x { resample := some (.times ts) } = .ok (ts, xs)) ∧
    (interpAll t x ts = none → get rnd st t x { resample := some (.times ts) } = .error .bounds) ∧
    (∀ a b, get rnd st t x { twin := some (a, b), resample := some (.times ts) } = .error .assertion) :=
  get_resample_times' rnd st t x ts

/-- Time and data always have equal length (for stages that keep the length, as taper / filters / smoothing do). -/
theorem get_equal_length (rnd : α → Int) (st : Stages α) (t x : List α) (o : Opts α) (hl : t.length = x.length)
    (hst : (∀ v, (st.taper v).length = v.length) ∧ (∀ dt v, (st.filter dt v).length = v.length) ∧
      (∀ v, (st.smooth v).length = v.length))
    (t' x' : List α) (h : get rnd st t x o = .ok (t', x')) : t'.length = x'.length :=
  get_equal_length' rnd st t x o hl hst t' x' h

/-- `resample(dt)` on a series of positive duration with `0 < dt ≤ duration` succeeds, and every new time
`start + i·dt` lies inside the original span. (`k = ⌈(end − start)/dt⌉` is `np.arange`'s length.) -/
theorem resample_step_inside [FloorRing α] (t x : List α) (hl : t.length = x.length) (ht : Increasing t) (lo hi d : α)
    (hlo : t.head? = some lo) (hhi : t.getLast? = some hi) (hd : 0 < d) (hdur : d ≤ hi - lo) :
    (∀ q ∈ arange lo d (Nat.ceil ((hi - lo) / d)), lo ≤ q ∧ q < hi) ∧
    ∃ xs, resampleStep t x d (Nat.ceil ((hi - lo) / d)) = some xs ∧ xs.length = Nat.ceil ((hi - lo) / d) :=
  resample_step_inside' t x hl ht lo hi d hlo hhi hd hdur


/-! ## the stages written in qats itself: Tukey taper about the mean, moving-average smoothing -/

/-- Smoothing returns as many samples as it is given (any window weights, odd or even window length). -/
theorem smooth_keeps_length (w x y : List α) (h : Qats.Smooth.smooth w x = .ok y) : y.length = x.length :=
  Qats.Smooth.smooth_length' w x y h

/-- A signal shorter than the window — or, for windows of three samples and more, exactly as long (the reflected copy in
front needs one sample beyond the window; F53) — is rejected; windows of fewer than three samples leave the signal unchanged. -/
theorem smooth_rejects_short (w x : List α) :
    ((x.length < w.length ∨ (3 ≤ w.length ∧ x.length = w.length)) → Qats.Smooth.smooth w x = .error .tooShort) ∧
    (w.length ≤ x.length → w.length < 3 → Qats.Smooth.smooth w x = .ok x) :=
  ⟨Qats.Smooth.smooth_short' w x, Qats.Smooth.smooth_small_window' w x⟩

/-- The moving average (any window with non-zero weight sum) of a constant signal is that constant: smoothing adds no
offset and the point-reflected end extension does not disturb a constant level. -/
theorem smooth_constant (w : List α) (hw : Qats.Smooth.sum w ≠ 0) (h3 : 3 ≤ w.length) (n : Nat) (hn : w.length < n) (c : α) :
    Qats.Smooth.smooth w (List.replicate n c) = .ok (List.replicate n c) :=
  Qats.Smooth.smooth_const' w hw h3 n hn c

/-- The tapering stage keeps the length, and every sample on the flat part of the Tukey window
(`α·n/2 ≤ i ≤ n·(1 − α/2)`) passes it unchanged — whatever the mean level. -/
theorem taper_stage_spec [TranscOps α] (alpha : α) (x : List α) :
    (Qats.Smooth.taperStage alpha x).length = x.length ∧
    ∀ (i : Nat) (xi : α), x[i]? = some xi → alpha * (x.length : α) / 2 ≤ (i : α) → (i : α) ≤ (x.length : α) * (1 - alpha / 2) →
      (Qats.Smooth.taperStage alpha x)[i]? = some xi :=
  ⟨Qats.Smooth.taperStage_length' alpha x, fun i xi hx h1 h2 => Qats.Smooth.taperStage_flat' alpha x i xi hx h1 h2⟩

/-- Over the reals every Tukey weight lies in `[0, 1]`: tapering never amplifies the fluctuation about the mean. -/
theorem tukey_weight_range (alpha : ℝ) (n i : Nat) :
    0 ≤ Qats.Smooth.tukeyWeight alpha n i ∧ Qats.Smooth.tukeyWeight alpha n i ≤ 1 :=
  Qats.Smooth.tukeyWeight_range' alpha n i

/-- The stages as the code itself implements them (the filter stays a parameter: it is scipy's, C12). A smoothing that
rejects its input makes `get` raise; as a total stage function it is the identity there. -/
def concreteStages [TranscOps α] (alpha : α) (w : List α) (filter : α → List α → List α) : Stages α :=
  { taper := Qats.Smooth.taperStage alpha,
    filter := filter,
    smooth := fun v => match Qats.Smooth.smooth w v with
      | .ok y => y
      | .error _ => v }

/-- Time and data have equal length with the code's own taper and smoothing, for every window length and weight list
and every length-preserving filter: the hypothesis of `get_equal_length` on these two stages is a theorem. -/
theorem get_equal_length_concrete [TranscOps α] (rnd : α → Int) (alpha : α) (w : List α) (filter : α → List α → List α)
    (hf : ∀ dt v, (filter dt v).length = v.length) (t x : List α) (o : Opts α) (hl : t.length = x.length)
    (t' x' : List α) (h : get rnd (concreteStages alpha w filter) t x o = .ok (t', x')) : t'.length = x'.length := by
  refine get_equal_length rnd (concreteStages alpha w filter) t x o hl ⟨?_, hf, ?_⟩ t' x' h
  · intro v; exact Qats.Smooth.taperStage_length' alpha v
  · intro v
    show (match Qats.Smooth.smooth w v with | .ok y => y | .error _ => v).length = v.length
    cases hs : Qats.Smooth.smooth w v with
    | ok y => exact Qats.Smooth.smooth_length' w v y hs
    | error e => rfl

/-- Non-vacuity / regression (F53): a moving average over 4 samples (even window) of 0, 1, 4, 9, 16 keeps five samples;
a window as long as the signal is rejected. -/
example : (Qats.Smooth.smooth [1, 1, 1, 1] ([0, 1, 4, 9, 16] : List Rat)).toOption.map List.length = some 5 ∧
    Qats.Smooth.smooth [1, 1, 1, 1, 1] ([0, 1, 4, 9, 16] : List Rat) = .error .tooShort := by decide +kernel

/-- Non-vacuity: window, taper (+1) and filter (2x + dt) on a quadratic sampled at 0..4; dt seen by the filter is 1. -/
example : get (fun _ => 0) ⟨fun x => x.map (· + 1), fun dt x => x.map fun v => 2 * v + dt, id⟩
    ([0, 1, 2, 3, 4] : List Rat) [0, 1, 4, 9, 16] { twin := some (1, 3), taper := true, filter := true }
    = .ok ([1, 2, 3], [5, 11, 21]) := by decide +kernel

/-- The resampling grid is built from the ratio **as written in the source**: `Qats.Gen.grid_ratio` is the argument of `round` in
the helper `new_timearray` of `TimeSeries.get`, regenerated from `qats/ts.py` by the translator on every run (`int()` instead of
`round`, a swapped difference or a product instead of the quotient fail this proof or the correspondence of `rnd`). -/
theorem newTimearray_ratio_is_source (rnd : ℝ → Int) (t0 t1 d : ℝ) :
    newTimearray rnd t0 t1 d = linspace t0 t1 ((rnd (Qats.Gen.grid_ratio d t0 t1)).toNat + 1) :=
  newTimearray_ratio_is_source' rnd t0 t1 d

end Qats.Props.C11
