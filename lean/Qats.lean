-- This module serves as the root of the `Qats` library.
-- Import modules here that should be built as part of the library.
import Qats.Basic
