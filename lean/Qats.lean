-- Root of the `Qats` library: every property module (and through them models, generated formulas and lemmas).
import Qats.Props.C02
import Qats.Props.C03
import Qats.Props.C05
import Qats.Props.C06
import Qats.Props.C15
import Qats.Props.C16
import Qats.Props.C17
import Qats.Props.C20
import Qats.Driver
