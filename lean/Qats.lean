-- Root of the `Qats` library: every property module (and through them models, generated formulas and lemmas).
import Qats.Props.C02
import Qats.Props.C03
import Qats.Props.C05
import Qats.Props.C06
import Qats.Props.C15
import Qats.Props.C16
import Qats.Props.C17
import Qats.Props.C20
import Qats.Props.C04
import Qats.Props.C08
import Qats.Props.C09
import Qats.Props.C10
import Qats.Props.C11
import Qats.Props.C14
import Qats.Driver
