import Qats.Driver
/-!
Line protocol driver: `lake env lean --run Driver.lean < ops.txt`.
One request per line; one reply per line (`ok …`, `err …` or `bad-op`).
-/
partial def loop (h : IO.FS.Stream) (out : IO.FS.Stream) : IO Unit := do
  let line ← h.getLine
  if line.isEmpty then return ()
  let toks := (line.trimAscii.toString.splitOn " ").filter (· ≠ "")
  out.putStrLn (Qats.Driver.dispatch toks)
  loop h out

def main : IO Unit := do
  let out ← IO.getStdout
  loop (← IO.getStdin) out
  out.flush
