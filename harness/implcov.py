"""Implementation-side tie coverage: which lines of the anchored source files did this run of the check execute?

The correspondence / oracle streams tie the Lean model to /repo only on the code they actually run.  This module records, with
Python 3.12's `sys.monitoring` (LINE events, disabled per location after the first hit, so the overhead is negligible), every
line of `qats/**/*.py` that is executed in this process while the harness of a property runs, and reports per anchored file
(the `anchors.files` of the property in properties.jsonl) the executed / executable lines and, per function, the lines that were
never executed.  It is a report, never a verdict: a function of the anchored code that the check does not execute is a blind spot
of the tie (a change there cannot be seen), and the list is what the generators are extended from (DESIGN.md section 9.7).
"""
import json
import os
import sys

from . import core

_hits = set()
_tool = None
_root = None


def _code_lines(code, qual, out):
    """executable lines of a code object and of the code objects nested in it: {qualname: (firstlineno, set(lines))}"""
    lines = set(l for (_, _, l) in code.co_lines() if l is not None)
    nested = [c for c in code.co_consts if hasattr(c, "co_code")]
    # the `def` / `class` line of a nested object belongs to the enclosing one; the nested one's own lines are reported under it
    out[qual] = (code.co_firstlineno, lines)
    for c in nested:
        if c.co_name in ("<listcomp>", "<genexpr>", "<dictcomp>", "<setcomp>", "<lambda>"):
            q = qual + "." + c.co_name + "@%d" % c.co_firstlineno
        else:
            q = (qual + "." if qual != "<module>" else "") + c.co_name
        _code_lines(c, q, out)


def start():
    """switch the line recorder on (no-op on interpreters without sys.monitoring)"""
    global _tool, _root
    mon = getattr(sys, "monitoring", None)
    if mon is None:
        return False
    _root = os.path.realpath(os.path.join(core.REPO, "qats")) + os.sep
    _tool = mon.COVERAGE_ID
    try:
        mon.use_tool_id(_tool, "qats-verif-implcov")
    except ValueError:
        return False
    cache = {}

    def on_line(code, line):
        fn = code.co_filename
        ok = cache.get(fn)
        if ok is None:
            ok = cache[fn] = os.path.realpath(fn).startswith(_root)
        if ok:
            _hits.add((fn, line))
        return mon.DISABLE

    mon.register_callback(_tool, mon.events.LINE, on_line)
    mon.set_events(_tool, mon.events.LINE)
    return True


def stop():
    mon = getattr(sys, "monitoring", None)
    if mon is None or _tool is None:
        return
    try:
        mon.set_events(_tool, 0)
        mon.register_callback(_tool, mon.events.LINE, None)
        mon.free_tool_id(_tool)
    except Exception:
        pass


def anchored_files(pid):
    for l in open(os.path.join(core.VERIF, "properties.jsonl")):
        p = json.loads(l)
        if p["id"] == pid:
            return list(p.get("anchors", {}).get("files", []))
    return []


def report(pid, cap=120):
    """{files: {path: [hit, total]}, never_executed: [...], partly_executed: {func: [lines]}} for the property's anchored files"""
    hits_by_file = {}
    for fn, line in _hits:
        hits_by_file.setdefault(os.path.realpath(fn), set()).add(line)
    files, never, partly = {}, [], {}
    for rel in anchored_files(pid):
        path = os.path.realpath(os.path.join(core.REPO, rel))
        if not os.path.isfile(path):
            files[rel] = "missing"
            continue
        try:
            code = compile(open(path, encoding="utf-8").read(), path, "exec")
        except SyntaxError as e:
            files[rel] = "syntax error: %s" % e
            continue
        funcs = {}
        _code_lines(code, "<module>", funcs)
        hit = hits_by_file.get(path, set())
        tot = set()
        for q, (first, lines) in sorted(funcs.items(), key=lambda kv: kv[1][0]):
            if q == "<module>":
                continue
            body = set(l for l in lines if l != first)
            if not body:
                continue
            tot |= body
            missed = sorted(body - hit)
            if not missed:
                continue
            if len(missed) == len(body):
                never.append("%s:%s" % (rel, q))
            else:
                partly["%s:%s" % (rel, q)] = missed
        files[rel] = [len(tot & hit), len(tot)]
    out = dict(files=files, functions_never_executed=never[:cap],
               functions_partly_executed={k: v[:40] for k, v in list(partly.items())[:cap]},
               note="lines of the property's anchored files executed in the harness process on this run (sys.monitoring); "
                    "a report about the reach of the tie, not a verdict")
    return out
