"""
Python-AST -> Lean formula translator (DESIGN.md section 2.2).

On every run `regenerate()` parses /repo/qats/**/*.py, extracts the anchored expressions listed in ANCHORS,
translates straight-line arithmetic into operator-polymorphic Lean definitions and writes
  lean/Qats/Gen/Formulas.lean      the definitions (core Lean only)
  lean/Qats/Gen/DriverGen.lean     line-protocol handlers `gen.<name> <float bits…>` executing them at α := Float
(only rewritten when the text changes, so unchanged sources cost no rebuild).

The property theorems in Qats/Props are stated about these generated definitions; an edit of a formula in /repo
is therefore re-proved (or fails to be) by the kernel on the next run.

Supported: names, `self.attr`, numeric literals (emitted as scientific literals), + - * / **, unary minus,
comparisons, calls of np.log/exp/sqrt/log10/sin/cos/radians, scipy gamma (`gamma`, `gammafunc`), np.pi,
local single-assignment inlining, subscripts `x[mask]` (element-wise reading).  Anything else raises
TranslateError for that anchor: its definition is then missing from the generated file, the proofs depending on it
fail to build, and the check proceeds to the failing-input search (DESIGN.md section 2.5).
"""
import ast
import os
import re

from . import core

GEN_DIR = os.path.join(core.LEAN, "Qats", "Gen")


class TranslateError(Exception):
    pass


# name, file, function (qualified), pick, [inline], [rename], [bool]
#   pick = ("assign", "<target text>", k)   RHS of the k-th assignment (source order) to that target
#        = ("return", k)                    value of the k-th return statement
#        = ("retitem", k, i)                i-th element of the tuple returned by the k-th return
A = []


def anchor(name, params, file, func, pick, inline="all", rename=None, ret="α"):
    """`params` is the fixed parameter list of the generated definition (so that models and theorems using it keep
    compiling when an edit of the source adds or drops a variable); a free variable outside the list is an error."""
    A.append(dict(name=name, params=params.split(), file=file, func=func, pick=pick, inline=inline,
                  rename=rename or {}, ret=ret))


SN = "qats/fatigue/sn.py"
anchor("sn_loga2", "loga1 m1 m2 nswitch", SN, "SNCurve.__init__", ("assign", "loga2", 0), inline=[])
anchor("sn_sswitch", "loga1 m1 nswitch", SN, "SNCurve.__init__", ("assign", "sswitch", 0), inline=[])
anchor("sn_a2", "loga2", SN, "SNCurve.__init__", ("assign", "a2", 0), inline=[])
anchor("sn_n_single", "loga1 m1 s tcorr", SN, "SNCurve.n", [("assign", "n", 0), ("return", 0)], inline=[])
anchor("sn_mask", "s sswitch tcorr", SN, "SNCurve.n", [("assign", "ind", 0), ("compare", "sswitch", 0)], inline=[], ret="Bool")
anchor("sn_n_upper", "loga1 m1 s tcorr", SN, "SNCurve.n", [("assign", "n[ind]", 0), ("assign_sub", "n", 0)], inline=[])
anchor("sn_n_lower", "loga2 m2 s tcorr", SN, "SNCurve.n", [("assign", "n[~ind]", 0), ("assign_sub", "n", 1)], inline=[])
anchor("sn_strength", "loga m n tcorr", SN, "SNCurve.fatigue_strength", [("assign", "s", 0), ("return", -1)], inline=[])
anchor("sn_strength_mask", "n nswitch", SN, "SNCurve.fatigue_strength", [("compare", "nswitch", 0), ("iftest", 1, 1)], inline=[], ret="Bool")
anchor("sn_tcorr", "t t_exp t_ref", SN, "SNCurve.thickness_correction", [("assign", "tcorr", 0), ("return", -1)], inline=[])
anchor("sn_tcorr_mask", "t t_ref", SN, "SNCurve.thickness_correction", [("compare", "t_ref", 0), ("iftest", 0)], inline=[], ret="Bool")
anchor("sn_mw_single", "a1 h m1 q td v0", SN, "minersum_weibull", ("assign", "d", 1), inline=[],
       rename={"sn.m1": "m1", "sn.a1": "a1"})
anchor("sn_mw_bilinear", "a1 a2 g1 g2 m1 m2 q td v0", SN, "minersum_weibull", ("assign", "d", 0), inline=[],
       rename={"sn.m1": "m1", "sn.a1": "a1", "sn.m2": "m2", "sn.a2": "a2"})
anchor("sn_mw_x", "h q sswitch", SN, "minersum_weibull", ("callarg", r"_?cigf", 0, 1), inline=[], rename={"sn.sswitch": "sswitch"})
anchor("sn_mw_a1", "h m1", SN, "minersum_weibull", ("callarg", r"_?cigf", 0, 0), inline=[], rename={"sn.m1": "m1"})
anchor("sn_mw_a2", "h m2", SN, "minersum_weibull", ("callarg", r"_?igf", 0, 0), inline=[], rename={"sn.m2": "m2"})

WB = "qats/stats/weibull.py"
anchor("wb_kurt", "shape", WB, "Weibull.kurt", ("return", 0))
anchor("wb_skew", "shape", WB, "Weibull.skew", ("return", 0))
anchor("wb_std", "scale shape", WB, "Weibull.std", ("return", 0))
anchor("wb_mean", "loc scale shape", WB, "Weibull.mean", ("return", 0))
anchor("wb_cdf", "loc scale shape x", WB, "Weibull.cdf", [("assign", "p", 0), ("return", -1)], inline=[])
anchor("wb_pdf", "loc scale shape x", WB, "Weibull.pdf", [("assign", "p", 0), ("return", -1)], inline=[])
anchor("wb_invcdf", "loc p scale shape", WB, "Weibull.invcdf", [("assign", "x[(p >= 0.0) & (p < 1.0)]", 0), ("assign_sub", "x", 2)], inline=[])
anchor("w2g_loc", "loc n scale shape", WB, "weibull2gumbel", ("assign", "gloc", 0), inline=[])
anchor("w2g_scale", "n scale shape", WB, "weibull2gumbel", ("assign", "gscale", 0), inline=[])
anchor("wb_pwm_c", "m100 m110 m120 m130", WB, "pwm", ("assign", "c", 0), inline=[])
anchor("wb_pwm_a", "m100 m110 m120 m130", WB, "pwm", ("assign", "a", 0), inline=[])
anchor("wb_pwm_b", "a c m100", WB, "pwm", ("assign", "b", 0), inline=[])
anchor("wb_pwm2_c", "m100 m110", WB, "pwm2", ("assign", "c", 0), inline=[])
anchor("wb_pwm2_b", "c m100", WB, "pwm2", ("assign", "b", 0), inline=[])
anchor("wb_msm_b", "g1 g2 m2", WB, "msm", ("assign", "b", 0), inline=[])
anchor("wb_msm_a", "a1 b g1", WB, "msm", ("assign", "a", 0), inline=[])
anchor("wb_msm_g1", "c", WB, "msm", ("assign", "g1", 0), inline=[])
anchor("wb_msm_g2", "c", WB, "msm", ("assign", "g2", 0), inline=[])
anchor("wb_msm_eq", "shape shape0", WB, "msm.f", ("assign", "eq", 0), inline=[])

anchor("wfw_loc", "n wa wb wc", "qats/stats/gumbel.py", "Gumbel.fit_from_weibull_parameters", ("assign", "loc", 0), inline=[])
anchor("wfw_scale", "n wb wc", "qats/stats/gumbel.py", "Gumbel.fit_from_weibull_parameters", ("assign", "scale", 0), inline=[])

GU = "qats/stats/gumbel.py"
anchor("gu_kurt", "", GU, "Gumbel.kurt", ("return", 0))
anchor("gu_mean", "loc scale", GU, "Gumbel.mean", ("return", 0))
anchor("gu_median", "loc scale", GU, "Gumbel.median", ("return", 0))
anchor("gu_mode", "loc", GU, "Gumbel.mode", ("return", 0))
anchor("gu_std", "scale", GU, "Gumbel.std", ("return", 0))
anchor("gu_skew", "", GU, "Gumbel.skew", ("return", 0))
anchor("gu_cdf", "loc scale x", GU, "Gumbel.cdf", [("assign", "p", 0), ("return", -1)], inline=["z"])
anchor("gu_pdf", "loc scale x", GU, "Gumbel.pdf", [("assign", "p", 0), ("return", -1)], inline=["z"])
anchor("gu_invcdf", "loc p scale", GU, "Gumbel.invcdf", [("assign", "x[z]", 0), ("assign_sub", "x", 2)], inline=[])
anchor("gu_msm_b", "sd", GU, "msm", ("assign", "b", 0), inline=[], rename={"np.std(x, ddof=1)": "sd"})
anchor("gu_msm_a", "b mean", GU, "msm", ("assign", "a", 0), inline=[], rename={"x.mean()": "mean"})
anchor("gu_pwm_b", "m0 m1", GU, "pwm", ("assign", "b", 0), inline=[])
anchor("gu_pwm_a", "b m0", GU, "pwm", ("assign", "a", 0), inline=[])

GM = "qats/stats/gumbelmin.py"
anchor("gm_kurt", "", GM, "GumbelMin.kurt", [("assign", "k", 0), ("return", 0)], inline=[])
anchor("gm_mean", "location scale", GM, "GumbelMin.mean", [("assign", "m", 0), ("return", 0)], inline=[])
anchor("gm_median", "location scale", GM, "GumbelMin.median", [("assign", "m", 0), ("return", 0)], inline=[])
anchor("gm_mode", "location", GM, "GumbelMin.mode", [("assign", "m", 0), ("return", 0)], inline=[])
anchor("gm_std", "scale", GM, "GumbelMin.std", [("assign", "s", 0), ("return", 0)], inline=[])
anchor("gm_skew", "", GM, "GumbelMin.skew", [("assign", "s", 0), ("return", 0)], inline=[])
anchor("gm_cdf", "location scale x", GM, "GumbelMin.cdf", [("assign", "p", 0), ("return", -1)], inline=["z"])
anchor("gm_pdf", "location scale x", GM, "GumbelMin.pdf", [("assign", "p", 0), ("return", -1)], inline=["z"])
anchor("gm_invcdf", "location p scale", GM, "GumbelMin.invcdf", [("assign", "x[z]", 0), ("assign_sub", "x", 2)], inline=[])
anchor("gm_msm_b", "sd", GM, "msm", ("assign", "b", 0), inline=[], rename={"np.std(x, ddof=1)": "sd"})
anchor("gm_msm_a", "b mean", GM, "msm", ("assign", "a", 0), inline=[], rename={"x.mean()": "mean"})

EM = "qats/stats/empirical.py"
anchor("ecdf_mean", "i n", EM, "empirical_cdf", ("assign", "f", 0), inline=[])
anchor("ecdf_median", "i n", EM, "empirical_cdf", ("assign", "f", 1), inline=[])
anchor("ecdf_symmetrical", "i n", EM, "empirical_cdf", ("assign", "f", 2), inline=[])
anchor("ecdf_beard", "i n", EM, "empirical_cdf", ("assign", "f", 3), inline=[])
anchor("ecdf_gringorten", "i n", EM, "empirical_cdf", ("assign", "f", 4), inline=[])
CO = "qats/fatigue/corrections.py"
anchor("gh_corrected", "means ranges uts", CO, "goodman_haigh", [("assign", "corrected_ranges", 0), ("return", -1)], inline=[])
SG = "qats/signal.py"
# the Tukey window of `taper` (rising and falling cosine flanks; the flat part is the literal 1)
anchor("tk_rise", "alpha i window_len", SG, "taper", ("assign", "w[i]", 0), inline=[])
anchor("tk_fall", "alpha i window_len", SG, "taper", ("assign", "w[i]", 2), inline=[])
# the normalised cut-off frequencies handed to scipy.signal.butter by the four frequency filters (second positional argument;
# the locals `nyq` / `normal_cutoff` are inlined, so the generated definition is an expression in `dt` and the cut-offs in Hz)
anchor("flt_lp_wn", "dt fc", SG, "lowpass", ("callarg", r"(?:\w+\.)*butter", 0, 1))
anchor("flt_hp_wn", "dt fc", SG, "highpass", ("callarg", r"(?:\w+\.)*butter", 0, 1))
anchor("flt_bp_wn1", "dt flow fupp", SG, "bandpass", ("callarg_elt", r"(?:\w+\.)*butter", 0, 1, 0))
anchor("flt_bp_wn2", "dt flow fupp", SG, "bandpass", ("callarg_elt", r"(?:\w+\.)*butter", 0, 1, 1))
anchor("flt_bs_wn1", "dt flow fupp", SG, "bandblock", ("callarg_elt", r"(?:\w+\.)*butter", 0, 1, 0))
anchor("flt_bs_wn2", "dt flow fupp", SG, "bandblock", ("callarg_elt", r"(?:\w+\.)*butter", 0, 1, 1))
# the sampling frequency handed to scipy.signal.welch by `signal.psd`, and the default segment length of `TimeSeries.psd`
# (the argument of `int(...)`, with the number of samples `x.size` as the parameter `n`)
anchor("psd_fs", "dt", SG, "psd", ("callkw", r"(?:\w+\.)*welch", 0, "fs"))
anchor("psd_nperseg_frac", "n", "qats/ts.py", "TimeSeries.psd", [("callarg", r"int", 0, 0), ("assign", "nperseg", 0)], inline=[],
       rename={"x.size": "n", "np.size(x)": "n", "len(x)": "n"})
# the ratio that `TimeSeries.get` rounds to obtain the number of steps of the resampling grid (argument of `round` in the nested
# helper `new_timearray`), and the ratio that `TimeSeries.stats` rounds to obtain the number of peaks in the statistics duration
TSPY = "qats/ts.py"
anchor("grid_ratio", "d t0 t1", TSPY, ["TimeSeries.get.new_timearray", "new_timearray", "TimeSeries.new_timearray"],
       ("callarg", r"round", 0, 0))
anchor("stats_n_ratio", "duration nmax statsdur", TSPY, "TimeSeries.stats", ("callarg", r"round", 0, 0), inline=[],
       rename={"t[-1] - t[0]": "duration", "(t[-1] - t[0])": "duration", "np.size(mx)": "nmax", "mx.size": "nmax", "len(mx)": "nmax"})
# the three-point rule of `rainflow.cycles`: the ranges X, Y and the mean of Y formed from the three most recent points, and the
# range / mean of the half cycles counted from what remains (p1 newest, p3 oldest)
RF = "qats/fatigue/rainflow.py"
_RFREN = {"points[-1]": "p1", "points[-2]": "p2", "points[-3]": "p3"}
anchor("rf_x", "p1 p2 p3", RF, "cycles", ("assign", "x", 0), inline=[], rename=_RFREN)
anchor("rf_y", "p1 p2 p3", RF, "cycles", ("assign", "y", 0), inline=[], rename=_RFREN)
anchor("rf_m", "p1 p2 p3", RF, "cycles", ("assign", "m", 0), inline=[], rename=_RFREN)
anchor("rf_left_range", "p1 p2", RF, "cycles", ("callarg_elt", r"half\.append", 1, 0, 0), inline=[], rename=_RFREN)
anchor("rf_left_mean", "p1 p2", RF, "cycles", ("callarg_elt", r"half\.append", 1, 0, 1), inline=[], rename=_RFREN)
MO = "qats/motions.py"
for _i in range(3):
    for _j in range(3):
        anchor("mo_r%d%d" % (_i, _j), "rx ry rz", MO, ["transform_motion", "_rotation_matrix", "rotation_matrix"],
               [("assign_elt", "trans", 0, _i, _j), ("return_elt", _i, _j)], inline=[])


# ----------------------------------------------------------------------------------------------------------
# AST utilities
# ----------------------------------------------------------------------------------------------------------
def find_func(tree, qual):
    node = tree
    for part in qual.split("."):
        found = None
        for ch in ast.walk(node) if node is tree else ast.iter_child_nodes(node):
            if isinstance(ch, (ast.FunctionDef, ast.ClassDef)) and ch.name == part:
                found = ch
                break
        if found is None:
            # nested function anywhere below
            for ch in ast.walk(node):
                if isinstance(ch, (ast.FunctionDef, ast.ClassDef)) and ch.name == part and ch is not node:
                    found = ch
                    break
        if found is None:
            raise TranslateError("function %s not found" % qual)
        node = found
    return node


def stmts_in_order(fn):
    """all statements of the function in source order (nested blocks included, nested defs excluded)"""
    out = []

    def rec(body):
        for s in body:
            out.append(s)
            if isinstance(s, (ast.FunctionDef, ast.ClassDef)):
                continue
            for fld in ("body", "orelse", "finalbody"):
                if hasattr(s, fld):
                    rec(getattr(s, fld))
            if isinstance(s, ast.Try):
                for h in s.handlers:
                    rec(h.body)
    rec(fn.body)
    return out


def norm(s):
    return re.sub(r"\s+", " ", s.strip())


def pick_expr(fn, pick):
    """`pick` is one pick or a list of alternatives tried in order (so that common clean-ups of the source — returning
    an expression directly, renaming a mask variable, moving a nested helper — do not lose the anchor)"""
    if isinstance(pick, list):
        errs = []
        for alt in pick:
            try:
                return pick_expr(fn, alt)
            except TranslateError as e:
                errs.append(str(e))
        raise TranslateError("; ".join(errs))
    st = stmts_in_order(fn)
    kind = pick[0]
    if kind == "compare":
        # k-th comparison (source order, anywhere in the function) whose text contains the given substring
        hits = []
        for s_ in st:
            if isinstance(s_, (ast.FunctionDef, ast.ClassDef)):
                continue
            own = [s_.test] if isinstance(s_, (ast.If, ast.While)) else \
                [getattr(s_, f) for f in ("value", "test") if isinstance(getattr(s_, f, None), ast.AST)]
            for root in own:
                for n in ast.walk(root):
                    if isinstance(n, ast.Compare) and pick[1] in norm(ast.unparse(n)) and id(n) not in [id(h[1]) for h in hits]:
                        hits.append((s_, n))
        if len(hits) <= pick[2]:
            raise TranslateError("comparison #%d containing `%s` not found" % (pick[2], pick[1]))
        return hits[pick[2]]
    if kind == "assign_sub":
        # k-th assignment to a subscript of the given name (e.g. `n[mask] = …`, whatever the mask is called)
        hits = [(s_, s_.value) for s_ in st if isinstance(s_, ast.Assign) and len(s_.targets) == 1 and
                isinstance(s_.targets[0], ast.Subscript) and norm(ast.unparse(s_.targets[0].value)) == pick[1]]
        if len(hits) <= pick[2]:
            raise TranslateError("subscript assignment #%d to `%s` not found" % (pick[2], pick[1]))
        return hits[pick[2]]
    if kind == "assign":
        tgt, k = norm(pick[1]), pick[2]
        hits = []
        for s in st:
            if isinstance(s, ast.Assign):
                for t in s.targets:
                    if norm(ast.unparse(t)) == tgt:
                        hits.append((s, s.value))
                    elif isinstance(t, ast.Tuple) and isinstance(s.value, ast.Tuple):
                        for te, ve in zip(t.elts, s.value.elts):
                            if norm(ast.unparse(te)) == tgt:
                                hits.append((s, ve))
            elif isinstance(s, ast.AugAssign) and norm(ast.unparse(s.target)) == tgt:
                hits.append((s, ast.BinOp(left=s.target, op=s.op, right=s.value)))
        if len(hits) <= k:
            raise TranslateError("assignment #%d to `%s` not found" % (k, tgt))
        return hits[k]
    if kind == "return_elt":
        # element [i][j] of the nested list (possibly wrapped in np.array(...)) returned by the function
        hits = [(s_, s_.value) for s_ in st if isinstance(s_, ast.Return) and s_.value is not None]
        for s0, v in hits[::-1]:
            if isinstance(v, ast.Name):
                env0 = local_env(fn, s0)
                v = env0.get(v.id, v)
            if isinstance(v, ast.Call) and v.args:
                v = v.args[0]
            try:
                return s0, v.elts[pick[1]].elts[pick[2]]
            except (AttributeError, IndexError):
                continue
        raise TranslateError("returned matrix element [%d][%d] not found" % (pick[1], pick[2]))
    if kind == "assign_elt":
        s0, v = pick_expr(fn, ("assign", pick[1], pick[2]))
        if isinstance(v, ast.Call) and v.args:
            v = v.args[0]
        try:
            return s0, v.elts[pick[3]].elts[pick[4]]
        except (AttributeError, IndexError):
            raise TranslateError("matrix element [%d][%d] of `%s` not found" % (pick[3], pick[4], pick[1]))
    if kind == "return":
        hits = [(s, s.value) for s in st if isinstance(s, ast.Return) and s.value is not None]
        if not (-len(hits) <= pick[1] < len(hits)):
            raise TranslateError("return #%d not found" % pick[1])
        return hits[pick[1]]
    if kind == "retitem":
        hits = [(s, s.value) for s in st if isinstance(s, ast.Return) and isinstance(s.value, ast.Tuple)]
        if len(hits) <= pick[1] or len(hits[pick[1]][1].elts) <= pick[2]:
            raise TranslateError("return item not found")
        return hits[pick[1]][0], hits[pick[1]][1].elts[pick[2]]
    if kind == "iftest":
        hits = [(s, s.test) for s in st if isinstance(s, ast.If)]
        if len(hits) <= pick[1]:
            raise TranslateError("if #%d not found" % pick[1])
        s, t = hits[pick[1]]
        if len(pick) > 2:
            if not isinstance(t, ast.BoolOp) or len(t.values) <= pick[2]:
                raise TranslateError("if-test operand not found")
            t = t.values[pick[2]]
        return s, t
    if kind == "callarg":
        fname, k, i = pick[1], pick[2], pick[3]
        hits = []
        for s in st:
            if isinstance(s, (ast.FunctionDef, ast.ClassDef)):
                continue
            if hasattr(s, "body"):      # compound statement: only its own test / iterator; the body statements come separately
                roots = [getattr(s, f) for f in ("test", "iter") if isinstance(getattr(s, f, None), ast.AST)]
            else:
                roots = [s]
            for root in roots:
                for n in ast.walk(root):
                    if isinstance(n, ast.Call) and re.fullmatch(fname, norm(ast.unparse(n.func))):
                        hits.append((s, n))
        # de-duplicate (walk of nested statements sees the same call several times)
        seen, uniq = set(), []
        for s, n in hits:
            if id(n) not in seen:
                seen.add(id(n))
                uniq.append((s, n))
        if len(uniq) <= k or len(uniq[k][1].args) <= i:
            raise TranslateError("call #%d of %s not found" % (k, fname))
        return uniq[k][0], uniq[k][1].args[i]
    if kind == "callkw":
        # keyword argument `kw` of the k-th call of the function:  ("callkw", fname, k, kw)
        fname, k, kw = pick[1], pick[2], pick[3]
        hits, seen = [], set()
        for s in st:
            if isinstance(s, (ast.FunctionDef, ast.ClassDef)):
                continue
            roots = [getattr(s, f) for f in ("test", "iter") if isinstance(getattr(s, f, None), ast.AST)] if hasattr(s, "body") else [s]
            for root in roots:
                for n in ast.walk(root):
                    if isinstance(n, ast.Call) and re.fullmatch(fname, norm(ast.unparse(n.func))) and id(n) not in seen:
                        seen.add(id(n))
                        hits.append((s, n))
        if len(hits) <= k:
            raise TranslateError("call #%d of %s not found" % (k, fname))
        for a in hits[k][1].keywords:
            if a.arg == kw:
                return hits[k][0], a.value
        raise TranslateError("keyword %s of call #%d of %s not found" % (kw, k, fname))
    if kind == "callarg_elt":
        # element j of the tuple / list given as i-th argument of the k-th call of the function (a local name is looked up)
        s0, v = pick_expr(fn, ("callarg", pick[1], pick[2], pick[3]))
        if isinstance(v, ast.Name):
            v = local_env(fn, s0).get(v.id, v)
        if isinstance(v, (ast.Tuple, ast.List)) and len(v.elts) > pick[4]:
            return s0, v.elts[pick[4]]
        raise TranslateError("element %d of argument %d of call #%d of %s not found" % (pick[4], pick[3], pick[2], pick[1]))
    raise TranslateError("bad pick " + repr(pick))


def local_env(fn, upto):
    """most recent simple assignments `name = expr` before statement `upto` (source order)"""
    env = {}
    for s in stmts_in_order(fn):
        if s is upto:
            break
        if isinstance(s, ast.Assign) and len(s.targets) == 1:
            t = s.targets[0]
            if isinstance(t, ast.Name):
                env[t.id] = s.value
            elif isinstance(t, ast.Tuple) and isinstance(s.value, ast.Tuple) and len(t.elts) == len(s.value.elts):
                for te, ve in zip(t.elts, s.value.elts):
                    if isinstance(te, ast.Name):
                        env[te.id] = ve
    return env


FUNCS1 = {"np.log": "TranscOps.log", "np.exp": "TranscOps.exp", "np.sqrt": "TranscOps.sqrt", "np.log10": "TranscOps.log10",
          "np.sin": "TranscOps.sin", "np.cos": "TranscOps.cos", "gamma": "TranscOps.gamma", "gammafunc": "TranscOps.gamma",
          "abs": "TranscOps.abs", "np.abs": "TranscOps.abs"}


def lit(v):
    f = float(v)
    if f != f or f in (float("inf"), float("-inf")):
        raise TranslateError("non-finite literal")
    if f < 0:
        return "(-%s)" % lit(-f)
    r = repr(f)
    if "e" in r:
        m, e = r.split("e")
        if "." not in m:
            m += ".0"
        return "(%se%d : α)" % (m, int(e))
    return "(%s : α)" % r


class Tr:
    def __init__(self, anchor, env, params_fixed=None):
        self.a = anchor
        self.env = env
        self.params = []
        self.is_bool = False
        self.depth = 0

    def param(self, name):
        name = self.a["rename"].get(name, name)
        name = re.sub(r"[^A-Za-z0-9_]", "_", name)
        if name in ("fun", "let", "in", "at", "end", "from", "open", "do", "then", "else", "if", "by", "show", "have"):
            name += "_"
        if name not in self.params:
            self.params.append(name)
        return name

    def tr(self, e):
        self.depth += 1
        if self.depth > 400:
            raise TranslateError("expression too deep (recursive inlining?)")
        try:
            return self._tr(e)
        finally:
            self.depth -= 1

    def _tr(self, e):
        if not isinstance(e, (ast.Constant, ast.Name)):
            txt0 = norm(ast.unparse(e))
            if txt0 in self.a["rename"]:
                return self.param(txt0)
        if isinstance(e, ast.Constant):
            if isinstance(e.value, bool) or not isinstance(e.value, (int, float)):
                raise TranslateError("unsupported constant %r" % (e.value,))
            return lit(e.value)
        if isinstance(e, ast.Name) and isinstance(self.env.get(e.id), _Frozen):
            fz = self.env[e.id]
            saved = self.env
            self.env = fz.env
            try:
                return self.tr(fz.expr)
            finally:
                self.env = saved
        if isinstance(e, ast.Name):
            inline = self.a["inline"]
            # a local variable is inlined when the anchor asks for it, or — so that introducing a temporary in the source is
            # harmless — whenever it is not one of the declared parameters of the generated definition
            if e.id in self.env and (inline == "all" or e.id in inline or
                                     self.a["rename"].get(e.id, e.id) not in self.a["params"]):
                return self.tr(self.env[e.id])
            return self.param(e.id)
        if isinstance(e, ast.Attribute):
            txt = norm(ast.unparse(e))
            if txt in ("np.pi", "math.pi"):
                return "(TranscOps.pi : α)"
            if txt in self.a["rename"]:
                return self.param(txt)
            if isinstance(e.value, ast.Name) and e.value.id == "self":
                return self.param(e.attr)
            raise TranslateError("unsupported attribute " + txt)
        if isinstance(e, ast.Subscript):
            # element-wise reading of  x[mask]
            return self.tr(e.value)
        if isinstance(e, ast.UnaryOp):
            if isinstance(e.op, ast.USub):
                return "(-%s)" % self.tr(e.operand)
            if isinstance(e.op, ast.UAdd):
                return self.tr(e.operand)
            raise TranslateError("unsupported unary op")
        if isinstance(e, ast.BinOp):
            if isinstance(e.op, ast.Pow):
                ex = e.right
                if isinstance(ex, ast.Constant) and isinstance(ex.value, (int, float)) and float(ex.value) in (2.0, 3.0, 4.0):
                    b = self.tr(e.left)
                    return "(" + " * ".join([b] * int(float(ex.value))) + ")"
                return "(TranscOps.rpow %s %s)" % (self.tr(e.left), self.tr(e.right))
            op = {ast.Add: "+", ast.Sub: "-", ast.Mult: "*", ast.Div: "/"}.get(type(e.op))
            if op is None:
                raise TranslateError("unsupported operator " + type(e.op).__name__)
            return "(%s %s %s)" % (self.tr(e.left), op, self.tr(e.right))
        if isinstance(e, ast.Compare):
            if len(e.ops) != 1:
                raise TranslateError("chained comparison")
            op = {ast.Lt: "<", ast.LtE: "≤", ast.Gt: ">", ast.GtE: "≥"}.get(type(e.ops[0]))
            if op is None:
                raise TranslateError("unsupported comparison")
            self.is_bool = True
            return "(decide (%s %s %s))" % (self.tr(e.left), op, self.tr(e.comparators[0]))
        if isinstance(e, ast.Call):
            fn = norm(ast.unparse(e.func))
            if e.keywords:
                raise TranslateError("keyword arguments in call of " + fn)
            if fn in FUNCS1 and len(e.args) == 1:
                return "(%s %s)" % (FUNCS1[fn], self.tr(e.args[0]))
            if fn in ("np.radians", "np.deg2rad") and len(e.args) == 1:
                return "(%s * ((TranscOps.pi : α) / (180.0 : α)))" % self.tr(e.args[0])
            if fn == "float" and len(e.args) == 1:
                return self.tr(e.args[0])
            if fn == "zetac" and len(e.args) == 1:
                return "(TranscOps.zetac %s)" % self.tr(e.args[0])
            helper = simple_helper(self.a["file"], e.func)
            if helper is not None and len(helper[0]) == len(e.args):
                # `self._helper(a, b)` / `_helper(a, b)` with a single-return body: substitute the arguments
                params, body = helper
                saved = self.env
                self.env = dict(saved)
                for pn, av in zip(params, e.args):
                    self.env[pn] = _Frozen(av, saved)
                try:
                    return self.tr(body)
                finally:
                    self.env = saved
            if not e.args and isinstance(e.func, ast.Name):
                body = const_function(self.a["file"], e.func.id)
                if body is not None:
                    saved = self.env
                    self.env = {}
                    try:
                        return self.tr(body)
                    finally:
                        self.env = saved
            raise TranslateError("unsupported call " + fn)
        raise TranslateError("unsupported expression " + type(e).__name__)


_cache = {}


class _Frozen:
    """an argument expression of an inlined helper call, to be translated in the caller's environment"""

    def __init__(self, expr, env):
        self.expr, self.env = expr, env


def simple_helper(file, func):
    """(parameter names, return expression) of a helper `def name(self?, a, b): [docstring]; return <expr>` of the same module,
    called as `self.name(...)` or `name(...)`; None if there is no such helper"""
    if isinstance(func, ast.Attribute) and isinstance(func.value, ast.Name) and func.value.id == "self":
        name, method = func.attr, True
    elif isinstance(func, ast.Name):
        name, method = func.id, False
    else:
        return None
    tree = parse(file)
    for node in ast.walk(tree):
        if isinstance(node, ast.FunctionDef) and node.name == name:
            body = [b for b in node.body if not (isinstance(b, ast.Expr) and isinstance(b.value, ast.Constant))]
            if len(body) == 1 and isinstance(body[0], ast.Return) and body[0].value is not None:
                params = [a.arg for a in node.args.args]
                if method and params and params[0] == "self":
                    params = params[1:]
                if not params:
                    return None        # constant functions are handled by const_function
                if node.args.vararg or node.args.kwarg or node.args.kwonlyargs:
                    return None
                return params, body[0].value
    return None


def const_function(file, name, depth=0):
    """body expression of a module-level function `def name(): return <expr>` (following `from .mod import x as name`)"""
    if depth > 3:
        return None
    tree = parse(file)
    for node in tree.body:
        if isinstance(node, ast.FunctionDef) and node.name == name and not node.args.args:
            rets = [s for s in node.body if isinstance(s, ast.Return)]
            if len(rets) == 1 and rets[0].value is not None:
                return rets[0].value
        if isinstance(node, ast.ImportFrom) and node.level == 1 and node.module:
            for al in node.names:
                if (al.asname or al.name) == name:
                    other = os.path.join(os.path.dirname(file), node.module + ".py")
                    if os.path.exists(os.path.join(core.REPO, other)):
                        return const_function(other, al.name, depth + 1)
    return None


def parse(file):
    import warnings
    path = os.path.join(core.REPO, file)
    st = os.stat(path)
    key = (path, st.st_mtime_ns, st.st_size)
    if key not in _cache:
        with warnings.catch_warnings():
            warnings.simplefilter("ignore")
            _cache[key] = ast.parse(open(path).read())
    return _cache[key]


def translate_anchor(a):
    if isinstance(a["pick"], list):
        errs = []
        for alt in a["pick"]:
            try:
                return translate_anchor(dict(a, pick=alt))
            except TranslateError as e:
                errs.append("%s: %s" % (alt[0], e))
        raise TranslateError("; ".join(errs))
    tree = parse(a["file"])
    if isinstance(a["func"], list):
        errs = []
        for fname in a["func"]:
            try:
                return translate_anchor(dict(a, func=fname))
            except TranslateError as e:
                errs.append("%s: %s" % (fname, e))
        raise TranslateError("; ".join(errs))
    fn = find_func(tree, a["func"])
    stmt, expr = pick_expr(fn, a["pick"])
    env = local_env(fn, stmt)
    t = Tr(a, env)
    body = t.tr(expr)
    extra = [p for p in t.params if p not in a["params"]]
    if extra:
        raise TranslateError("free variable(s) %s outside the declared parameters %s" % (extra, a["params"]))
    is_bool = t.is_bool and body.startswith("(decide")
    if is_bool != (a["ret"] == "Bool"):
        raise TranslateError("expected a %s-valued expression" % a["ret"])
    src = norm(ast.unparse(expr))
    return dict(name=a["name"], params=a["params"], ret=a["ret"], ok=True,
                text="/-- `%s` in `%s` (%s):  `%s` -/\ndef %s%s : %s :=\n  %s\n" % (
                    a["name"], a["func"], a["file"],
                    src.replace("-/", "- /")[:300], a["name"], sig_of(a), a["ret"], body))


def sig_of(a):
    return (" (%s : α)" % " ".join(a["params"])) if a["params"] else ""


def stub(a, err):
    """the source construct could not be translated: keep the library compiling with a placeholder about which
    nothing useful can be proved; the error is reported by `regenerate()` and treated as a broken tie"""
    body = "false" if a["ret"] == "Bool" else "((0.0 : α) / (0.0 : α))"
    return dict(name=a["name"], params=a["params"], ret=a["ret"], ok=False,
                text="/-- UNTRANSLATABLE (`%s`, %s): %s -/\ndef %s%s : %s :=\n  %s\n" % (
                    a["func"], a["file"], err.replace("-/", "- /")[:200], a["name"], sig_of(a), a["ret"], body))


HEADER = """/-
GENERATED by harness/translate.py from /repo on every check run — do not edit.
Operator-polymorphic formulas (core Lean only): executed at α := Float by the driver, proved about over ℝ.
-/
import Qats.Prelude
namespace Qats.Gen
set_option linter.unusedVariables false
variable {α : Type} [Add α] [Sub α] [Mul α] [Div α] [Neg α] [LT α] [LE α] [DecidableLT α] [DecidableLE α]
  [OfScientific α] [TranscOps α]

"""


def regenerate():
    os.makedirs(GEN_DIR, exist_ok=True)
    defs, errors = [], {}
    for a in A:
        try:
            defs.append(translate_anchor(a))
        except TranslateError as e:
            errors[a["name"]] = str(e)
            defs.append(stub(a, str(e)))
        except (OSError, SyntaxError) as e:
            errors[a["name"]] = "cannot read/parse %s: %s" % (a["file"], e)
            defs.append(stub(a, str(e)))
    text = HEADER + "\n".join(d["text"] for d in defs) + "\nend Qats.Gen\n"
    drv = ["/- GENERATED by harness/translate.py — do not edit. -/", "import Qats.Gen.Formulas", "namespace Qats.Gen",
           "open Qats", "", "def handleGen : List String → Option String"]
    for d in defs:
        n = len(d["params"])
        pat = " :: ".join(['"gen.%s"' % d["name"]] + ["a%d" % i for i in range(n)] + ["[]"])
        binds = "".join("    let x%d ← parseFloatBits? a%d\n" % (i, i) for i in range(n))
        call = "%s (α := Float) %s" % (d["name"], " ".join("x%d" % i for i in range(n)))
        if d["ret"] == "Bool":
            res = 'some (if %s then "ok 1" else "ok 0")' % call
        else:
            res = 'some ("ok " ++ showFloatBits (%s))' % call
        drv.append("  | %s => do\n%s    %s" % (pat, binds, res))
    drv += ["  | _ => none", "", "end Qats.Gen", ""]
    changed = []
    for fn, content in (("Formulas.lean", text), ("DriverGen.lean", "\n".join(drv))):
        p = os.path.join(GEN_DIR, fn)
        old = open(p).read() if os.path.exists(p) else None
        if old != content:
            with open(p, "w") as f:
                f.write(content)
            changed.append(fn)
    return dict(anchors=len(A), translated=len([d for d in defs if d["ok"]]), errors=errors, changed=changed,
                signatures={d["name"]: d["params"] for d in defs})


if __name__ == "__main__":
    import json
    print(json.dumps(regenerate(), indent=1))
