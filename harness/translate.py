"""Python-AST -> Lean formula translator (DESIGN.md section 2.2).  Filled in with the formula-level properties."""


def regenerate():
    return dict(anchors=0, changed=[])
