"""Helpers shared by the database checks (C08, C09): synthetic files, hex string protocol, registry digests."""
import os
import re
import shutil
import tempfile

import numpy as np


def hx(s):
    return "-" if s == "" else "".join("%02x" % ord(c) for c in s)


def unhx(s):
    return "" if s in ("-", "none") else "".join(chr(int(s[i:i + 2], 16)) for i in range(0, len(s), 2))


def hxlist(l):
    return "=" if not l else ",".join(hx(s) for s in l)


def unhxlist(s):
    return [] if s == "=" else [unhx(x) for x in s.split(",")]


class Files:
    """temporary directory tree with small pickle-format files (arbitrary column names)"""

    def __init__(self):
        self.root = tempfile.mkdtemp(prefix="qv_")

    def make(self, rel, names, n=4, seed=0):
        import pandas as pd
        path = os.path.join(self.root, rel)
        os.makedirs(os.path.dirname(path), exist_ok=True)
        t = np.arange(n, dtype=float)
        data = {nm: (100.0 * (seed + 1) + 10.0 * j + t) for j, nm in enumerate(names)}
        df = pd.DataFrame(data)
        df.index = t
        df.to_pickle(path)
        return path

    def close(self):
        shutil.rmtree(self.root, ignore_errors=True)


def err_enum(e):
    if isinstance(e, KeyError):
        return "err key"
    if isinstance(e, LookupError) and not isinstance(e, (KeyError, IndexError)):
        return "err lookup"
    if isinstance(e, IndexError):
        return "err index"
    if isinstance(e, ValueError):
        return "err value"
    if isinstance(e, TypeError):
        return "err type"
    return "err " + type(e).__name__


def digest(db, ids):
    """same layout as Qats.Driver.Names.digest; `ids` maps id(obj) -> running number (shared over the history)"""
    def oid(o):
        if o is None:
            return "None"
        return "o%d" % ids.setdefault(id(o), len(ids))
    reg = sorted(hx(k) for k in db.register.keys())
    par = sorted("%s=%s" % (hx(k), "None" if v is None else hx(v)) for k, v in db.register_parent.items())
    ind = sorted("%s=%s" % (hx(k), "None" if v is None else v) for k, v in db.register_indices.items())
    cache = ["%s=%s" % (hx(k), oid(db.register[k]) if k in db.register else "MISSING") for k in db.register_keys]
    return "n=%d keys=%s reg=%s par=%s ind=%s cache=%s" % (db.n, hxlist(list(db.register_keys)), ",".join(reg), ",".join(par),
                                                          ",".join(ind), ",".join(cache))


def renumber(text):
    """object identities `o<k>` renumbered by first appearance, so that model counters and Python ids are comparable"""
    seen = {}

    def rep(m):
        return "o%d" % seen.setdefault(m.group(0), len(seen))
    return re.sub(r"\bo\d+\b", rep, text)
