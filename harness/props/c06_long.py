"""
C06 -- LONG histograms / cycle tables (audit round 8: size-conditioned code paths).

Every stream of c06.py uses histograms of 1-40 bins (cycle tables of 0-9 rows); the only long histogram is the 40000-bin
discretisation of a Weibull distribution, compared at 1e-5 / 2e-3 with the closed form (a bin lost at a block boundary is
below that tolerance).  Here the property's clauses are evaluated EXACTLY (per bin, against a capacity computed without qats)
on histograms of 999 ... 131073 bins and cycle tables of the same sizes, with the interesting bins (dominant bin, bin exactly
at the transition stress, bins of zero count / zero range, means next to uts) in the first / last elements, exactly at
multiples of 1000 / 1024 / 4096 / 10000 / 65536, and in adjacent pairs spanning such a multiple.

A failing input stores (n, seed, events, ...) only; `long_hist` / `long_table` rebuild the data.
"""
import math

import numpy as np

SIZES_SMALL = (999, 1000, 1001, 1023, 1024, 1025, 4095, 4096, 4097, 9999, 10000, 10001)
SIZES_BIG = (65535, 65536, 65537, 70001, 131073)
BLOCKS = (1000, 1024, 4096, 10000, 65536)
REL = 1e-9
MODEL_MAX = 4097       # the Lean model is run on the long histograms up to this many bins (quick); thorough: also 65537


def _raised(e):
    return "raised %s: %s" % (type(e).__name__, str(e)[:160])


def special_positions(rng, n):
    """positions a blocked / chunked implementation gets wrong: first / last elements, multiples of the block sizes (one random
    multiple and the last one), the element before and after"""
    cand = {0, 1, n - 1, n - 2}
    for b in BLOCKS:
        if n >= b:
            for m in {rng.randint(1, n // b), n // b}:
                cand |= {m * b - 1, m * b, m * b + 1}
    return sorted(p for p in cand if 0 <= p < n)


def gen_events(rng, n, kinds):
    pos = special_positions(rng, n)
    ev = {}
    for p in rng.sample(pos, min(len(pos), rng.choice([2, 3, 5]))):
        ev[p] = rng.choice(kinds)
    # an adjacent pair spanning a multiple of a block size (or the two last / two first elements)
    bs = [b for b in BLOCKS if n > b]
    if bs:
        b = rng.choice(bs)
        m = rng.randint(1, (n - 1) // b)
        k = rng.choice(kinds[:2])
        ev[m * b - 1] = k
        ev[m * b] = k
    if rng.random() < 0.5:
        ev[n - 1] = kinds[0]
    if rng.random() < 0.3:
        ev[0] = kinds[0]
    return [[int(p), k] for p, k in sorted(ev.items())]


# ======================================================================================================================
# histograms
# ======================================================================================================================
def ref_sw(c):
    from .c05 import model_loga1
    return 10 ** ((float(model_loga1(c)) - math.log10(c["nswitch"])) / float(c["m1"]))


def ref_capacity_vec(c, S):
    """N(S) for an array of effective stress ranges, from the curve parameters (nothing from qats); S == 0 -> inf"""
    from .c05 import model_loga1
    S = np.asarray(S, dtype=float)
    m1, la1 = float(c["m1"]), float(model_loga1(c))
    with np.errstate(all="ignore"):
        lg = np.log10(S)
        up = 10.0 ** (la1 - m1 * lg)
        if c["m2"] is None:
            return up
        m2, ln = float(c["m2"]), math.log10(c["nswitch"])
        lo = 10.0 ** (m2 / m1 * la1 + (1 - m2 / m1) * ln - m2 * lg)
        return np.where(S >= ref_sw(c), up, lo)


def long_hist(inp):
    """(stress ranges, counts) as float64 arrays, rebuilt from the compact description"""
    from .c06 import ref_tcorr
    c, n = inp["curve"], inp["n"]
    rs = np.random.RandomState(inp["seed"])
    if inp["base"] == "flat":
        sr = rs.uniform(20.0, 30.0, n)
        cnt = rs.randint(500, 1000, n).astype(float)
    elif inp["base"] == "weibull":
        from .c06 import fine_histogram
        return fine_histogram(inp["q"], inp["h"], inp["v0"], inp["tdv"], nb=n)
    else:
        sr = 10 ** rs.uniform(0.5, 2.5, n)
        cnt = rs.randint(1, 1000, n).astype(float)
    fac = float(inp["scf"]) * ref_tcorr(c, inp["th"])
    for p, k in inp["events"]:
        if k == "big":
            sr[p] *= 3.0
            cnt[p] *= 10.0
        elif k == "tie":
            sr[p] = (ref_sw(c) / fac) if c["m2"] is not None else sr[p] * 2.0
        elif k == "zero-count":
            cnt[p] = 0.0
        elif k == "zero-range":
            sr[p] = 0.0
    return sr, cnt


def gen_long(rng, n):
    from .c05 import gen_curve, pub
    c = pub(gen_curve(rng))
    th = None
    if c["t_ref"] is not None and rng.random() < 0.6:
        th = rng.choice([c["t_ref"], 0.5 * c["t_ref"], 2 * c["t_ref"], 100.0])
    return dict(kind="long", curve=c, n=n, seed=rng.randrange(2 ** 31), base=rng.choice(["flat", "flat", "spread"]),
                events=gen_events(rng, n, ["big", "tie", "zero-count", "zero-range"]),
                td=rng.choice([1.0, 3600.0, 1 / 3600.0]), scf=rng.choice([1.0, 1.15, 2.0, round(rng.uniform(1, 3), 3)]), th=th,
                spell=rng.choice(["ndarray", "ndarray", "int32-counts", "int64-counts", "view", "list", "readonly"]),
                form=rng.choice(["SNCurve", "dict", "function"]))


def gen_wlong(rng, n):
    from .c05 import gen_curve, pub
    c = pub(gen_curve(rng))
    th = rng.choice([None, 2 * c["t_ref"], c["t_ref"]]) if c["t_ref"] is not None else None
    v0, td = rng.choice([0.1, 0.125, 1.0]), rng.choice([None, 3600.0, 1.0])
    return dict(kind="long", curve=c, n=n, seed=0, base="weibull", events=[], q=10 ** rng.uniform(0.3, 1.6),
                h=rng.choice([0.8, 1.0, 1.2, round(rng.uniform(0.6, 2.0), 3)]), v0=v0, tdw=td,
                tdv=3600. * 24 * 365 if td is None else td, td=1.0, scf=rng.choice([1.0, 1.25, 2.0]), th=th, spell="ndarray",
                form=rng.choice(["SNCurve", "dict"]))


def _spelled(sr, cnt, how):
    if how == "int32-counts":
        return sr.copy(), cnt.astype(np.int32)
    if how == "int64-counts":
        return sr.copy(), cnt.astype(np.int64)
    if how == "view":
        base = np.zeros((len(sr), 3))
        base[:, 0], base[:, 2] = sr, cnt
        return base[:, 0], base[:, 2]
    if how == "list":
        return sr.tolist(), cnt.tolist()
    if how == "readonly":
        a, b = sr.copy(), cnt.copy()
        a.setflags(write=False)
        b.setflags(write=False)
        return a, b
    return sr.copy(), cnt.copy()


def split_points(inp):
    n = inp["n"]
    pts = {1, n - 1}
    for p, _ in inp["events"]:
        pts |= {p, p + 1}
    for b in BLOCKS:
        if n > b:
            pts |= {b, (n // b) * b if (n // b) * b < n else b}
    return sorted(p for p in pts if 0 < p < n)


def eval_long(inp):
    """the histogram clauses of the property on one long histogram -> [(oracle text, expected, observed)]"""
    from qats.fatigue.sn import minersum, minersum_weibull
    from .c05 import build, close
    from .c06 import ref_tcorr, FINE_REL
    bad = []
    c, n, td, scf, th = inp["curve"], inp["n"], inp["td"], inp["scf"], inp["th"]
    sr, cnt = long_hist(inp)
    with np.errstate(all="ignore"):
        ref = float(td) * cnt / ref_capacity_vec(c, sr * float(scf) * ref_tcorr(c, th))
    ref_tot = math.fsum(ref.tolist())
    try:
        sn, kw = build(c)
    except Exception as e:      # noqa
        return [("a valid S-N curve must be accepted", "SNCurve", _raised(e))]
    if inp["form"] == "dict":
        arg, extra = dict(kw), dict(th=th)
    elif inp["form"] == "function":
        arg, extra = sn.n, ({} if th is None else dict(kwds=dict(t=th)))
    else:
        arg, extra = sn, dict(th=th)
    a_s, a_c = _spelled(sr, cnt, inp["spell"])
    what = "histogram of %d bins" % n

    def dmg(s_, c_, **kw_):
        k = dict(td=td, scf=scf)
        k.update(extra)
        k.update(kw_)
        return float(minersum(s_, c_, arg, **k))
    try:
        d = dmg(a_s, a_c)
        tot, bins = minersum(a_s, a_c, arg, td=td, scf=scf, retbins=True, **extra)
        tot, bins = float(tot), np.asarray(bins, dtype=float)
    except Exception as e:      # noqa
        return [("minersum must not raise for a valid %s" % what, "damage %r" % ref_tot, _raised(e))]
    # ---- damage == sum over bins of td*count/N(s*scf, t) ---------------------------------------------------------------
    if not close(d, ref_tot, REL):
        bad.append(("damage == sum over ALL bins of td*count/N(s*scf, t) for a %s (capacity computed independently of qats; "
                    "reference summed with math.fsum, rel 1e-9)" % what, ref_tot, d))
    if bins.shape != (n,):
        bad.append(("damage per bin (retbins): one value per bin of a %s" % what, (n,), bins.shape))
    else:
        ok = np.isclose(bins, ref, rtol=REL, atol=1e-300)
        if not ok.all():
            i = int(np.argmin(ok))
            bad.append(("damage per bin == td*count/N(s*scf, t) for every bin of a %s (first differing bin: %d of %d differ)"
                        % (what, i, int((~ok).sum())), dict(bin=i, s=float(sr[i]), count=float(cnt[i]), damage=float(ref[i])),
                        float(bins[i])))
        if not close(math.fsum(bins.tolist()), d, REL) or not close(tot, d, 1e-12):
            bad.append(("total damage == sum of the damage per bin (retbins) for a %s" % what, [d, d], [tot, math.fsum(bins.tolist())]))
    try:
        # ---- additive over any split ---------------------------------------------------------------------------------------
        for k in split_points(inp):
            parts = dmg(sr[:k], cnt[:k]) + dmg(sr[k:], cnt[k:])
            if not close(parts, d, REL):
                bad.append(("additive over any split of the histogram (%s split after bin %d)" % (what, k - 1), d, parts))
                break
        # the split {one bin} + {all the others}, at the special positions
        for p in sorted({0, n - 1} | {p for p, _ in inp["events"]})[:8]:
            rest = dmg(np.delete(sr, p), np.delete(cnt, p))
            one = dmg(sr[p:p + 1], cnt[p:p + 1])
            if not close(rest + one, d, REL) or not close(one, float(ref[p]), REL):
                bad.append(("additive over any split of the histogram (%s split into bin %d and all the others)" % (what, p),
                            [d, float(ref[p])], [rest + one, one]))
                break
        # a sum over bins does not depend on their order
        rev = dmg(sr[::-1], cnt[::-1])
        if not close(rev, d, REL):
            bad.append(("sum over bins: the same damage with the bins of a %s listed in reverse order" % what, d, rev))
        lin = dmg(sr, 3.0 * cnt, td=2.0 * td)
        if not close(lin, 6.0 * d, REL):
            bad.append(("linear in counts and duration (%s)" % what, 6.0 * d, lin))
        sc = dmg(sr * float(scf), cnt, scf=1.0)
        if not close(sc, d, REL):
            bad.append(("scf equivalent to scaling the stress ranges (%s)" % what, d, sc))
        others = [float(minersum(sr, cnt, dict(kw), td=td, scf=scf, th=th)), float(minersum(sr, cnt, sn, td=td, scf=scf, th=th)),
                  float(minersum(sr, cnt, sn.n, td=td, scf=scf, **({} if th is None else dict(args=(th,)))))]
        if not all(close(o, d, 1e-12) for o in others):
            bad.append(("identical damage whether the curve is given as parameters, object or function (%s)" % what, d, others))
        again = dmg(a_s, a_c)
        s2, c2 = _spelled(sr, cnt, inp["spell"])
        same = (a_s == s2 and a_c == c2) if isinstance(a_s, list) else (np.array_equal(a_s, s2) and np.array_equal(a_c, c2))
        if not (close(again, d, 1e-15) and same):
            bad.append(("same damage on every call (the %s is not modified)" % what, d, again))
        if inp["base"] == "weibull":
            dw = float(minersum_weibull(inp["q"], inp["h"], sn, inp["v0"], td=inp["tdw"], scf=scf, th=th))
            if not close(d, dw, FINE_REL):
                bad.append(("closed-form Weibull damage == histogram damage of a fine discretisation (%d graded bins, rel 1e-5)" % n, d, dw))
    except Exception as e:      # noqa
        bad.append(("minersum must not raise for a valid %s (additivity / linearity / scf / form clauses)" % what, "damage", _raised(e)))
    return bad


# ======================================================================================================================
# Goodman-Haigh on long cycle tables
# ======================================================================================================================
def long_table(inp):
    n, uts = inp["n"], float(inp["uts"])
    rs = np.random.RandomState(inp["seed"])
    rng_ = 10 ** rs.uniform(-1, 2.5, n)
    mean = rs.uniform(-0.9, 0.9, n) * uts
    mean[rs.uniform(size=n) < 0.2] = 0.0
    for p, k in inp["events"]:
        if k == "near-uts":
            mean[p] = 0.999 * uts
        elif k == "zero-mean":
            mean[p] = 0.0
        elif k == "compressive":
            mean[p] = -3.0 * uts
        elif k == "zero-range":
            rng_[p] = 0.0
    return np.column_stack([rng_, mean])


def gen_gh_long(rng, n):
    return dict(kind="gh-long", n=n, seed=rng.randrange(2 ** 31), uts=10 ** rng.uniform(1.5, 3.2),
                events=gen_events(rng, n, ["near-uts", "zero-mean", "compressive", "zero-range"]),
                container=rng.choice(["ndarray", "view3", "fortran", "readonly", "list-of-tuples"]),
                unit=rng.choice([1000.0, 1e-6, 2.0 ** 200, 2.0 ** -200, 0.1450377377]))


def eval_gh_long(inp):
    from qats.fatigue.corrections import goodman_haigh
    bad = []
    n, uts = inp["n"], float(inp["uts"])
    tab = long_table(inp)
    r, m = tab[:, 0].copy(), tab[:, 1].copy()
    exp = r * uts / (uts - m)
    what = "cycle table of %d rows" % n
    how = inp["container"]
    if how == "view3":
        base = np.full((n, 3), 0.5)
        base[:, :2] = tab
        arg = base[:, :2]
    elif how == "fortran":
        arg = np.asfortranarray(tab.copy())
    elif how == "readonly":
        arg = tab.copy()
        arg.setflags(write=False)
    elif how == "list-of-tuples":
        arg = [tuple(x) for x in tab.tolist()]
    else:
        arg = tab.copy()
    try:
        got = goodman_haigh(arg, uts)
        again = np.asarray(goodman_haigh(arg, uts), dtype=float)
        k = float(inp["unit"])
        scaled = np.asarray(goodman_haigh(tab * k, uts * k), dtype=float)
        shape = tuple(np.shape(got))
        got = np.asarray(got, dtype=float)
    except Exception as e:      # noqa
        return [("goodman_haigh must not raise for a %s and uts above the largest mean" % what, exp[:4].tolist(), _raised(e))]
    if shape != (n,):
        return [("one corrected range per cycle (%s)" % what, (n,), shape)]

    def first(okmask):
        i = int(np.argmin(okmask))
        return dict(row=i, range=float(r[i]), mean=float(m[i]), expected=float(exp[i]), differing_rows=int((~okmask).sum())), float(got[i])
    ok = np.isclose(got, exp, rtol=1e-12, atol=0.0)
    if not ok.all():
        bad.append(("effective range == range*uts/(uts-mean) for every row of a %s" % what,) + first(ok))
    z = m == 0.0
    ok = ~z | np.isclose(got, r, rtol=1e-14, atol=0.0)
    if not ok.all():
        bad.append(("zero-mean cycles unchanged (every row of a %s)" % what,) + first(ok))
    pos = (m > 0) & (r > 0)
    ok = ~pos | (got > r)
    if not ok.all():
        bad.append(("tensile mean stress enlarges the effective range (every row of a %s)" % what,) + first(ok))
    ok = np.isclose(scaled, got * k, rtol=1e-12, atol=0.0) if scaled.shape == got.shape else np.zeros(n, dtype=bool)
    if not ok.all():
        bad.append(("independent of the stress unit (ranges, means and uts times %r; every row of a %s)" % (k, what),) + first(ok))
    unchanged = (arg == [tuple(x) for x in tab.tolist()]) if isinstance(arg, list) else np.array_equal(np.asarray(arg), tab)
    if not (unchanged and np.array_equal(again, got)):
        bad.append(("effective range on every call (the %s is not modified)" % what, "same values", "differ"))
    return bad


# ======================================================================================================================
def plan(chk):
    """(kind, generator, size) for this tier: every size below 10^4 is cheap; 2 (quick) of the sizes beyond 65536"""
    rng = chk.rng
    out = []
    small = list(SIZES_SMALL)
    big = list(SIZES_BIG)
    if chk.quick:
        for n in small:
            out.append(("long", gen_long, n))
        for n in rng.sample(small, 6):
            out.append(("gh-long", gen_gh_long, n))
        b = rng.sample(big, 2)
        out += [("long", gen_long, b[0]), ("long", gen_long, 65537 if 65537 not in b else b[1]), ("gh-long", gen_gh_long, b[1]),
                ("long", gen_wlong, rng.choice([65535, 65536, 65537, 131073]))]
    else:
        for _ in range(8):
            for n in small:
                out.append(("long", gen_long, n))
                out.append(("gh-long", gen_gh_long, n))
        for _ in range(4):
            for n in big:
                out.append(("long", gen_long, n))
                out.append(("gh-long", gen_gh_long, n))
        for n in (40000, 65535, 65536, 65537, 100000, 131073):
            out += [("long", gen_wlong, n)] * 3
    return out


EVAL = {"long": eval_long, "gh-long": eval_gh_long}


def run_long(chk, corpus=()):
    cases = [dict(c) for c in corpus if c.get("kind") in EVAL]
    chk.count("corpus", len(cases))
    cases += [gen(chk.rng, n) for _, gen, n in plan(chk)]
    longs = []
    for inp in cases:
        inp.pop("note", None)
        try:
            res = EVAL[inp["kind"]](inp)
        except Exception as e:      # noqa
            res = [("the damage calculation must not raise for a valid long input", "a result", _raised(e))]
        chk.count(inp["kind"])
        chk.nontriv(repr(inp))
        chk.dist("%s:n=%d" % (inp["kind"] if inp.get("base") != "weibull" else "long-weibull", inp["n"]))
        if inp["kind"] == "long":
            longs.append(inp)
        for text, e_, o_ in res:
            chk.fail(text, inp, e_, o_)
    return longs


def replay_long(inp):
    bad = 0
    for text, e_, o_ in EVAL[inp["kind"]](dict(inp)):
        print("FAILS: %s: expected %r observed %r" % (text, e_, o_))
        bad += 1
    return bad
