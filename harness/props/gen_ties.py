"""Ties of two regenerated expressions to the arguments the real code works with (the theorems newTimearray_ratio_is_source (C11)
and summary_chain_source (C17) relate them to the models):
* grid_ratio    — argument of round() in the helper new_timearray of TimeSeries.get: round(ratio) + 1 must be the number of points
                  of get(resample=d) on a series from t0 to t1;
* stats_n_ratio — argument of round() in TimeSeries.stats: round(ratio) must be the number of peaks n handed to weibull2gumbel.
The generated definitions are executed by the driver (ops gen.grid_ratio, gen.stats_n_ratio)."""
import numpy as np

from ..core import fbits, unfbits


def run_grid_tie(chk, drv):
    from qats import TimeSeries
    rng = chk.rng
    cases = []
    for _ in range(12 if chk.quick else 80):
        n = rng.choice([3, 5, 17, 100])
        t0 = rng.choice([0.0, -3.5, 10.0, 1000.25])
        span = rng.choice([1.0, 7.5, 100.0, 0.125])
        t = t0 + span * np.sort(np.concatenate([[0.0, 1.0], [rng.random() for _ in range(n - 2)]]))
        d = span / rng.choice([1, 2, 3, 7, 10, 33]) * rng.choice([1.0, 1.0, 1.02, 0.97, 0.7, 1.3])
        cases.append((t, float(d)))
    outs = drv.run(["gen.grid_ratio %s %s %s" % (fbits(d), fbits(float(t[0])), fbits(float(t[-1]))) for t, d in cases])
    for (t, d), o in zip(cases, outs):
        chk.count("gen.grid_ratio")
        inp = dict(kind="gen.grid_ratio", t0=float(t[0]), t1=float(t[-1]), d=d)
        try:
            got = len(TimeSeries("s", t, np.cos(t)).get(resample=d)[0])
        except Exception as e:      # noqa
            got = "raised %s: %s" % (type(e).__name__, e)
        tok = o.split()
        want = int(round(unfbits(tok[1]))) + 1 if tok[0] == "ok" else o
        if got != want:
            chk.disagree("gen.grid_ratio", inp, want, got)
        chk.nontriv(("gen.grid_ratio", inp["t0"], inp["t1"], d))


def run_statsn_tie(chk, drv):
    import qats.ts as qts
    from qats import TimeSeries
    rng = chk.rng
    real = qts.weibull2gumbel
    seen = []

    def spy(loc, scale, shape, n, *a, **kw):
        seen.append(n)
        return real(loc, scale, shape, n, *a, **kw)

    cases = []
    for _ in range(8 if chk.quick else 40):
        n = rng.choice([200, 400, 1000])
        dt = rng.choice([0.1, 0.5, 0.25])
        t = np.arange(n) * dt
        x = np.sin(0.9 * t) + 0.5 * np.sin(2.3 * t + 1.0) + rng.choice([0.0, 5.0])
        sd = rng.choice([10800.0, 3600.0, 100.0, 12345.6, float(t[-1])])
        kw = rng.choice([{}, dict(twin=(float(t[n // 4]), float(t[-1]))), dict(resample=float(2 * dt))])
        cases.append((t, x, sd, kw, rng.random() < 0.4))
    qts.weibull2gumbel = spy
    obs = []
    try:
        for t, x, sd, kw, mn in cases:
            del seen[:]
            try:
                ts = TimeSeries("s", t, x)
                s = ts.stats(statsdur=sd, is_minima=mn, include_sample=True, **kw)
                tt = ts.get(**kw)[0]
                obs.append((seen[-1] if seen else None, float(tt[-1] - tt[0]), int(np.size(s["sample"]))))
            except Exception as e:      # noqa
                obs.append(("raised %s: %s" % (type(e).__name__, e), None, None))
    finally:
        qts.weibull2gumbel = real
    lines, idx = [], []
    for k, (n_seen, dur, nmax) in enumerate(obs):
        if dur is not None and n_seen is not None:
            lines.append("gen.stats_n_ratio %s %s %s" % (fbits(dur), fbits(float(nmax)), fbits(cases[k][2])))
            idx.append(k)
    outs = drv.run(lines) if lines else []
    for k, o in zip(idx, outs):
        chk.count("gen.stats_n_ratio")
        n_seen, dur, nmax = obs[k]
        inp = dict(kind="gen.stats_n_ratio", statsdur=cases[k][2], duration=dur, peaks=nmax, options=sorted(cases[k][3]))
        tok = o.split()
        want = int(round(unfbits(tok[1]))) if tok[0] == "ok" else o
        if n_seen != want:
            chk.disagree("gen.stats_n_ratio", inp, want, n_seen)
        chk.nontriv(("gen.stats_n_ratio", cases[k][2], dur, nmax))
