"""
C12 — frequency filters have the specified zero-phase Butterworth response in Hz.

Tie (every run):
  design      the arguments `qats.signal.lowpass/highpass/bandpass/bandblock` hand to scipy (`butter` order / Wn (or fc with
              fs) / btype / analog, and that the coefficients go through exactly one forward-backward pass, `filtfilt` or
              `sosfiltfilt`) are recorded by wrapping the three scipy entry points inside `qats.signal` and compared with the
              Lean model's `design` (Float, same IEEE operations: 1e-14 relative).  Padding options, ba-vs-sos form and
              pre-processing of the signal are irrelevant to the property and only noted;
  steady      the model's `steadyState` (amplitude, frequency, phase, mean of the filtered sinusoid) against the implementation:
              a long sampled sinusoid is filtered, amplitude / phase / mean are least-squares fitted on the central 60 %;
  spec        the model's closed-form gain against an independent statement of "5th-order digital Butterworth, squared
              magnitude, cut-offs in Hz": `scipy.signal.butter(5, fc, fs=1/dt)` + `sosfreqz` (the assumption that is measured);
  ts.design / ts.steady   the same through `TimeSeries.get(filterargs=…)` / `TimeSeries.filter` after windowing, resampling
              to a step or an array, tapering and for a non-equidistant series: the design must be the model's design for
              the step of the *returned* time array.
  ts.tagged / ts.tagged-filter   exact (Rat) execution of the model's `tsGet` / `tsFilter` (driver ops `flt.tsget`,
              `flt.tsfilter`) against the real `TimeSeries.get(filterargs=…)` / `TimeSeries.filter` on small dyadic series, with
              scipy's `butter` / `filtfilt` / `sosfiltfilt` (as seen by `qats.signal`) and `taper` (as seen by `qats.ts`) replaced
              on both sides by the same tag functions: the reply carries the design the filter stage built (order, type,
              normalised cut-offs: hence the step and cut-offs it was given) in front of the samples it received (hence the
              order window -> resample -> taper -> filter); error kinds for a wrong number of frequencies / empty window /
              array + window / request outside the span; every call is issued twice on the same object;
  arity       `Kind.arity` (`flt.arity`) against the number of frequencies `TimeSeries.filter` accepts;
  lin         the model's `(steadyState spec dt (Signal.comb a x b y)).eval t` (`flt.lin`) against samples of the filtered
              two-component signal `a x + b y` taken in the central part of the record.
Oracles (implementation alone; expected values never come from the Lean model): gain 1/2 and no phase shift at every
cut-off; complex gain = reference Butterworth-squared magnitude with zero phase; the filtered sinusoid is a pure sinusoid
of the same frequency; pass/stop band bounds 2^-10 at half / twice the cut-off; linearity; mean kept (lp, bs) / removed
(hp, bp); low+high and pass+stop reconstruct the signal; `filter()` == `get(filterargs=…)`; every call with cut-offs below
Nyquist returns.
The same clauses are evaluated on other spellings of the same request (signal as list / tuple / float32 / int64 / strided /
read-only array, dt and cut-offs as int / numpy scalars, keyword calls, explicit `order=5`; `filterargs` as list, window as
list, resampling step as numpy scalar or list, options that are given but do nothing, integer time arrays), through every
public route that reaches the filters (`get`, `filter`, `modify`, `copy().get`, `TsDB.geta`, `TsDB.getda`,
`qats.app.funcs.calculate_trace`), on signals in other units (x 2^p, |p| <= 200) and on large mean levels, for sampling
intervals 1e-6 … 3e3 s, cut-offs up to 0.99 Nyquist and test frequencies 0.002 … 0.998 Nyquist, on the second call with the
same array, and after histories on one TimeSeries object (other filter types / cut-offs / resampling steps, rejected
requests, data replaced or edited in place between calls, a second object built from the same arrays) and sequences of calls
in one process that share a cut-off but not the sampling interval or the filter type.
An exception raised by the implementation anywhere in a case is a failing clause ("returns a filtered signal").
"""
import inspect
import math

import numpy as np

from .. import core
from ..core import fbits, unfbits

USES_TRANSLATOR = True          # the normalised cut-offs handed to butter (flt_*_wn) are regenerated from qats/signal.py
ANCHOR_PREFIX = ("flt_",)

RULE = ("seeded sampling intervals 10^U(-3,1) s (plus dyadic steps) x four filter types x cut-offs log-uniform in "
        "[lo, 0.97] Nyquist (lo = 0.02 quick, 0.008 thorough; band width >= lo) x test frequency (30 % exactly a cut-off, 40 % "
        "within a factor 2 of one, 30 % anywhere in (0.01, 0.985) Nyquist) x amplitude, phase, mean; record length "
        "300 / min(edge, band width, distance to Nyquist) samples, at least 2000; fixed corner cases first (cut-off = half "
        "Nyquist, band centre, edges at 0.02 / 0.97 Nyquist, dt 1e-3 and 10); TimeSeries level: plain, time window, resample "
        "to k*dt, resample to an array, taper, non-equidistant times; non-trivial = gain strictly between 1e-6 and 1-1e-6; "
        "distinct by input.  Added classes (corpus/C12/audit_corners.json first): rim of the quantifier (dt 1e-6 … 3e3 s and 2^-20, "
        "2^10; cut-offs to 0.99 Nyquist; test frequency 0.002 … 0.998 Nyquist; amplitude and mean x 2^p, |p| <= 200; mean up to "
        "1000 x amplitude; each filter type has fixed representatives); spellings (signal as list / tuple / float32 / int64 / "
        "strided / negative-stride / read-only array; dt and cut-offs as int, numpy int64 / float64 / float32; keyword calls; "
        "explicit order 5; half of them called twice with the same array object); TimeSeries level spelled (filterargs list / "
        "tuple, cut-offs int / numpy, window as list, step as numpy scalar, requested times as list, integer time array, "
        "float32 / int64 / read-only source arrays, time offsets 2^20, options that do nothing: whole-series window, taperfrac "
        "0 / 0.0 / 1.0, window_len 1) through get / filter / modify / copy().get / TsDB.geta / TsDB.getda / "
        "qats.app.funcs.calculate_trace; histories of 6-9 steps on one TimeSeries (retrievals that differ from the previous one "
        "in one of type / cut-offs / resampling step, rejected requests, data replaced or scaled in place, a second object "
        "from the same arrays) and sequences of 6-10 qats.signal calls in one process sharing cut-offs: clauses evaluated "
        "after every step; exact tie of tsGet / tsFilter on dyadic series of 3-24 samples (uniform or irregular) x window "
        "(inside / partly outside / empty / single sample) x resampling step / array (also outside the span, also with a "
        "window) x taper x 0-3 frequencies, each request issued twice, bit-exact where the float pipeline is exact, else 1e-12")

KINDS = ("lp", "hp", "bp", "bs")
FUNC = dict(lp="lowpass", hp="highpass", bp="bandpass", bs="bandblock")
BTYPE = dict(lp="lowpass", hp="highpass", bp="bandpass", bs="bandstop")
ROUTINE = dict(lp="filtfilt", hp="filtfilt", bp="sosfiltfilt", bs="sosfiltfilt")
BT_NORM = {"low": "lowpass", "lowpass": "lowpass", "lp": "lowpass", "high": "highpass", "highpass": "highpass", "hp": "highpass",
           "band": "bandpass", "bandpass": "bandpass", "bp": "bandpass", "pass": "bandpass",
           "bandstop": "bandstop", "bs": "bandstop", "bands": "bandstop", "stop": "bandstop"}
TOL = 2e-5          # steady-state complex gain / mean (worst observed on the unchanged tree: 3e-7)
TOL_IRR = 2e-3      # non-equidistant series: linear interpolation of the sinusoid (f*dt <= 0.01) adds up to ~5e-4
KLEN = 300          # record length factor

O_RETURNS = "filtering with cut-off frequencies below Nyquist returns a filtered signal"
O_HALF = "at a cut-off frequency the sinusoid comes out with gain 1/2 and no phase shift"
O_REF = ("away from the ends the filtered sinusoid is the input sinusoid times the squared magnitude response of the 5th-order "
         "digital Butterworth filter at f (cut-offs in Hz), with no phase shift")
O_PURE = "away from the ends the filtered sinusoid is a pure sinusoid of the same frequency"
O_BAND = "gain >= 1 - 2^-10 half-way into the pass band and <= 2^-10 at twice / half the cut-off on the stop side"
O_LIN = "filtering is linear"
O_MEAN = "low-pass and band-stop keep the mean, high-pass and band-pass remove it"
O_SUM = "low-passed + high-passed (band-passed + band-stopped) signal is the signal, away from the ends"
O_DELEG = "TimeSeries.filter(kind, freq, twin, taperfrac) equals TimeSeries.get(twin=, filterargs=(kind, *freq), taperfrac=)"
O_TSREF = ("through TimeSeries.get the response is the Butterworth-squared gain for the sampling interval of the returned "
           "time array (after window / resampling), zero phase on the returned time axis")


# ----------------------------------------------------------------------------------------------------------------------
# recording what qats.signal hands to scipy
# ----------------------------------------------------------------------------------------------------------------------
class Recorder:
    """wraps butter / filtfilt / sosfiltfilt as seen by qats.signal"""
    NAMES = ("butter", "filtfilt", "sosfiltfilt")

    def __enter__(self):
        import qats.signal as qs
        import scipy.signal as ss
        self.qs = qs
        self.saved = {k: getattr(qs, k, None) for k in self.NAMES}
        self.calls = []
        for name in self.NAMES:
            real = getattr(ss, name)
            setattr(qs, name, self._wrap(name, real))
        return self

    def _wrap(self, name, real):
        sig = inspect.signature(real)

        def wrapper(*a, **k):
            try:
                ba = sig.bind(*a, **k)
                ba.apply_defaults()
                args = dict(ba.arguments)
            except TypeError:
                args = dict(args=a, kwargs=k)
            out = real(*a, **k)
            self.calls.append(dict(op=name, args=args, out=out))
            return out
        return wrapper

    def __exit__(self, *exc):
        for k, v in self.saved.items():
            if v is None:
                try:
                    delattr(self.qs, k)
                except AttributeError:
                    pass
            else:
                setattr(self.qs, k, v)
        return False


def same_coeff(a, b):
    try:
        if isinstance(a, tuple) or isinstance(b, tuple):
            return len(a) == len(b) and all(np.array_equal(np.asarray(u), np.asarray(v)) for u, v in zip(a, b))
        return np.array_equal(np.asarray(a), np.asarray(b))
    except Exception:
        return False


def summarize(calls, x_in):
    """what was designed and how it was applied: dict(order, btype, routine, wn, ok-flags)"""
    bs = [c for c in calls if c["op"] == "butter"]
    fs = [c for c in calls if c["op"] in ("filtfilt", "sosfiltfilt")]
    if len(bs) != 1:
        return dict(error="butter called %d times" % len(bs))
    b = bs[0]["args"]
    try:
        wn = [float(v) for v in np.atleast_1d(b["Wn"])]
        if b.get("fs") is not None:
            wn = [2.0 * w / float(b["fs"]) for w in wn]
        d = dict(order=int(b["N"]), btype=BT_NORM.get(str(b["btype"]).lower(), str(b["btype"])), wn=wn,
                 analog=bool(b["analog"]))
    except Exception as e:
        return dict(error="butter arguments not understood: %r" % (e,))
    if len(fs) != 1:
        d["routine"] = "none" if not fs else "+".join(c["op"] for c in fs)
        return d
    f = fs[0]
    d["routine"] = f["op"]
    out = bs[0]["out"]
    if f["op"] == "filtfilt":
        d["coeff_linked"] = same_coeff((f["args"].get("b"), f["args"].get("a")), out)
        extra = {k: v for k, v in f["args"].items() if k not in ("b", "a", "x")}
        d["defaults"] = (extra.get("axis") == -1 and extra.get("padtype") == "odd" and extra.get("padlen") is None
                         and extra.get("method") == "pad")
    else:
        d["coeff_linked"] = same_coeff(f["args"].get("sos"), out)
        extra = {k: v for k, v in f["args"].items() if k not in ("sos", "x")}
        d["defaults"] = extra.get("axis") == -1 and extra.get("padtype") == "odd" and extra.get("padlen") is None
    xa = np.asarray(f["args"].get("x"))
    d["signal_linked"] = x_in is None or (xa.shape == np.shape(x_in) and np.array_equal(xa, x_in))
    return d


def design_line(kind, dt, fcs):
    return "flt.design %s %s %s" % (kind, fbits(dt), " ".join(fbits(v) for v in fcs))


def compare_design(model_reply, rec, notes=None, wn_tol=1e-14):
    """model reply `ok 5 lowpass filtfilt <wn…>` against the recorded summary; returns None if they agree.
    Compared: order, btype, digital design, normalised cut-offs, and that the coefficients are applied once by a
    forward-backward routine.  Which of filtfilt / sosfiltfilt is used, padding options and pre-processing of the signal do
    not matter for the property (steady state away from the ends): differences there are only noted.
    `wn_tol`: 1e-14 (same IEEE double operations); 2e-7 when dt or a cut-off is handed over as numpy float32 (numpy then
    computes the normalised cut-off in single precision)."""
    tok = model_reply.split()
    if tok[0] != "ok":
        return "model: " + model_reply
    if "error" in rec:
        return rec["error"]
    m_order, m_bt, m_rt = int(tok[1]), tok[2], tok[3]
    m_wn = [unfbits(v) for v in tok[4:]]
    if rec["order"] != m_order:
        return "order"
    if rec["btype"] != m_bt:
        return "btype"
    if rec.get("routine") not in ("filtfilt", "sosfiltfilt"):
        return "routine (not one forward-backward pass: %s)" % rec.get("routine")
    if rec["analog"]:
        return "analog"
    if len(rec["wn"]) != len(m_wn) or any(abs(a - b) > wn_tol * abs(b) for a, b in zip(rec["wn"], m_wn)):
        return "Wn"
    if notes is not None:
        if rec.get("routine") != m_rt:
            notes.add("routine is %s where the model has %s (equivalent for the property)" % (rec.get("routine"), m_rt))
        if not rec.get("coeff_linked"):
            notes.add("coefficients handed to the routine are not the arrays returned by butter")
        if not rec.get("signal_linked"):
            notes.add("the routine is applied to a pre-processed copy of the signal")
        if not rec.get("defaults"):
            notes.add("non-default padding options of the forward-backward routine")
    return None


def jsonable(rec):
    return {k: (v if isinstance(v, (int, float, str, bool, list, type(None))) else str(v)) for k, v in rec.items()}


# ----------------------------------------------------------------------------------------------------------------------
# independent reference, measurement
# ----------------------------------------------------------------------------------------------------------------------
def ref_gain(kind, dt, fcs, f, order=5):
    """|H(e^{j 2 pi f dt})|^2 of scipy's own digital Butterworth design with the cut-offs given in Hz (fs = 1/dt)"""
    from scipy.signal import butter, sosfreqz
    wn = list(fcs) if len(fcs) > 1 else fcs[0]
    sos = butter(order, wn, btype=BTYPE[kind], fs=1.0 / dt, output="sos")
    _, h = sosfreqz(sos, worN=[f], fs=1.0 / dt)
    return float(abs(h[0]) ** 2)


def fit(t, y, f, ph, A):
    """least squares `y ~ A (g_re sin(2 pi f t + ph) + g_im cos(2 pi f t + ph)) + m` on the central 60 %: complex gain g"""
    n = len(t)
    lo, hi = int(0.2 * n), int(0.8 * n)
    tt, yy = t[lo:hi], y[lo:hi]
    arg = 2 * np.pi * f * tt + ph
    M = np.column_stack([np.sin(arg), np.cos(arg), np.ones_like(tt)])
    c = np.linalg.lstsq(M, yy, rcond=None)[0]
    res = float(np.max(np.abs(yy - M @ c)))
    return complex(c[0], c[1]) / A, float(c[2]), res


def record_length(dt, fcs):
    nyq = 0.5 / dt
    fr = [c / nyq for c in fcs]
    mf = min(fr[0], 1.0 - fr[-1])
    if len(fr) == 2:
        mf = min(mf, fr[1] - fr[0])
    return int(min(80000, max(2000, math.ceil(KLEN / mf))))


def call(fn, *a, **k):
    try:
        return fn(*a, **k), None
    except Exception as e:  # the implementation must not raise for admissible arguments
        return None, "%s: %s" % (type(e).__name__, e)


# ----------------------------------------------------------------------------------------------------------------------
# signal level: one case = (kind, dt, fcs, f, A, ph, mean, n)
# ----------------------------------------------------------------------------------------------------------------------
PARAMS = dict(lp=("fc",), hp=("fc",), bp=("flow", "fupp"), bs=("flow", "fupp"))     # documented parameter names
AGAIN = " [second call with the same array object]"


def conv(v, how):
    """the same number in another numeric type (the generators only ask for conversions that are exact)"""
    if how == "int":
        return int(v)
    if how == "np.int64":
        return np.int64(int(v))
    if how == "np.float64":
        return np.float64(v)
    if how == "np.float32":
        return np.float32(v)
    return float(v)


def spelled_signal(x, how):
    """the same samples in another container / dtype / memory layout"""
    if how == "list":
        return x.tolist()
    if how == "tuple":
        return tuple(x.tolist())
    if how == "float32":
        return x.astype(np.float32)
    if how == "int64":                                   # amplitude >= 2^30: rounding to integers changes the signal by < 1e-9
        return np.rint(x).astype(np.int64)
    if how == "strided":
        buf = np.full(2 * len(x), -7.0)
        buf[::2] = x
        return buf[::2]
    if how == "reversed":
        return x[::-1].copy()[::-1]
    if how == "readonly":
        y = x.copy()
        y.setflags(write=False)
        return y
    return x


def signal_call(case, xs):
    """(args, kwargs) of the call to qats.signal.<filter> in the case's spelling"""
    sp = case.get("spell") or {}
    kind = case["kind"]
    dt = conv(case["dt"], sp.get("dt"))
    fcs = [conv(c, sp.get("fc")) for c in case["fcs"]]
    style = sp.get("call", "pos")
    if style == "kw":
        return (), dict(dict(zip(PARAMS[kind], fcs)), x=xs, dt=dt)
    if style == "kw-cut":
        return (xs, dt), dict(zip(PARAMS[kind], fcs))
    if style == "order-pos":
        return (xs, dt) + tuple(fcs) + (5,), {}
    if style == "order-kw":
        return (xs, dt) + tuple(fcs), dict(order=5)
    if style == "order-np":
        return (xs, dt) + tuple(fcs), dict(order=np.int64(5))
    return (xs, dt) + tuple(fcs), {}


def response_clauses(case, t, y, sfx=""):
    """the steady-state clauses of the property for one filtered record; (failures, measurement)"""
    kind, dt, fcs, f, A, ph, mean = (case[k] for k in ("kind", "dt", "fcs", "f", "A", "ph", "mean"))
    fails = []
    g, m, res = fit(t, np.asarray(y, dtype=float), f, ph, A)
    sc = A + abs(mean)
    G = ref_gain(kind, dt, fcs, f)
    G0 = 1.0 if kind in ("lp", "bs") else 0.0
    meas = dict(gain=[g.real, g.imag], mean=m, residual=res, ref=G)
    if not abs(g - G) * A <= TOL * sc:
        fails.append((O_REF + sfx, [G, 0.0], [g.real, g.imag]))
    if any(abs(f - c) <= 1e-12 * c for c in fcs) and not abs(g - 0.5) * A <= TOL * sc:
        fails.append((O_HALF + sfx, [0.5, 0.0], [g.real, g.imag]))
    if not res <= 5 * TOL * sc:
        fails.append((O_PURE + sfx, "residual <= %g" % (5 * TOL * sc), res))
    if not abs(m - mean * G0) <= TOL * sc:
        fails.append((O_MEAN + sfx, mean * G0, m))
    # pass / stop band with explicit rates (tan is convex on (0, pi/2): W(f/2)/W(f) <= 1/2, W(2f)/W(f) >= 2)
    if kind in ("lp", "hp"):
        fc = fcs[0]
        inside = (f <= 0.5 * fc) if kind == "lp" else (f >= 2.0 * fc)
        outside = (f >= 2.0 * fc) if kind == "lp" else (f <= 0.5 * fc)
        if inside and (1.0 - g.real) * A > (2.0 ** -10) * A + TOL * sc:
            fails.append((O_BAND + sfx, ">= 1 - 2^-10", g.real))
        if outside and abs(g) * A > (2.0 ** -10) * A + TOL * sc:
            fails.append((O_BAND + sfx, "<= 2^-10", abs(g)))
    return fails, meas


def sig_clauses(case, want_rec=False):
    """Evaluates the property's clauses on qats.signal for one case (in the case's spelling of the arguments; with
    `twice` the call is repeated with the same array object and both results are judged).
    Returns (failures [(oracle, expected, observed)], measurement dict or None, recorded design or None)."""
    import qats.signal as qs
    kind, dt, fcs, f, A, ph, mean, n = (case[k] for k in ("kind", "dt", "fcs", "f", "A", "ph", "mean", "n"))
    fn = getattr(qs, FUNC[kind])
    t = np.arange(n) * dt
    x = mean + A * np.sin(2 * np.pi * f * t + ph)
    xs = spelled_signal(x, (case.get("spell") or {}).get("x"))
    args, kwargs = signal_call(case, xs)
    fails, rec, meas = [], None, None
    rounds = 2 if case.get("twice") else 1
    for r_ in range(rounds):
        sfx = AGAIN if r_ else ""
        if want_rec and r_ == rounds - 1:
            with Recorder() as r:
                y, err = call(fn, *args, **kwargs)
            rec = summarize(r.calls, x if xs is x else None)
        else:
            y, err = call(fn, *args, **kwargs)
        if err is None:
            try:
                y = np.asarray(y, dtype=float)
            except Exception as e:
                err = "result is not an array of numbers: %r" % (e,)
        if err is not None or np.shape(y) != np.shape(x) or not np.all(np.isfinite(y)):
            fails.append((O_RETURNS + sfx, "finite array of the input's shape", err or "shape %s / non-finite" % (np.shape(y),)))
            return fails, None, rec
        fl, meas = response_clauses(case, t, y, sfx)
        fails += fl
    return fails, meas, rec


def extra_clauses(case, rng_vals):
    """linearity, constant signal, complementary pair: evaluated on a two-component signal.
    Returns (failures, probe): probe = samples of F(a x + b cos(2 pi f2 t + ph2)) at a few central times (for the model's `lin`)"""
    import qats.signal as qs
    kind, dt, fcs, f, A, ph, mean, n = (case[k] for k in ("kind", "dt", "fcs", "f", "A", "ph", "mean", "n"))
    a, b, f2, ph2 = rng_vals
    fn = getattr(qs, FUNC[kind])
    t = np.arange(n) * dt
    x = mean + A * np.sin(2 * np.pi * f * t + ph)
    y = np.cos(2 * np.pi * f2 * t + ph2) + 0.25 * (t / t[-1])
    fails = []
    fx, e1 = call(fn, x, dt, *fcs)
    fy, e2 = call(fn, y, dt, *fcs)
    fz, e3 = call(fn, a * x + b * y, dt, *fcs)
    if e1 or e2 or e3:
        return [(O_RETURNS, "array", e1 or e2 or e3)], None
    sc = (abs(a) * (A + abs(mean)) + abs(b) * 1.25)
    d = float(np.max(np.abs(fz - (a * fx + b * fy))))
    # rounding: second-order sections ~1e-12; (b, a) form of order 5 loses ~3e-18 / Wn^5 (measured), mirrored at Nyquist
    wn = fcs[0] * 2.0 * dt
    lin_tol = max(1e-10, 1e-16 / min(wn, 1.0 - wn) ** 5) if kind in ("lp", "hp") else 1e-10
    if d > lin_tol * sc:
        fails.append((O_LIN, "max |F(a x + b y) - a F(x) - b F(y)| <= %g" % (lin_tol * sc), d))
    const = np.full(n, mean)
    fc_, e4 = call(fn, const, dt, *fcs)
    if e4:
        return fails + [(O_RETURNS, "array", e4)], None
    lo, hi = int(0.2 * n), int(0.8 * n)
    G0 = 1.0 if kind in ("lp", "bs") else 0.0
    dm = float(np.max(np.abs(fc_[lo:hi] - mean * G0)))
    if dm > TOL * (abs(mean) + 1e-3):
        fails.append((O_MEAN, "constant %r -> %r" % (mean, mean * G0), "deviation %g" % dm))
    other = dict(lp="hp", hp="lp", bp="bs", bs="bp")[kind]
    z = a * x + b * np.cos(2 * np.pi * f2 * t + ph2)
    p, e5 = call(fn, z, dt, *fcs)
    q, e6 = call(getattr(qs, FUNC[other]), z, dt, *fcs)
    if e5 or e6:
        return fails + [(O_RETURNS, "array", e5 or e6)], None
    ds = float(np.max(np.abs((p + q - z)[lo:hi])))
    if ds > TOL * sc:
        fails.append((O_SUM, "max |F(z) + F'(z) - z| <= %g on the central 60 %%" % (TOL * sc), ds))
    idx = [lo + ((hi - lo) * j) // 7 for j in range(1, 7)]
    probe = dict(idx=idx, t=[float(t[i]) for i in idx], y=[float(p[i]) for i in idx], scale=sc)
    return fails, probe


# ----------------------------------------------------------------------------------------------------------------------
# TimeSeries level
# ----------------------------------------------------------------------------------------------------------------------
NAME = "c12"
VIAS = ("get", "filter", "modify", "copy", "geta", "getda", "trace")


def ts_build(case):
    """stored series and the options of the variant (in the case's spelling); the sinusoid is sampled exactly at the stored times"""
    from qats import TimeSeries
    kind, dt, f, A, ph, mean, n, var, k, t0 = (case[key] for key in ("kind", "dt", "f", "A", "ph", "mean", "n", "variant", "k", "t0"))
    sp = case.get("spell") or {}
    if var == "irregular":
        jit = np.array(case["jitter"])
        idx = np.arange(n, dtype=float)
        idx[1:-1] += jit[: n - 2]
        t = t0 + idx * dt
    else:
        t = t0 + np.arange(n) * dt
    x = mean + A * np.sin(2 * np.pi * f * t + ph)
    stored = sp.get("stored")
    if stored == "t-int":                                # integral dt and t0: the time array handed over as integers
        ts = TimeSeries(NAME, int(t0) + np.arange(n) * int(dt), x)
    elif stored == "x-float32":
        ts = TimeSeries(NAME, t, x.astype(np.float32))
    elif stored == "x-int64":                            # amplitude >= 2^30
        ts = TimeSeries(NAME, t, np.rint(x).astype(np.int64))
    elif stored == "readonly":                           # the caller's arrays are read-only
        tr, xr = t.copy(), x.copy()
        tr.setflags(write=False)
        xr.setflags(write=False)
        ts = TimeSeries(NAME, tr, xr)
    else:
        ts = TimeSeries(NAME, t, x)
    kw = {}
    seq = list if sp.get("twin") == "list" else tuple
    if var in ("window", "window+step"):
        i0 = int(0.1 * n)
        i1 = i0 + ((int(0.9 * n) - i0) // k) * k        # retained span divisible by k: the new grid hits stored samples
        kw["twin"] = seq((float(t[i0]), float(t[i1])))
    elif sp.get("noop_twin") == "exact":                # options that are given but change nothing
        kw["twin"] = seq((float(t[0]), float(t[-1])))
    elif sp.get("noop_twin") == "wide":
        kw["twin"] = seq((float(t[0]) - 10.0 * dt, 1e12))
    if var in ("step", "window+step"):
        kw["resample"] = conv(k * dt, sp.get("step"))
    if var == "array":
        kw["resample"] = t[::k].copy() if sp.get("array") != "list" else t[::k].tolist()
    if case.get("taperfrac") is not None:
        kw["taperfrac"] = case["taperfrac"]
    elif "noop_taper" in sp:
        kw["taperfrac"] = sp["noop_taper"]              # 0, 0.0 or 1.0: no tapering
    if sp.get("noop_smooth"):
        kw["window_len"] = 1
    return ts, kw


def ts_fargs(case):
    sp = case.get("spell") or {}
    fa = [case["kind"]] + [conv(c, sp.get("fc")) for c in case["fcs"]]
    return fa if sp.get("fargs") == "list" else tuple(fa)


def ts_route(ts, via, fargs, kw):
    """the filtered (time, data) through one of the public routes that reach the filters"""
    if via == "get":
        return ts.get(filterargs=fargs, **kw)
    if via == "filter":
        extra = {k: v for k, v in kw.items() if k not in ("twin", "taperfrac")}
        if extra:
            raise RuntimeError("harness: filter() has no option %s" % sorted(extra))
        freq = fargs[1] if len(fargs) == 2 else (tuple(fargs[1:]) if isinstance(fargs, tuple) else list(fargs[1:]))
        return ts.filter(fargs[0], freq, **kw)
    if via == "modify":
        ts.modify(filterargs=fargs, **kw)
        return ts.t, ts.x
    if via == "copy":
        return ts.copy().get(filterargs=fargs, **kw)
    if via in ("geta", "getda"):
        from qats import TsDB
        db = TsDB()
        db.add(ts)
        if via == "geta":
            return db.geta(name=NAME, filterargs=fargs, **kw)
        return db.getda(names=NAME, filterargs=fargs, **kw)[NAME]
    if via == "trace":
        from qats.app.funcs import calculate_trace
        extra = {k: v for k, v in kw.items() if k != "twin"}
        if extra:
            raise RuntimeError("harness: calculate_trace has no option %s" % sorted(extra))
        r = calculate_trace({NAME: ts}, kw.get("twin"), fargs)[NAME]
        return r["t"], r["x"]
    raise RuntimeError("harness: unknown route %r" % (via,))


def ts_response(case, t2, y, sfx=""):
    """clauses on a (time, data) pair returned by a TimeSeries-level call; (failures, measurement, dt of the returned time array)"""
    kind, fcs, f, A, ph, mean = (case[k] for k in ("kind", "fcs", "f", "A", "ph", "mean"))
    try:
        t2, y = np.asarray(t2, dtype=float), np.asarray(y, dtype=float)
    except Exception as e:
        return [(O_RETURNS + sfx, "time and data arrays", "not arrays of numbers: %r" % (e,))], None, None
    if t2.ndim != 1 or t2.shape != y.shape or len(t2) < 2 or not np.all(np.isfinite(y)):
        return [(O_RETURNS + sfx, "time and data of equal length", "%s / %s%s" % (t2.shape, y.shape, "" if np.all(np.isfinite(y)) else " non-finite"))], None, None
    dt2 = float(t2[1] - t2[0])
    if not dt2 > 0:
        return [(O_RETURNS + sfx, "increasing time array", "first step %r" % dt2)], None, None
    g, m, res = fit(t2, y, f, ph, A)
    sc = A + abs(mean)
    irregular = case.get("variant") == "irregular"
    tol = TOL_IRR if irregular else TOL
    fails = []
    G0 = 1.0 if kind in ("lp", "bs") else 0.0
    if not all(0 < c < 0.5 / dt2 for c in fcs):
        # the harness only asks for cut-offs below the Nyquist frequency of the series the filter must see
        return [(O_TSREF + sfx, "time step %g of the processed series" % (case["dt"] * case.get("k", 1)), "returned time step %g" % dt2)], None, dt2
    G = ref_gain(kind, dt2, fcs, f)
    meas = dict(gain=[g.real, g.imag], mean=m, residual=res, ref=G, dt_returned=dt2, n_returned=len(t2))
    if not abs(g - G) * A <= tol * sc:
        fails.append((O_TSREF + sfx, [G, 0.0], [g.real, g.imag]))
    if any(abs(f - c) <= 1e-12 * c for c in fcs) and not abs(g - 0.5) * A <= tol * sc:
        fails.append((O_HALF + sfx, [0.5, 0.0], [g.real, g.imag]))
    if not irregular and not res <= 5 * tol * sc:
        fails.append((O_PURE + sfx, "residual <= %g" % (5 * tol * sc), res))
    if not abs(m - mean * G0) <= tol * sc:
        fails.append((O_MEAN + sfx, mean * G0, m))
    return fails, meas, dt2


def ts_clauses(case, want_rec=False):
    """clauses through TimeSeries.get / TimeSeries.filter (or the route named by `via`); returns
    (failures, measurement, recorded design, processed dt)"""
    kind, fcs, f, A, ph, mean = (case[k] for k in ("kind", "fcs", "f", "A", "ph", "mean"))
    via = case.get("via", "get")
    ts, err0 = call(lambda: ts_build(case))
    if err0 is not None:
        return [(O_RETURNS, "a TimeSeries", "constructing the series: " + err0)], None, None, None
    ts, kw = ts
    fargs = ts_fargs(case)
    fails, rec = [], None
    if want_rec:
        with Recorder() as r:
            out, err = call(ts_route, ts, via, fargs, kw)
        rec = summarize(r.calls, None)
    else:
        out, err = call(ts_route, ts, via, fargs, kw)
    if err is None and not (isinstance(out, (tuple, list)) and len(out) == 2):
        err = "returned %s instead of (time, data)" % type(out).__name__
    if err is not None:
        return [(O_RETURNS, "(time, data)", err)], None, rec, None
    t2, y = out
    fails, meas, dt2 = ts_response(case, t2, y)
    if meas is None:
        return fails, None, rec, None
    # filter() delegates
    if "resample" not in kw and "window_len" not in kw and via not in ("modify", "filter"):
        freq = fcs[0] if len(fcs) == 1 else tuple(fcs)
        o2, err2 = call(ts.filter, kind, freq, twin=kw.get("twin"), taperfrac=kw.get("taperfrac"))
        if err2 is not None:
            fails.append((O_DELEG, "same arrays as get()", err2))
        elif not (np.array_equal(o2[0], t2) and np.array_equal(o2[1], y)):
            fails.append((O_DELEG, "same arrays as get()", "max difference %g" % float(np.max(np.abs(np.asarray(o2[1]) - y)))
                          if np.shape(o2[1]) == np.shape(y) else "different shapes"))
    return fails, meas, rec, dt2


# ----------------------------------------------------------------------------------------------------------------------
# case generation
# ----------------------------------------------------------------------------------------------------------------------
def pick_dt(rng):
    if rng.random() < 0.25:
        return rng.choice([1.0, 0.5, 0.25, 0.125, 0.1, 0.05, 0.01, 2.0, 4.0])
    return 10 ** rng.uniform(-3, 1)


def pick_cutoffs(rng, kind, nyq, lo):
    if kind in ("lp", "hp"):
        return [nyq * 10 ** rng.uniform(math.log10(lo), math.log10(0.97))]
    a = 10 ** rng.uniform(math.log10(lo), math.log10(0.85))
    b = min(0.975, max(a + lo, a * rng.uniform(1.08, 4.0)))
    return [nyq * a, nyq * b]


def pick_f(rng, fcs, nyq):
    u = rng.random()
    if u < 0.3:
        f = rng.choice(fcs)
    elif u < 0.7:
        f = rng.choice(fcs) * 10 ** rng.uniform(-0.3, 0.3)
    else:
        f = rng.uniform(0.01, 0.985) * nyq
    if f != fcs[0] and f != fcs[-1]:
        f = min(0.985 * nyq, max(0.01 * nyq, f))
    return f


def gen_signal_case(rng, lo, kind=None):
    kind = kind or rng.choice(KINDS)
    dt = pick_dt(rng)
    nyq = 0.5 / dt
    fcs = pick_cutoffs(rng, kind, nyq, lo)
    f = pick_f(rng, fcs, nyq)
    return dict(level="signal", kind=kind, dt=dt, fcs=fcs, f=f, A=10 ** rng.uniform(-1, 1), ph=rng.uniform(-math.pi, math.pi),
                mean=rng.choice([0.0, rng.uniform(-5, 5)]), n=record_length(dt, fcs))


def corner_cases():
    out = []

    def add(kind, dt, fr, ff, A=1.0, ph=0.3, mean=2.0):
        nyq = 0.5 / dt
        fcs = [c * nyq for c in fr]
        out.append(dict(level="signal", kind=kind, dt=dt, fcs=fcs, f=(fcs[ff[1]] if ff[0] == "edge" else ff[1] * nyq), A=A, ph=ph,
                        mean=mean, n=record_length(dt, fcs)))
    for kind in ("lp", "hp"):
        add(kind, 1.0, [0.5], ("edge", 0))              # Wn = 1/2: W(fc) = 1
        add(kind, 0.001, [0.02], ("edge", 0))
        add(kind, 10.0, [0.97], ("edge", 0))
        add(kind, 0.1, [0.2], ("at", 0.1))              # half the cut-off
        add(kind, 0.1, [0.2], ("at", 0.4))              # twice the cut-off
        add(kind, 0.25, [0.3], ("at", 0.3 * 1.15))
    for kind in ("bp", "bs"):
        add(kind, 1.0, [0.25, 0.5], ("edge", 0))
        add(kind, 1.0, [0.25, 0.5], ("edge", 1))
        add(kind, 0.5, [0.02, 0.04], ("edge", 1))
        add(kind, 0.01, [0.9, 0.97], ("edge", 0))
        # warped centre of the band: tan^2(pi f dt) = tan(pi f1 dt) tan(pi f2 dt)
        w = math.sqrt(math.tan(math.pi * 0.25 / 2) * math.tan(math.pi * 0.5 / 2))
        add(kind, 1.0, [0.25, 0.5], ("at", 2 * math.atan(w) / math.pi))
        add(kind, 2.0, [0.3, 0.6], ("at", 0.05))
    return out


def f32(v):
    return float(np.float32(v))


def gen_boundary_case(rng, lo, what=None, kind=None, p2=None):
    """signal-level cases at the rim of the quantifier: extreme sampling intervals, cut-offs up to 0.99 Nyquist, test
    frequencies next to 0 and to Nyquist, other units (x 2^p), large mean levels"""
    what = what or rng.choice(["dt", "dt", "cut-high", "f-low", "f-high", "pow2", "pow2", "offset"])
    kind = kind or rng.choice(KINDS)
    dt = pick_dt(rng)
    if what == "dt":
        dt = rng.choice([10 ** rng.uniform(-6, -3), 10 ** rng.uniform(1, 3.5), 2.0 ** -20, 2.0 ** 10, 1e-6, 3600.0, 1.0 / 3.0])
    nyq = 0.5 / dt
    fcs = pick_cutoffs(rng, kind, nyq, lo)
    if what == "cut-high":
        top = rng.uniform(0.975, 0.99)
        fcs = [nyq * top] if kind in ("lp", "hp") else [nyq * top * rng.uniform(0.3, 0.95), nyq * top]
    f = pick_f(rng, fcs, nyq)
    if what == "f-low":
        f = nyq * rng.uniform(0.002, 0.01)
    elif what == "f-high":
        f = nyq * rng.uniform(0.985, 0.998)
    elif what == "cut-high" and rng.random() < 0.5:
        f = fcs[-1]
    A, mean = 10 ** rng.uniform(-1, 1), rng.choice([0.0, rng.uniform(-5, 5)])
    case = dict(level="signal", kind=kind, dt=dt, fcs=fcs, f=f, ph=rng.uniform(-math.pi, math.pi), boundary=what)
    if what == "pow2":
        p2 = p2 if p2 is not None else rng.choice([-200, -100, -40, 40, 100, 200])
        A, mean = A * 2.0 ** p2, mean * 2.0 ** p2
        case["pow2"] = p2
    elif what == "offset":
        mean = rng.choice([-1.0, 1.0]) * A * 10 ** rng.uniform(2, 3)
    n = record_length(dt, fcs)
    n = int(min(80000, max(n, math.ceil(12.0 / (f * dt) / 0.6))))   # at least 12 periods in the fitted part
    case.update(A=A, mean=mean, n=n)
    return case


def gen_spelled_signal_case(rng, lo):
    """the same request in another spelling: container / dtype / layout of the signal, numeric type of dt and of the cut-offs,
    keyword call, explicit default order; half of the cases are issued twice with the same array object"""
    kind = rng.choice(KINDS)
    sp = {}
    u = rng.random()
    if u < 0.3:                                          # integral cut-offs (Nyquist must be above them)
        sp["fc"] = rng.choice(["int", "np.int64"])
        dt = rng.choice([0.01, 0.02, 0.05, 0.1, 0.125])
        nyq = 0.5 / dt
        top = int(0.9 * nyq)
        if kind in ("lp", "hp"):
            fcs = [float(rng.randint(1, top))]
        else:
            a_ = rng.randint(1, top - 1)
            fcs = [float(a_), float(rng.randint(a_ + 1, top))]
    elif u < 0.5:                                        # integral sampling interval
        sp["dt"] = rng.choice(["int", "np.int64"])
        dt = float(rng.choice([1, 2, 4, 10]))
        fcs = pick_cutoffs(rng, kind, 0.5 / dt, lo)
    else:
        dt = rng.choice([1.0, 0.5, 0.25, 0.125, 2.0 ** -6, 2.0, 0.1, 0.05])
        sp["dt"] = rng.choice(["float", "np.float64", "np.float32"])
        if sp["dt"] == "np.float32":
            dt = f32(dt)
        fcs = pick_cutoffs(rng, kind, 0.5 / dt, lo)
        sp["fc"] = rng.choice(["float", "np.float64", "np.float32"])
        if sp["fc"] == "np.float32":
            fcs = [f32(c) for c in fcs]
    nyq = 0.5 / dt
    f = pick_f(rng, fcs, nyq)
    sp["x"] = rng.choice(["ndarray", "list", "tuple", "float32", "int64", "strided", "reversed", "readonly", "readonly"])
    sp["call"] = rng.choice(["pos", "kw", "kw-cut", "order-pos", "order-kw", "order-np"])
    A, mean = 10 ** rng.uniform(-1, 1), rng.choice([0.0, rng.uniform(-5, 5)])
    if sp["x"] == "int64":
        A, mean = A * 2.0 ** 32, float(round(mean * 2.0 ** 32))
    return dict(level="signal", kind=kind, dt=dt, fcs=fcs, f=f, A=A, ph=rng.uniform(-math.pi, math.pi), mean=mean,
                n=record_length(dt, fcs), spell=sp, twice=rng.random() < 0.5)


def gen_ts_case(rng, lo, variant, spelled=False):
    kind = rng.choice(KINDS)
    dt = pick_dt(rng)
    sp = {}
    if spelled:
        sp["fc"] = rng.choice(["float", "float", "np.float64", "np.float32", "int", "np.int64"])
        sp["stored"] = rng.choice(["ndarray", "ndarray", "t-int", "x-float32", "x-int64", "readonly"])
        if variant == "irregular":
            raise ValueError("harness: no spelled irregular cases")
        if sp["stored"] == "t-int":
            dt = float(rng.choice([1, 2, 5]))
            if sp["fc"] in ("int", "np.int64"):
                sp["fc"] = "np.float64"
        elif sp["fc"] in ("int", "np.int64"):
            dt = rng.choice([0.01, 0.02, 0.05, 0.0625])
        elif variant in ("step", "window+step"):
            sp["step"] = rng.choice(["float", "np.float64", "np.float32"])
            if sp["step"] == "np.float32":
                dt = rng.choice([1.0, 0.5, 0.25, 0.125, 2.0 ** -6, 2.0])     # k*dt must be a float32
        elif rng.random() < 0.25:                        # extreme sampling intervals
            dt = rng.choice([10 ** rng.uniform(-6, -3), 10 ** rng.uniform(1, 3.5), 2.0 ** -20, 3600.0, 1e-6])
            sp["dt"] = "extreme"
    k = rng.choice([2, 3]) if variant in ("step", "window+step", "array") else 1
    dt2 = k * dt                                        # step of the returned time array
    nyq2 = 0.5 / dt2
    if variant == "irregular":
        # keep f*dt small: the code interpolates the stored samples linearly onto an equidistant grid first
        f = nyq2 * rng.uniform(0.012, 0.02)
        if kind in ("lp", "hp"):
            fcs = [f * 10 ** rng.uniform(-0.25, 0.25)]
        else:
            c = f * 10 ** rng.uniform(-0.2, 0.2)
            fcs = [c * 0.7, c * 1.5]
        fcs = [max(c, 0.0085 * nyq2) for c in fcs]
    else:
        fcs = pick_cutoffs(rng, kind, nyq2, lo)
        if sp.get("fc") in ("int", "np.int64"):
            top = int(0.9 * nyq2)
            if kind in ("lp", "hp"):
                fcs = [float(rng.randint(1, top))]
            else:
                a_ = rng.randint(1, top - 1)
                fcs = [float(a_), float(rng.randint(a_ + 1, top))]
        elif sp.get("fc") == "np.float32":
            fcs = [f32(c) for c in fcs]
        f = pick_f(rng, fcs, nyq2)
    n2 = record_length(dt2, fcs)                        # samples the filter must see
    if variant in ("window", "window+step"):
        n2 = int(n2 / 0.8) + 2
    n = (n2 - 1) * k + 1                                # stored samples; (n - 1) divisible by k: grids coincide
    t0 = rng.choice([0.0, 0.0, round(rng.uniform(-50, 500), 1)])
    A, mean = 10 ** rng.uniform(-1, 1), rng.choice([0.0, rng.uniform(-5, 5)])
    case = dict(level="ts", variant=variant, kind=kind, dt=dt, k=k, fcs=fcs, f=f, A=A,
                ph=rng.uniform(-math.pi, math.pi), mean=mean, n=n, t0=t0,
                taperfrac=(rng.choice([0.05, 0.1]) if variant == "taper" else None))
    if spelled:
        if sp["stored"] == "t-int":
            case["t0"] = float(rng.choice([0, 0, -40, 1000]))
        elif rng.random() < 0.25:
            case["t0"] = rng.choice([2.0 ** 20, -2.0 ** 16, 1.0e6]) if dt >= 1e-2 else 2.0 ** 10   # large time offsets
        if sp["stored"] == "x-int64":
            case["A"], case["mean"] = A * 2.0 ** 32, float(round(mean * 2.0 ** 32))
        sp["fargs"] = rng.choice(["tuple", "list"])
        sp["twin"] = rng.choice(["tuple", "list"])
        if variant == "array":
            sp["array"] = rng.choice(["ndarray", "list"])
        if variant not in ("window", "window+step", "array") and rng.random() < 0.5:
            sp["noop_twin"] = rng.choice(["exact", "wide"])
        if variant != "taper" and rng.random() < 0.5:
            sp["noop_taper"] = rng.choice([0, 0.0, 1.0])
        if rng.random() < 0.2:
            sp["noop_smooth"] = True
        has_twin = variant == "window" or "noop_twin" in sp
        routes = ["get", "modify", "copy", "geta", "getda"]
        if variant in ("plain", "window", "taper") and not sp.get("noop_smooth"):
            routes.append("filter")
            if variant != "taper" and "noop_taper" not in sp:
                routes += ["trace", "trace"]
        case["via"] = rng.choice(routes)
        case["spell"] = sp
    if variant == "irregular":
        case["jitter"] = [rng.uniform(-0.2, 0.2) for _ in range(n - 2)]
    return case


# ----------------------------------------------------------------------------------------------------------------------
# histories: several requests on one TimeSeries object / several calls in one process that share arguments
# ----------------------------------------------------------------------------------------------------------------------
def gen_hist_case(rng):
    """one series, 6-9 steps: filtered retrievals (type / cut-offs / resampling step vary, often only one of them w.r.t. the
    previous step), rejected requests, the data replaced or scaled in place, a second object built from the same arrays"""
    dt = rng.choice([0.05, 0.1, 0.2, 0.5, 1.0, 10 ** rng.uniform(-2, 0)])
    nyq3 = 0.5 / (3 * dt)                               # Nyquist of the coarsest grid (resampling to 3 dt)
    f = nyq3 * rng.uniform(0.4, 0.6)
    c1, c2 = f * rng.uniform(0.55, 0.75), f * rng.uniform(1.3, 1.5)       # band widths >= 0.1 of the coarsest Nyquist frequency
    pool1 = [[c1], [c2], [f]]
    pool2 = [[c1, c2], [c1, f], [f, c2]]
    steps = []
    prev = None
    for _ in range(rng.randint(6, 9)):
        u = rng.random()
        if u < 0.62 or prev is None:
            if prev is not None and rng.random() < 0.6:  # change exactly one thing
                st = dict(prev)
                w = rng.choice(["k", "k", "kind", "fcs"])
                if w == "k":
                    st["k"] = rng.choice([k for k in (1, 2, 3) if k != prev["k"]])
                elif w == "kind":
                    st["kind"] = dict(lp="hp", hp="lp", bp="bs", bs="bp")[prev["kind"]]
                else:
                    st["fcs"] = rng.choice([c for c in (pool1 if len(prev["fcs"]) == 1 else pool2) if c != prev["fcs"]])
            else:
                kind = rng.choice(KINDS)
                st = dict(op="get", kind=kind, fcs=rng.choice(pool1 if kind in ("lp", "hp") else pool2), k=rng.choice([1, 1, 2, 3]))
            st["via"] = rng.choice(["get", "get", "filter", "copy", "geta"]) if st["k"] == 1 else rng.choice(["get", "get", "copy", "geta"])
            st["window"] = rng.random() < 0.3
            prev = {k: st[k] for k in ("op", "kind", "fcs", "k")}
            steps.append(st)
        elif u < 0.74:
            steps.append(dict(op="bad", what=rng.choice(["above-nyquist", "arity", "type", "array+twin", "outside"])))
        elif u < 0.84:
            steps.append(dict(op="set_x", A=10 ** rng.uniform(-1, 1), ph=rng.uniform(-math.pi, math.pi), mean=rng.choice([0.0, rng.uniform(-5, 5)])))
        elif u < 0.92:
            steps.append(dict(op="scale_x", p=rng.choice([-3, -1, 1, 2])))
        else:
            kind = rng.choice(KINDS)
            steps.append(dict(op="second_object", kind=kind, fcs=rng.choice(pool1 if kind in ("lp", "hp") else pool2)))
    return dict(level="hist", dt=dt, f=f, A=10 ** rng.uniform(-1, 1), ph=rng.uniform(-math.pi, math.pi),
                mean=rng.choice([0.0, rng.uniform(-5, 5)]), n=6 * ((max(record_length(3 * dt, c) for c in pool1 + pool2) + 201) // 2) + 1, t0=rng.choice([0.0, round(rng.uniform(-50, 500), 1)]), steps=steps)


def hist_clauses(case):
    """runs the history; the response clauses are evaluated on every filtered retrieval.  Returns (failures, n evaluated, worst)"""
    from qats import TimeSeries
    dt, f, n, t0 = case["dt"], case["f"], case["n"], case["t0"]
    cur = dict(A=case["A"], ph=case["ph"], mean=case["mean"])
    t_src = t0 + np.arange(n) * dt
    x_src = cur["mean"] + cur["A"] * np.sin(2 * np.pi * f * t_src + cur["ph"])
    src0 = dict(cur)
    ts, err = call(TimeSeries, NAME, t_src, x_src)
    if err is not None:
        return [(O_RETURNS, "a TimeSeries", "constructing the series: " + err)], 0, 0.0
    fails, done, worst = [], 0, 0.0

    def judge(i, st, obj, who, via):
        nonlocal done, worst
        k = st.get("k", 1)
        kw = {}
        if st.get("window"):
            i0 = 300
            i1 = i0 + ((n - 300 - i0) // 6) * 6
            kw["twin"] = (float(t_src[i0]), float(t_src[i1]))
        if k > 1:
            kw["resample"] = float(k * dt)
        sfx = " [history step %d: %s %s %s via %s%s%s]" % (i + 1, st["kind"], ["%.6g" % c for c in st["fcs"]], "resample=%d*dt" % k if k > 1 else "stored step",
                                                        via, ", window" if st.get("window") else "", who)
        out, e = call(ts_route, obj, via, (st["kind"],) + tuple(st["fcs"]), kw)
        if e is None and not (isinstance(out, (tuple, list)) and len(out) == 2):
            e = "returned %s instead of (time, data)" % type(out).__name__
        if e is not None:
            fails.append((O_RETURNS + sfx, "(time, data)", e))
            return
        c = dict(kind=st["kind"], fcs=st["fcs"], f=f, dt=dt, k=k, variant="hist", **who_state[who])
        fl, meas, _ = ts_response(c, out[0], out[1], sfx)
        fails.extend(fl)
        done += 1
        if meas is not None:
            G0 = 1.0 if st["kind"] in ("lp", "bs") else 0.0
            worst = max(worst, max(abs(complex(*meas["gain"]) - meas["ref"]) * c["A"], abs(meas["mean"] - c["mean"] * G0)) / (c["A"] + abs(c["mean"])))

    who_state = {"": cur, ", second object from the same arrays": src0}
    for i, st in enumerate(case["steps"]):
        op = st["op"]
        if op == "get":
            judge(i, st, ts, "", st["via"])
        elif op == "bad":                               # a request that cannot be served; what it does is not judged here
            w = st["what"]
            if w == "above-nyquist":
                call(ts.get, filterargs=("lp", 0.6 / dt))
            elif w == "arity":
                call(ts.filter, "bp", 0.1 * 0.5 / dt)
                call(ts.get, filterargs=("lp",))
            elif w == "type":
                call(ts.get, filterargs=("xx", 0.1 * 0.5 / dt))
            elif w == "array+twin":
                call(ts.get, filterargs=("hp", 0.1 * 0.5 / dt), resample=t_src[::2].copy(), twin=(float(t_src[0]), float(t_src[-1])))
            else:
                call(ts.get, filterargs=("hp", 0.1 * 0.5 / dt), resample=np.array([t_src[0] - 5 * dt, t_src[0], t_src[1]]))
        elif op == "set_x":
            cur.update(A=st["A"], ph=st["ph"], mean=st["mean"])
            _, e = call(setattr, ts, "x", cur["mean"] + cur["A"] * np.sin(2 * np.pi * f * t_src + cur["ph"]))
            if e is not None:
                fails.append((O_RETURNS + " [history step %d: data replaced]" % (i + 1), "assignment", e))
        elif op == "scale_x":
            try:
                ts.x *= 2.0 ** st["p"]
                cur.update(A=cur["A"] * 2.0 ** st["p"], mean=cur["mean"] * 2.0 ** st["p"])
            except Exception as e:
                fails.append((O_RETURNS + " [history step %d: data scaled in place]" % (i + 1), "in-place scaling of ts.x", repr(e)))
        elif op == "second_object":
            ts2, e = call(TimeSeries, NAME + "b", t_src, x_src)
            if e is not None:
                fails.append((O_RETURNS, "a TimeSeries", "constructing a second series from the same arrays: " + e))
            else:
                judge(i, st, ts2, ", second object from the same arrays", "get")
    return fails, done, worst


def gen_seq_case(rng):
    """6-10 calls of qats.signal filters in one process; consecutive calls share the cut-off(s) and differ in the sampling
    interval or in the filter type (state carried between calls would show)"""
    dts = rng.sample([0.05, 0.1, 0.125, 0.2, 0.25, 0.5], 3)
    fmax = 0.4 * 0.5 / max(dts)
    c1, c2 = fmax * rng.uniform(0.5, 0.65), fmax * rng.uniform(0.75, 1.0)
    if rng.random() < 0.3 and max(dts) <= 0.2:
        c1, c2 = 1.0, 2.0 if max(dts) <= 0.125 else 1.5
    steps = []
    kind = rng.choice(KINDS)
    fcs = [c1] if kind in ("lp", "hp") else [c1, c2]
    dt = rng.choice(dts)
    for _ in range(rng.randint(6, 10)):
        w = rng.choice(["dt", "dt", "kind", "cut"])
        if w == "dt":
            dt = rng.choice([d for d in dts if d != dt])
        elif w == "kind":
            kind = rng.choice([k for k in KINDS if k != kind])
            fcs = fcs[:1] if kind in ("lp", "hp") else ([c1, c2] if len(fcs) == 1 else fcs)
        else:
            fcs = [rng.choice([c1, c2])] if kind in ("lp", "hp") else [c1, c2]
        f = rng.choice(fcs) if rng.random() < 0.6 else rng.choice(fcs) * 10 ** rng.uniform(-0.15, 0.15)
        steps.append(dict(kind=kind, dt=dt, fcs=list(fcs), f=f, ints=(rng.random() < 0.3 and all(float(c).is_integer() for c in fcs))))
    return dict(level="seq", steps=steps, A=10 ** rng.uniform(-1, 1), ph=rng.uniform(-math.pi, math.pi), mean=rng.choice([0.0, rng.uniform(-5, 5)]))


def seq_clauses(case):
    fails, worst = [], 0.0
    for i, st in enumerate(case["steps"]):
        c = dict(level="signal", kind=st["kind"], dt=st["dt"], fcs=st["fcs"], f=st["f"], A=case["A"], ph=case["ph"], mean=case["mean"],
                 n=record_length(st["dt"], st["fcs"]))
        if st.get("ints"):
            c["spell"] = dict(fc="int")
        fl, meas, _ = sig_clauses(c)
        sfx = " [call %d of a sequence in one process: %s dt=%g cut-offs %s]" % (i + 1, st["kind"], st["dt"], st["fcs"])
        fails += [(o + sfx, e, ob) for o, e, ob in fl]
        if meas is not None:
            worst = max(worst, abs(complex(*meas["gain"]) - meas["ref"]) * c["A"] / (c["A"] + abs(c["mean"])))
    return fails, worst


# ----------------------------------------------------------------------------------------------------------------------
# exact tie of the model's tsGet / tsFilter: tag functions in place of scipy's routines and of the taper
# ----------------------------------------------------------------------------------------------------------------------
KCODE = dict(lowpass=1.0, highpass=2.0, bandpass=3.0, bandstop=4.0)


class Token:
    """what the tagged `butter` returns: the design, to be written out by the tagged forward-backward routine"""
    def __init__(self, enc):
        self.enc = enc


class TagScipy:
    """butter / filtfilt / sosfiltfilt as seen by qats.signal and taper as seen by qats.ts replaced by tag functions:
    `butter` returns the design as a token, the routines return `[order, code(btype), Wn…] ++ x`, taper returns `x + 1`"""

    def __enter__(self):
        import qats.signal as qs
        import qats.ts as qt
        import scipy.signal as ss
        self.qs, self.qt = qs, qt
        self.saved = {k: getattr(qs, k, None) for k in Recorder.NAMES}
        self.saved_taper = getattr(qt, "taper", None)
        sig = inspect.signature(ss.butter)

        def butter(*a, **k):
            ba = sig.bind(*a, **k)
            ba.apply_defaults()
            b = ba.arguments
            wn = [float(v) for v in np.atleast_1d(b["Wn"])]
            if b.get("fs") is not None:
                wn = [2.0 * w / float(b["fs"]) for w in wn]
            if b["analog"]:
                raise ValueError("tag: analog design")
            tok = Token([float(int(b["N"])), KCODE[BT_NORM.get(str(b["btype"]).lower(), str(b["btype"]))]] + wn)
            out = b.get("output", "ba")
            return tok if out == "sos" else ((tok, tok) if out == "ba" else (tok, tok, tok))

        def filtfilt(b, a, x, *r, **k):
            if not isinstance(b, Token):
                raise TypeError("tag: coefficients do not come from butter")
            return np.concatenate([np.array(b.enc), np.asarray(x, dtype=float)])

        def sosfiltfilt(sos, x, *r, **k):
            if not isinstance(sos, Token):
                raise TypeError("tag: coefficients do not come from butter")
            return np.concatenate([np.array(sos.enc), np.asarray(x, dtype=float)])

        def taper(x, *a, **k):
            return np.asarray(x, dtype=float) + 1.0, 1.0
        for name, fn in (("butter", butter), ("filtfilt", filtfilt), ("sosfiltfilt", sosfiltfilt)):
            setattr(qs, name, fn)
        qt.taper = taper
        return self

    def __exit__(self, *exc):
        for k, v in self.saved.items():
            if v is None:
                try:
                    delattr(self.qs, k)
                except AttributeError:
                    pass
            else:
                setattr(self.qs, k, v)
        if self.saved_taper is not None:
            self.qt.taper = self.saved_taper
        else:
            try:
                del self.qt.taper
            except AttributeError:
                pass
        return False


def F(v):
    from fractions import Fraction
    return Fraction(v)


def gen_tag_case(rng):
    """small dyadic series + request for the exact tie; `route` = get (tsGet) or filter (tsFilter, any number of frequencies)"""
    from fractions import Fraction
    n = rng.choice([3, 4, 5, 8, 9, 16, 24])
    if rng.random() < 0.7:
        h = Fraction(1, rng.choice([1, 2, 4, 8])) * rng.choice([1, 2])
        t0 = Fraction(rng.randint(-8, 8), 2)
        t = [t0 + i * h for i in range(n)]
    else:
        t = [Fraction(rng.randint(-8, 8), 2)]
        for _ in range(n - 1):
            t.append(t[-1] + Fraction(rng.choice([1, 2, 3, 5]), rng.choice([2, 4, 8])))
    x = [Fraction(rng.randint(-64, 64), rng.choice([1, 2, 4])) for _ in range(n)]
    route = rng.choice(["get", "get", "filter"])
    kind = rng.choice(KINDS)
    arity = 1 if kind in ("lp", "hp") else 2
    nf = arity if (route == "get" or rng.random() < 0.65) else rng.choice([0, 1, 2, 3])
    freqs = sorted(Fraction(rng.randint(1, 24), rng.choice([16, 32, 64, 128])) for _ in range(nf))
    lo, hi = t[0], t[-1]
    o = dict(twin=None, resample=None, taper=rng.random() < 0.4)
    if rng.random() < 0.5:
        a = rng.choice([lo, t[len(t) // 3], lo - 1, lo + (hi - lo) * Fraction(rng.randint(0, 8), 8), hi + 1])
        b = rng.choice([hi, t[-2], hi + 1, a + (hi - a) * Fraction(rng.randint(0, 8), 8), lo - 1, a])
        o["twin"] = (a, b)
    if route == "get":
        u = rng.random()
        if u < 0.35:
            o["resample"] = ("step", (hi - lo) * Fraction(1, rng.choice([1, 2, 3, 4, 5, 7, 8])) * rng.choice([Fraction(1), Fraction(3, 2), Fraction(1, 2)]))
        elif u < 0.5 and o["twin"] is None:
            m = rng.choice([2, 3, 5, 8])
            # strictly increasing (two equal leading times would ask for a filter with dt = 0: division by zero in the code)
            pts = sorted(set(rng.choice([lo + (hi - lo) * Fraction(rng.randint(0, 16), 16), t[rng.randrange(len(t))]]) for _ in range(m)))
            if rng.random() < 0.2:
                pts.append(hi + Fraction(1, 8))
            o["resample"] = ("arr", pts)
        elif u < 0.56 and o["twin"] is not None:
            o["resample"] = ("arr", [lo, hi])           # array + window: refused
    if o["resample"] is not None and o["resample"][0] == "step":
        # the number of grid points is round((t1-t0)/d): keep exact .5 ties (round-half-even on a rounded quotient) out of the exact tie
        tw = [u_ for u_ in t if o["twin"] is None or o["twin"][0] <= u_ <= o["twin"][1]]
        if len(tw) >= 2:
            ratio = (tw[-1] - tw[0]) / o["resample"][1]
            if (2 * ratio).denominator == 1 and (2 * ratio).numerator % 2 == 1:
                o["resample"] = ("step", o["resample"][1] * Fraction(9, 8))
    if o["resample"] is None and o["twin"] is not None and len(set(b - a for a, b in zip(t, t[1:]))) > 1:
        # irregular series are first resampled to their mean step over the window: same tie in the number of grid points
        tw = [u_ for u_ in t if o["twin"][0] <= u_ <= o["twin"][1]]
        if len(tw) >= 2:
            ratio = (tw[-1] - tw[0]) / ((t[-1] - t[0]) / (len(t) - 1))
            if (2 * ratio).denominator == 1 and (2 * ratio).numerator % 2 == 1:
                o["twin"] = None
    sp = dict(fargs=rng.choice(["tuple", "list"]), num=rng.choice(["float", "float", "int-if-integral", "np.float64"]),
              single=rng.choice(["number", "tuple", "list"]), twin=rng.choice(["tuple", "list"]), array=rng.choice(["ndarray", "list"]))
    if o["twin"] is not None:
        sp["array"] = "ndarray"     # the refusal of array + window is modelled (and coded) for numpy arrays; a list slips through the assert
    return dict(level="tagged", route=route, kind=kind, freqs=[str(v) for v in freqs], t=[str(v) for v in t], x=[str(v) for v in x],
                twin=None if o["twin"] is None else [str(v) for v in o["twin"]],
                resample=None if o["resample"] is None else [o["resample"][0], str(o["resample"][1]) if o["resample"][0] == "step"
                                                            else [str(v) for v in o["resample"][1]]],
                taper=o["taper"], spell=sp)


def tag_line(case):
    from ..core import rat
    tw = "-" if case["twin"] is None else "%s,%s" % (rat(F(case["twin"][0])), rat(F(case["twin"][1])))
    rs = case["resample"]
    rs = "-" if rs is None else ("step:" + rat(F(rs[1])) if rs[0] == "step" else "arr:" + ",".join(rat(F(v)) for v in rs[1]))
    return "flt.%s %s %s | twin=%s res=%s taper=%d filter=1 smooth=0 | %s | %s" % (
        "tsget" if case["route"] == "get" else "tsfilter", case["kind"], " ".join(rat(F(v)) for v in case["freqs"]), tw, rs, case["taper"],
        " ".join(rat(F(v)) for v in case["t"]), " ".join(rat(F(v)) for v in case["x"]))


def tag_err(e):
    if isinstance(e, AssertionError):
        return "err assertion"
    if isinstance(e, IndexError):
        return "err index"
    if isinstance(e, ValueError):
        return "err value" if "frequenc" in str(e).lower() else "err bounds"
    return "err %s: %s" % (type(e).__name__, e)


def tag_impl(case):
    """the real TimeSeries.get / TimeSeries.filter with the tag functions, issued twice on the same object"""
    from qats import TimeSeries
    sp = case.get("spell") or {}

    def num(v):
        v = F(v)
        if sp.get("num") == "int-if-integral" and v.denominator == 1:
            return int(v)
        return np.float64(float(v)) if sp.get("num") == "np.float64" else float(v)
    tf, xf = np.array([float(F(v)) for v in case["t"]]), np.array([float(F(v)) for v in case["x"]])
    ts = TimeSeries("s", tf.copy(), xf.copy())
    fr = [num(v) for v in case["freqs"]]
    kw = {}
    if case["twin"] is not None:
        kw["twin"] = (list if sp.get("twin") == "list" else tuple)(float(F(v)) for v in case["twin"])
    if case["taper"]:
        kw["taperfrac"] = 0.1
    res = []
    with TagScipy():
        for _ in range(2):
            try:
                if case["route"] == "get":
                    if case["resample"] is not None:
                        r = case["resample"]
                        kw["resample"] = float(F(r[1])) if r[0] == "step" else \
                            (np.array([float(F(v)) for v in r[1]]) if sp.get("array") != "list" else [float(F(v)) for v in r[1]])
                    fa = [case["kind"]] + fr
                    tt, xx = ts.get(filterargs=fa if sp.get("fargs") == "list" else tuple(fa), **kw)
                else:
                    freq = fr[0] if (len(fr) == 1 and sp.get("single", "number") == "number") else (fr if sp.get("single") == "list" else tuple(fr))
                    tt, xx = ts.filter(case["kind"], freq, **kw)
                res.append(("ok", np.asarray(tt, dtype=float), np.asarray(xx, dtype=float)))
            except Exception as e:
                res.append((tag_err(e),))
    return res


TAG_STATS = dict(exact=0, close=0)


def tag_exact_expected(case, model):
    """True when every float operation of the real pipeline is exact for this request, so that the implementation must
    reproduce the model's rationals bit for bit: every number of the model's reply is a dyadic rational (denominator <= 2^40),
    no interpolation onto a requested array, every stored time step is a power of two (interp1d divides by it), and the mean
    taken before tapering is over a power-of-two number of samples"""
    if not model.startswith("ok") or (case["resample"] is not None and case["resample"][0] == "arr"):
        return False
    ts_ = [F(v) for v in case["t"]]
    for d in (b - a for a, b in zip(ts_, ts_[1:])):
        if d <= 0 or d.numerator & (d.numerator - 1) or d.denominator & (d.denominator - 1):
            return False
    parts = model[3:].split("|")
    vals = [F(v) for v in model[3:].replace("|", " ").split()]
    if not all(v.denominator & (v.denominator - 1) == 0 and v.denominator <= 2 ** 40 for v in vals):
        return False
    nt = len(parts[0].split())
    return (not case["taper"]) or (nt & (nt - 1) == 0)


def tag_compare(model, im, exact=False):
    """None if the model's reply and the implementation's result agree: bit for bit when `exact` (see tag_exact_expected),
    else to 1e-12 (irregular steps, non-dyadic resampling steps, mean of a number of samples that is not a power of two)"""
    if model.startswith("err") or im[0] != "ok":
        return None if model.strip() == im[0] else "outcome"
    mt, mx = [[float(F(v)) for v in part.split()] for part in model[3:].split("|")]
    if len(mt) != len(im[1]) or len(mx) != len(im[2]):
        return "lengths"
    if np.array_equal(mt, im[1]) and np.array_equal(mx, im[2]):
        TAG_STATS["exact"] += 1
        return None
    nd = len(mx) - len(mt)
    if exact:
        return "time array (exact comparison)" if not np.array_equal(mt, im[1]) else \
            ("design written by the filter stage (exact comparison)" if not np.array_equal(mx[:nd], im[2][:nd]) else "samples handed to the filter stage (exact comparison)")
    TAG_STATS["close"] += 1
    if not np.allclose(mt, im[1], rtol=1e-12, atol=1e-12):
        return "time array"
    if not np.allclose(mx, im[2], rtol=1e-11, atol=1e-11):
        return "design written by the filter stage" if not np.allclose(mx[:nd], im[2][:nd], rtol=1e-11, atol=1e-11) else "samples handed to the filter stage"
    return None


def slim(case):
    """replay input: the jitter of irregular cases is regenerated from its seed instead of being written out"""
    return {k: v for k, v in case.items() if k != "jitter"}


# ----------------------------------------------------------------------------------------------------------------------
def _long_helpers():
    return dict(sig_clauses=sig_clauses, ts_clauses=ts_clauses, extra_clauses=extra_clauses, ts_build=ts_build, ts_route=ts_route, ts_fargs=ts_fargs,
                ref_gain=ref_gain, call=call, FUNC=FUNC, TOL=TOL, O_RETURNS=O_RETURNS)


def run(chk):
    from . import c12_long
    chk.extra["rule"] = RULE + " long-records: " + " ".join(c12_long.__doc__.split())
    c12_long.run_long(chk, _long_helpers(), KINDS, ("get", "filter", "copy", "geta", "getda", "trace"))
    chk.assumptions += [
        "scipy.signal.butter (bilinear transform with pre-warping) + filtfilt / sosfiltfilt (odd padding, default pad length) "
        "realise the squared Butterworth magnitude with zero phase on a stationary sinusoid away from the ends: measured on "
        "every run (streams steady / ts.steady) to %g of the amplitude, not proved" % TOL,
        "the closed form of the model (tan(pi f dt) ratios to the power 10) is the squared magnitude of scipy's own "
        "butter(5, fc, fs=1/dt) design: measured (stream spec, 1e-9)",
        "steady state is read from a least-squares fit of sin / cos / constant on the central 60 %% of a record of at least "
        "%d / min(edge, band width) samples; end transients are excluded" % KLEN,
        "non-equidistant series: the comparison includes the linear interpolation error of the sampled sinusoid (f dt <= 0.01), "
        "tolerance %g" % TOL_IRR,
        "cut-offs below 0.008 Nyquist are sampled only by the always-first corpus cases (0.001 Nyquist, low- and high-pass): very long "
        "records are needed there; before the F42 repair the order-5 transfer-function (b, a) form used for low- and high-pass was "
        "ill-conditioned at such cut-offs (rounding noise ~ 3e-18 / Wn^5 of the amplitude, measured); the linearity tolerance still "
        "follows that law with a factor 30",
    ]
    chk.partial += ["that scipy's butter + filtfilt / sosfiltfilt realise `responseOf` (squared Butterworth magnitude, zero "
                    "phase) in steady state is measured, not proved; end transients are not modelled"]
    rng = chk.rng
    drv = core.Driver()
    lo = 0.02 if chk.quick else 0.008
    n_sig = 240 if chk.quick else 10000
    n_extra = 40 if chk.quick else 1200
    n_ts = dict(plain=8, window=8, step=10, **{"window+step": 8}, array=8, taper=6, irregular=5) if chk.quick else \
        dict(plain=150, window=150, step=250, **{"window+step": 150}, array=150, taper=100, irregular=60)
    n_boundary, n_spelled, n_ts_spelled, n_hist, n_seq, n_tag = (30, 100, 60, 14, 8, 600) if chk.quick else (1200, 2500, 900, 200, 150, 6000)

    def with_jitter(c):
        if c.get("variant") == "irregular" and "jitter" not in c:
            r2 = __import__("random").Random(c.get("jitter_seed", 0))
            c["jitter"] = [r2.uniform(-0.2, 0.2) for _ in range(c["n"] - 2)]
        return c

    corpus = [dict(c) for c in core.load_corpus("C12")]
    cases = [with_jitter(c) for c in corpus if c.get("level") in ("signal", "ts")]
    hist_cases = [c for c in corpus if c.get("level") == "hist"]
    seq_cases = [c for c in corpus if c.get("level") == "seq"]
    tag_cases = [c for c in corpus if c.get("level") == "tagged"]
    cases += corner_cases()
    for kind in KINDS:                                  # every type is sampled even in a tiny run
        cases.append(gen_signal_case(rng, lo, kind))
    while sum(1 for c in cases if c["level"] == "signal") < n_sig:
        cases.append(gen_signal_case(rng, lo))
    for variant, cnt in n_ts.items():
        for _ in range(cnt):
            c = gen_ts_case(rng, lo, variant)
            if variant == "irregular":
                js = rng.randrange(1 << 30)
                r2 = __import__("random").Random(js)
                c["jitter_seed"] = js
                c["jitter"] = [r2.uniform(-0.2, 0.2) for _ in range(c["n"] - 2)]
            cases.append(c)
    # the rim of the quantifier, other spellings of the same request, other routes to the filters
    for kind in KINDS:                                  # every type in other units, on a large mean level, at the rim of the ranges
        for what, p2 in (("pow2", -200), ("pow2", -40), ("pow2", 100), ("offset", None), ("dt", None), ("cut-high", None)):
            cases.append(gen_boundary_case(rng, lo, what, kind, p2))
    for what in ("f-low", "f-high"):
        cases.append(gen_boundary_case(rng, lo, what))
    for _ in range(n_boundary):
        cases.append(gen_boundary_case(rng, lo))
    for _ in range(n_spelled):
        cases.append(gen_spelled_signal_case(rng, lo))
    ts_variants = ("plain", "window", "step", "window+step", "array", "taper")
    for i in range(n_ts_spelled):
        cases.append(gen_ts_case(rng, lo, ts_variants[i % len(ts_variants)], spelled=True))
    hist_cases += [gen_hist_case(rng) for _ in range(n_hist)]
    seq_cases += [gen_seq_case(rng) for _ in range(n_seq)]
    tag_cases += [gen_tag_case(rng) for _ in range(n_tag)]

    # ---- implementation side ------------------------------------------------------------------------------------------
    lines, meta = [], []
    n_extra_done = 0
    worst = {}
    chk.extra["worst_deviation_from_reference"] = worst   # per variant, relative to amplitude + |mean| (tolerance %g / %g)
    for case in cases:
        inp = slim(case)
        kind, fcs, f, A, ph, mean = (case[k] for k in ("kind", "fcs", "f", "A", "ph", "mean"))
        sp = case.get("spell") or {}
        probe = None
        try:
            if case["level"] == "signal":
                fails, meas, rec = sig_clauses(case, want_rec=True)
                dt_model = case["dt"]
                stream = ""
                if n_extra_done < n_extra:
                    n_extra_done += 1
                    vals = (rng.uniform(-3, 3), rng.uniform(-3, 3), rng.uniform(0.02, 0.9) * 0.5 / case["dt"], rng.uniform(-3, 3))
                    case["extra"] = inp["extra"] = list(vals)
                    fl, probe = extra_clauses(case, vals)
                    fails += fl
                    chk.count("oracle.linear-mean-sum")
            else:
                fails, meas, rec, dt_model = ts_clauses(case, want_rec=case.get("via") != "trace")
                stream = "ts."
        except Exception as e:                           # whatever the implementation returned made the evaluation itself fail
            fails, meas, rec, dt_model = [(O_RETURNS, "a filtered signal the clauses can be evaluated on", "%s: %s" % (type(e).__name__, e))], None, None, None
            stream = "" if case["level"] == "signal" else "ts."
        for (oracle, exp, obs) in fails:
            chk.fail(oracle, inp, exp, obs, measured=meas)
        if meas is not None:
            key = stream + case.get("variant", "signal")
            dev = max(abs(complex(*meas["gain"]) - meas["ref"]) * A, abs(meas["mean"] - mean * (1.0 if kind in ("lp", "bs") else 0.0))) \
                / (A + abs(mean))
            worst[key] = max(worst.get(key, 0.0), dev)
        chk.dist("%s%s:%s" % (stream, case.get("variant", "signal"), kind))
        if "boundary" in case:
            chk.dist("boundary:" + case["boundary"])
        if sp:
            chk.count("spelled")
            for k_, v_ in sorted(sp.items()):
                chk.dist("spelling %s%s=%s" % (stream, k_, v_))
        if case.get("via"):
            chk.dist("route:" + case["via"])
        if case.get("twice"):
            chk.count("second-call-same-array")
        if meas is None or dt_model is None:
            # no result: the model side still says what the design should have been (for the record)
            if rec is not None and case["level"] == "signal":
                lines.append(design_line(kind, case["dt"], fcs))
                meta.append(("design", stream, case, inp, rec, None))
            continue
        if rec is not None:
            lines.append(design_line(kind, dt_model, fcs))
            meta.append(("design", stream, case, inp, rec, meas))
            lines.append(design_line(kind, dt_model, fcs).replace("flt.design", "flt.srcwn", 1))
            meta.append(("srcwn", stream, case, inp, rec, meas))
        lines.append("flt.steady %s %s %s %s | %s %s %s" % (kind, fbits(dt_model), fbits(mean), " ".join(fbits(v) for v in fcs),
                                                            fbits(A), fbits(f), fbits(ph)))
        meta.append(("steady", stream, case, inp, rec, meas))
        lines.append("flt.gain %s 5 %s %s %s" % (kind, fbits(dt_model), fbits(f), " ".join(fbits(v) for v in fcs)))
        meta.append(("spec", stream, case, inp, rec, meas))
        if probe is not None:
            a_, b_, f2, ph2 = case["extra"]
            lines.append("flt.lin %s %s %s | %s %s %s %s %s | %s %s %s %s %s | %s" % (
                kind, fbits(case["dt"]), " ".join(fbits(v) for v in fcs), fbits(a_), fbits(mean), fbits(A), fbits(f), fbits(ph),
                fbits(b_), fbits(0.0), fbits(1.0), fbits(f2), fbits(ph2 + 0.5 * math.pi), " ".join(fbits(v) for v in probe["t"])))
            meta.append(("lin", stream, case, inp, probe, meas))

    # ---- histories on one object, sequences of calls in one process ----------------------------------------------------------------
    for case in hist_cases:
        try:
            fails, done, w = hist_clauses(case)
        except Exception as e:
            fails, done, w = [(O_RETURNS, "results the clauses can be evaluated on", "%s: %s" % (type(e).__name__, e))], 0, 0.0
        chk.count("history-step", done)
        chk.count("history")
        for st in case["steps"]:
            chk.dist("history op:" + st["op"])
        worst["history"] = max(worst.get("history", 0.0), w)
        if done:
            chk.nontriv(repr(case))
        for (oracle, exp, obs) in fails:
            chk.fail(oracle, case, exp, obs)
    for case in seq_cases:
        try:
            fails, w = seq_clauses(case)
        except Exception as e:
            fails, w = [(O_RETURNS, "results the clauses can be evaluated on", "%s: %s" % (type(e).__name__, e))], 0.0
        chk.count("sequence-call", len(case["steps"]))
        chk.count("sequence")
        worst["sequence"] = max(worst.get("sequence", 0.0), w)
        for (oracle, exp, obs) in fails:
            chk.fail(oracle, case, exp, obs)

    # ---- exact tie of tsGet / tsFilter (tag functions), arity ----------------------------------------------------------------------
    for case in tag_cases:
        lines.append(tag_line(case))
        try:
            res = tag_impl(case)
        except Exception as e:
            res = [("err harness %s: %s" % (type(e).__name__, e),)] * 2
        meta.append(("tagged", "ts.", case, case, res, None))
    for kind in KINDS:
        lines.append("flt.arity " + kind)
        meta.append(("arity", "", dict(kind=kind), dict(level="arity", kind=kind), arity_impl(kind), None))

    # ---- model side ---------------------------------------------------------------------------------------------------
    outs = drv.run(lines)
    TAG_STATS.update(exact=0, close=0)
    design_notes = set()
    for (what, stream, case, inp, rec, meas), o in zip(meta, outs):
        if what == "tagged":
            nm = "ts.tagged" if case["route"] == "get" else "ts.tagged-filter"
            chk.count(nm)
            chk.dist("tagged %s: %s" % (case["route"], o.split("|")[0].strip() if o.startswith("err") else "ok"))
            if case["twin"] or case["resample"] or case["taper"] or o.startswith("err"):
                chk.nontriv(repr(inp))
            for nth, im in ((nm, rec[0]), (nm + " (same call repeated)", rec[1])):
                why = tag_compare(o, im, exact=tag_exact_expected(case, o))
                if why is not None:
                    chk.disagree(nth, dict(inp, differs_in=why), o[:400], [im[0]] + [v.tolist()[:12] for v in im[1:]])
            continue
        if what == "arity":
            chk.count("arity")
            if o.split() != ["ok", str(rec)]:
                chk.disagree("arity", inp, o, rec)
            continue
        A, mean, f, ph = case["A"], case["mean"], case["f"], case["ph"]
        sc = A + abs(mean)
        tol = TOL_IRR if case.get("variant") == "irregular" else TOL
        if what == "design":
            chk.count(stream + "design")
            single = "np.float32" in (case.get("spell") or {}).values()
            why = compare_design(o, rec, design_notes, wn_tol=2e-7 if single else 1e-14)
            if why is not None:
                chk.disagree(stream + "design", dict(inp, differs_in=why), o, jsonable(rec))
        elif what == "srcwn":
            # the expressions regenerated from the source (translator) against what the code really handed to butter
            chk.count(stream + "srcwn")
            single = "np.float32" in (case.get("spell") or {}).values()
            tok = o.split()
            wn_tol = 2e-7 if single else 1e-14
            if "error" not in rec and (tok[0] != "ok" or len(tok) - 1 != len(rec["wn"]) or
                                       any(abs(a - unfbits(b)) > wn_tol * abs(a) for a, b in zip(rec["wn"], tok[1:]))):
                chk.disagree(stream + "srcwn", dict(inp, differs_in="Wn (generated formula)"), o, jsonable(rec))
        elif what == "steady":
            chk.count(stream + "steady")
            tok = o.split()
            if tok[0] != "ok" or len(tok) != 5:
                chk.disagree(stream + "steady", inp, o, meas)
                continue
            m_mean, m_amp, m_f, m_ph = (unfbits(v) for v in tok[1:])
            g = complex(*meas["gain"])
            # the model keeps frequency and phase: the fitted complex gain (relative to the input phase) must be real
            if m_f != f or m_ph != ph or not abs(g * A - m_amp) <= tol * sc or not abs(meas["mean"] - m_mean) <= tol * sc:
                chk.disagree(stream + "steady", inp, dict(mean=m_mean, amp=m_amp, freq=m_f, phase=m_ph),
                             dict(mean=meas["mean"], amp=[g.real * A, g.imag * A], freq=f, phase=ph))
            G = m_amp / A
            if 1e-6 < G < 1 - 1e-6:
                chk.nontriv(repr(inp))
            if len(chk.samples) < 4 and 0.01 < G < 0.99:
                chk.sample(dict(inp, model_amp=m_amp, impl_gain=meas["gain"]))
        elif what == "lin":
            chk.count("lin")
            tok = o.split()
            probe = rec
            vals = [unfbits(v) for v in tok[1:]] if tok[0] == "ok" else []
            if len(vals) != len(probe["y"]) or not all(abs(u - v) <= TOL * probe["scale"] for u, v in zip(vals, probe["y"])):
                chk.disagree("lin", inp, vals, probe["y"])
        else:
            chk.count("spec")
            tok = o.split()
            Gm = unfbits(tok[1]) if tok[0] == "ok" and len(tok) == 2 else float("nan")
            if not abs(Gm - meas["ref"]) <= 1e-9:
                chk.disagree("spec", inp, Gm, meas["ref"])

    chk.notes += sorted("design: " + n for n in design_notes)
    chk.extra["tagged_tie_results_bit_exact_vs_within_1e-12"] = [TAG_STATS["exact"], TAG_STATS["close"]]

    # ---- the same cut-off used with different sampling intervals in one process (state carried between calls would show) -------------
    for nm in ("lp", "hp"):
        for fc in (0.1, rng.choice([0.05, 0.2, 0.25])):
            fl = cutoff_sequence(nm, fc)
            chk.count("cutoff-sequence", 4)
            for oracle, inp, exp, obs in fl:
                chk.fail(oracle, inp, exp, obs)

    # ---- the series-level filter call equals retrieval with the same filter arguments, whatever numeric type the cut-off has --------
    for i in range(len(ARG_TYPES)):
        chk.count("filter-arg-types")
        for oracle, inp, exp, obs in arg_types(i):
            chk.fail(oracle, inp, exp, obs)


DTS_SEQ = [0.1, 1.0, 0.5, 0.1]


def cutoff_sequence(nm, fc):
    """one cut-off reused with several sampling intervals in one process: gain 1/2 at the cut-off every time"""
    import qats.signal as qs
    out = []
    for dt in DTS_SEQ:
        if fc >= 0.45 / dt:
            continue
        n = record_length(dt, [fc])
        t = np.arange(n) * dt
        y, err = call(getattr(qs, FUNC[nm]), np.sin(2 * np.pi * fc * t), dt, fc)
        inp = dict(kind="cutoff-sequence", filter=nm, fc=fc, dts=DTS_SEQ, failing_dt=dt)
        if err is None:
            try:
                g, _, _ = fit(t, np.asarray(y, dtype=float), fc, 0.0, 1.0)
            except Exception as e:
                err = "%s: %s" % (type(e).__name__, e)
        if err is not None:
            out.append((O_RETURNS, inp, "a filtered signal", err))
        elif not abs(g - 0.5) <= 2e-3:
            out.append(("gain 1/2 at the cut-off for any sampling interval (same cut-off reused with another dt in the same process)",
                        inp, 0.5, [g.real, g.imag]))
    return out


ARG_TYPES = (("lp", 1), ("hp", np.float32(0.5)), ("bp", [0.25, 2]), ("bs", (1, 2.0)), ("lp", np.int64(2)), ("bp", (np.float64(0.25), 1)))


def arg_types(i):
    """filter() == get() for integer / numpy / list cut-offs, and (independent reference: both could share a fault) the response
    of that result is the one for the cut-offs' numeric values"""
    from qats import TimeSeries
    ftype, fr = ARG_TYPES[i]
    inp = dict(filtertype=ftype, freq=str(fr), kind="arg-types", index=i)
    A, f0, ph, mean, dt = 1.0, 0.5, 0.3, 1.5, 0.1
    t = np.arange(8001) * dt
    out = []
    ts, err = call(TimeSeries, NAME, t, mean + A * np.sin(2 * np.pi * f0 * t + ph))
    if err is not None:
        return [(O_RETURNS, inp, "a TimeSeries", err)]
    fa = (ftype,) + (tuple(fr) if isinstance(fr, (list, tuple)) else (fr,))
    r_get, e_get = call(ts.get, filterargs=fa)
    r_flt, e_flt = call(ts.filter, ftype, fr)
    try:
        ok = e_get is None and e_flt is None and np.array_equal(r_get[1], r_flt[1])
    except Exception as e:
        ok, e_get = False, "%s: %s" % (type(e).__name__, e)
    if not ok:
        out.append(("the series-level filter call equals retrieval with the same filter arguments (integer / numpy / list cut-offs)",
                    inp, "equal arrays", "get: %s, filter: %s" % (e_get, e_flt)))
    if e_get is None:
        c = dict(kind=ftype, fcs=[float(v) for v in fa[1:]], f=f0, A=A, ph=ph, mean=mean, dt=dt, k=1, variant="plain")
        try:
            fl, _, _ = ts_response(c, r_get[0], r_get[1], " [cut-offs given as %s]" % str(fr))
        except Exception as e:
            fl = [(O_RETURNS, "(time, data)", "%s: %s" % (type(e).__name__, e))]
        out += [(o, inp, e, ob) for o, e, ob in fl]
    return out


def arity_impl(kind):
    """the number of frequencies TimeSeries.filter accepts for the type (None if not exactly one of 0..3)"""
    from qats import TimeSeries
    t = np.arange(400) * 0.5
    ts = TimeSeries(NAME, t, np.sin(0.3 * t))
    ok = []
    for nf in range(4):
        freq = tuple([0.1, 0.2, 0.3][:nf])
        try:
            ts.filter(kind, freq)
            ok.append(nf)
        except ValueError:
            pass
        except Exception:
            ok.append(-1 - nf)
    return ok[0] if len(ok) == 1 else ok


# ----------------------------------------------------------------------------------------------------------------------
def replay(rp):
    src = rp.get("input") or (rp.get("first_disagreement") or {}).get("input")
    if not src:
        print("replay: nothing to re-run (no input recorded): %s" % rp.get("broken"))
        return 1
    inp = dict(src)
    inp.pop("differs_in", None)
    level = inp.get("level")

    def show(fails):
        for oracle, exp, obs in fails:
            print("FAILS: %s\n   expected %s\n   observed %s" % (oracle, exp, obs))
        print("replay: %d failing clause(s)" % len(fails))
        return 1 if fails else 0
    # inputs of the fixed sequences at the end of run()
    if inp.get("kind") == "cutoff-sequence":
        print("input   ", inp)
        return show([(o, e, ob) for o, i_, e, ob in cutoff_sequence(inp["filter"], inp["fc"])])
    if inp.get("kind") == "arg-types":
        print("input   ", inp)
        idx = inp.get("index")
        if idx is None:
            idx = [j for j, (ft, fr) in enumerate(ARG_TYPES) if ft == inp.get("filtertype") and str(fr) == inp.get("freq")][0]
        return show([(o, e, ob) for o, i_, e, ob in arg_types(idx)])
    if level == "hist":
        print("input   ", {k: v for k, v in inp.items() if k != "steps"})
        for i, st in enumerate(inp["steps"]):
            print("   step %d: %s" % (i + 1, st))
        try:
            fails, done, w = hist_clauses(inp)
        except Exception as e:
            fails = [(O_RETURNS, "results the clauses can be evaluated on", "%s: %s" % (type(e).__name__, e))]
        return show(fails)
    if level == "seq":
        print("input   ", inp)
        try:
            fails, w = seq_clauses(inp)
        except Exception as e:
            fails = [(O_RETURNS, "results the clauses can be evaluated on", "%s: %s" % (type(e).__name__, e))]
        return show(fails)
    if level == "arity":
        got = arity_impl(inp["kind"])
        print("TimeSeries.filter(%r, …) accepts %s frequencies" % (inp["kind"], got))
        try:
            o = core.Driver().run(["flt.arity " + inp["kind"]])[0]
            print("model:", o)
            return 0 if o.split() == ["ok", str(got)] else 1
        except core.InfraError as e:
            print("model not available:", e)
            return 1
    if level == "tagged":
        print("input   ", inp)
        res = tag_impl(inp)
        for nth, im in zip(("first call ", "second call"), res):
            print(nth, im[0], *[v.tolist() for v in im[1:]])
        try:
            o = core.Driver().run([tag_line(inp)])[0]
        except core.InfraError as e:
            print("model not available:", e)
            return 1
        print("model      ", o)
        whys = [tag_compare(o, im, exact=tag_exact_expected(inp, o)) for im in res]
        for nth, why in zip(("first call ", "second call"), whys):
            print(nth, "agrees with the model" if why is None else "DIFFERS from the model in: " + why)
        return 1 if any(w is not None for w in whys) else 0
    if inp.get("long"):
        from . import c12_long
        print("input   ", inp)
        try:
            fails = c12_long.long_clauses(inp, _long_helpers())
        except Exception as e:
            fails = [(O_RETURNS, "a filtered signal the clauses can be evaluated on", "%s: %s" % (type(e).__name__, e))]
        return show(fails)
    if inp.get("variant") == "irregular":
        r2 = __import__("random").Random(inp.get("jitter_seed", 0))
        inp["jitter"] = [r2.uniform(-0.2, 0.2) for _ in range(inp["n"] - 2)]
    try:
        if level == "signal":
            fails, meas, rec = sig_clauses(inp, want_rec=True)
            if inp.get("extra"):
                fails += extra_clauses(inp, tuple(inp["extra"]))[0]
            dt_model = inp["dt"]
        else:
            fails, meas, rec, dt_model = ts_clauses(inp, want_rec=inp.get("via") != "trace")
    except Exception as e:
        fails, meas, rec, dt_model = [(O_RETURNS, "a filtered signal the clauses can be evaluated on", "%s: %s" % (type(e).__name__, e))], None, None, None
    print("input   ", {k: v for k, v in inp.items() if k != "jitter"})
    print("measured", meas)
    print("recorded", jsonable(rec) if rec else rec)
    if dt_model is not None and rec is not None:
        try:
            drv = core.Driver()
            o = drv.run([design_line(inp["kind"], dt_model, inp["fcs"])])[0]
            single = "np.float32" in (inp.get("spell") or {}).values()
            why = compare_design(o, rec, wn_tol=2e-7 if single else 1e-14)
            print("model design:", o, "->", "agrees" if why is None else "DIFFERS in " + why)
        except core.InfraError as e:
            print("model not available:", e)
    return show(fails)
