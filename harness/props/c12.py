"""
C12 — frequency filters have the specified zero-phase Butterworth response in Hz.

Tie (every run):
  design      the arguments `qats.signal.lowpass/highpass/bandpass/bandblock` hand to scipy (`butter` order / Wn (or fc with
              fs) / btype / analog, and that the coefficients go through exactly one forward-backward pass, `filtfilt` or
              `sosfiltfilt`) are recorded by wrapping the three scipy entry points inside `qats.signal` and compared with the
              Lean model's `design` (Float, same IEEE operations: 1e-14 relative).  Padding options, ba-vs-sos form and
              pre-processing of the signal are irrelevant to the property and only noted;
  steady      the model's `steadyState` (amplitude, frequency, phase, mean of the filtered sinusoid) against the implementation:
              a long sampled sinusoid is filtered, amplitude / phase / mean are least-squares fitted on the central 60 %;
  spec        the model's closed-form gain against an independent statement of "5th-order digital Butterworth, squared
              magnitude, cut-offs in Hz": `scipy.signal.butter(5, fc, fs=1/dt)` + `sosfreqz` (the assumption that is measured);
  ts.design / ts.steady   the same through `TimeSeries.get(filterargs=…)` / `TimeSeries.filter` after windowing, resampling
              to a step or an array, tapering and for a non-equidistant series: the design must be the model's design for
              the step of the *returned* time array.
Oracles (implementation alone; expected values never come from the Lean model): gain 1/2 and no phase shift at every
cut-off; complex gain = reference Butterworth-squared magnitude with zero phase; the filtered sinusoid is a pure sinusoid
of the same frequency; pass/stop band bounds 2^-10 at half / twice the cut-off; linearity; mean kept (lp, bs) / removed
(hp, bp); low+high and pass+stop reconstruct the signal; `filter()` == `get(filterargs=…)`; every call with cut-offs below
Nyquist returns.
"""
import inspect
import math

import numpy as np

from .. import core
from ..core import fbits, unfbits

RULE = ("seeded sampling intervals 10^U(-3,1) s (plus dyadic steps) x four filter types x cut-offs log-uniform in "
        "[lo, 0.97] Nyquist (lo = 0.02 quick, 0.008 thorough; band width >= lo) x test frequency (30 % exactly a cut-off, 40 % "
        "within a factor 2 of one, 30 % anywhere in (0.01, 0.985) Nyquist) x amplitude, phase, mean; record length "
        "300 / min(edge, band width, distance to Nyquist) samples, at least 2000; fixed corner cases first (cut-off = half "
        "Nyquist, band centre, edges at 0.02 / 0.97 Nyquist, dt 1e-3 and 10); TimeSeries level: plain, time window, resample "
        "to k*dt, resample to an array, taper, non-equidistant times; non-trivial = gain strictly between 1e-6 and 1-1e-6; "
        "distinct by input")

KINDS = ("lp", "hp", "bp", "bs")
FUNC = dict(lp="lowpass", hp="highpass", bp="bandpass", bs="bandblock")
BTYPE = dict(lp="lowpass", hp="highpass", bp="bandpass", bs="bandstop")
ROUTINE = dict(lp="filtfilt", hp="filtfilt", bp="sosfiltfilt", bs="sosfiltfilt")
BT_NORM = {"low": "lowpass", "lowpass": "lowpass", "lp": "lowpass", "high": "highpass", "highpass": "highpass", "hp": "highpass",
           "band": "bandpass", "bandpass": "bandpass", "bp": "bandpass", "pass": "bandpass",
           "bandstop": "bandstop", "bs": "bandstop", "bands": "bandstop", "stop": "bandstop"}
TOL = 2e-5          # steady-state complex gain / mean (worst observed on the unchanged tree: 3e-7)
TOL_IRR = 2e-3      # non-equidistant series: linear interpolation of the sinusoid (f*dt <= 0.01) adds up to ~5e-4
KLEN = 300          # record length factor

O_RETURNS = "filtering with cut-off frequencies below Nyquist returns a filtered signal"
O_HALF = "at a cut-off frequency the sinusoid comes out with gain 1/2 and no phase shift"
O_REF = ("away from the ends the filtered sinusoid is the input sinusoid times the squared magnitude response of the 5th-order "
         "digital Butterworth filter at f (cut-offs in Hz), with no phase shift")
O_PURE = "away from the ends the filtered sinusoid is a pure sinusoid of the same frequency"
O_BAND = "gain >= 1 - 2^-10 half-way into the pass band and <= 2^-10 at twice / half the cut-off on the stop side"
O_LIN = "filtering is linear"
O_MEAN = "low-pass and band-stop keep the mean, high-pass and band-pass remove it"
O_SUM = "low-passed + high-passed (band-passed + band-stopped) signal is the signal, away from the ends"
O_DELEG = "TimeSeries.filter(kind, freq, twin, taperfrac) equals TimeSeries.get(twin=, filterargs=(kind, *freq), taperfrac=)"
O_TSREF = ("through TimeSeries.get the response is the Butterworth-squared gain for the sampling interval of the returned "
           "time array (after window / resampling), zero phase on the returned time axis")


# ----------------------------------------------------------------------------------------------------------------------
# recording what qats.signal hands to scipy
# ----------------------------------------------------------------------------------------------------------------------
class Recorder:
    """wraps butter / filtfilt / sosfiltfilt as seen by qats.signal"""
    NAMES = ("butter", "filtfilt", "sosfiltfilt")

    def __enter__(self):
        import qats.signal as qs
        import scipy.signal as ss
        self.qs = qs
        self.saved = {k: getattr(qs, k, None) for k in self.NAMES}
        self.calls = []
        for name in self.NAMES:
            real = getattr(ss, name)
            setattr(qs, name, self._wrap(name, real))
        return self

    def _wrap(self, name, real):
        sig = inspect.signature(real)

        def wrapper(*a, **k):
            try:
                ba = sig.bind(*a, **k)
                ba.apply_defaults()
                args = dict(ba.arguments)
            except TypeError:
                args = dict(args=a, kwargs=k)
            out = real(*a, **k)
            self.calls.append(dict(op=name, args=args, out=out))
            return out
        return wrapper

    def __exit__(self, *exc):
        for k, v in self.saved.items():
            if v is None:
                try:
                    delattr(self.qs, k)
                except AttributeError:
                    pass
            else:
                setattr(self.qs, k, v)
        return False


def same_coeff(a, b):
    try:
        if isinstance(a, tuple) or isinstance(b, tuple):
            return len(a) == len(b) and all(np.array_equal(np.asarray(u), np.asarray(v)) for u, v in zip(a, b))
        return np.array_equal(np.asarray(a), np.asarray(b))
    except Exception:
        return False


def summarize(calls, x_in):
    """what was designed and how it was applied: dict(order, btype, routine, wn, ok-flags)"""
    bs = [c for c in calls if c["op"] == "butter"]
    fs = [c for c in calls if c["op"] in ("filtfilt", "sosfiltfilt")]
    if len(bs) != 1:
        return dict(error="butter called %d times" % len(bs))
    b = bs[0]["args"]
    try:
        wn = [float(v) for v in np.atleast_1d(b["Wn"])]
        if b.get("fs") is not None:
            wn = [2.0 * w / float(b["fs"]) for w in wn]
        d = dict(order=int(b["N"]), btype=BT_NORM.get(str(b["btype"]).lower(), str(b["btype"])), wn=wn,
                 analog=bool(b["analog"]))
    except Exception as e:
        return dict(error="butter arguments not understood: %r" % (e,))
    if len(fs) != 1:
        d["routine"] = "none" if not fs else "+".join(c["op"] for c in fs)
        return d
    f = fs[0]
    d["routine"] = f["op"]
    out = bs[0]["out"]
    if f["op"] == "filtfilt":
        d["coeff_linked"] = same_coeff((f["args"].get("b"), f["args"].get("a")), out)
        extra = {k: v for k, v in f["args"].items() if k not in ("b", "a", "x")}
        d["defaults"] = (extra.get("axis") == -1 and extra.get("padtype") == "odd" and extra.get("padlen") is None
                         and extra.get("method") == "pad")
    else:
        d["coeff_linked"] = same_coeff(f["args"].get("sos"), out)
        extra = {k: v for k, v in f["args"].items() if k not in ("sos", "x")}
        d["defaults"] = extra.get("axis") == -1 and extra.get("padtype") == "odd" and extra.get("padlen") is None
    xa = np.asarray(f["args"].get("x"))
    d["signal_linked"] = x_in is None or (xa.shape == np.shape(x_in) and np.array_equal(xa, x_in))
    return d


def design_line(kind, dt, fcs):
    return "flt.design %s %s %s" % (kind, fbits(dt), " ".join(fbits(v) for v in fcs))


def compare_design(model_reply, rec, notes=None):
    """model reply `ok 5 lowpass filtfilt <wn…>` against the recorded summary; returns None if they agree.
    Compared: order, btype, digital design, normalised cut-offs, and that the coefficients are applied once by a
    forward-backward routine.  Which of filtfilt / sosfiltfilt is used, padding options and pre-processing of the signal do
    not matter for the property (steady state away from the ends): differences there are only noted."""
    tok = model_reply.split()
    if tok[0] != "ok":
        return "model: " + model_reply
    if "error" in rec:
        return rec["error"]
    m_order, m_bt, m_rt = int(tok[1]), tok[2], tok[3]
    m_wn = [unfbits(v) for v in tok[4:]]
    if rec["order"] != m_order:
        return "order"
    if rec["btype"] != m_bt:
        return "btype"
    if rec.get("routine") not in ("filtfilt", "sosfiltfilt"):
        return "routine (not one forward-backward pass: %s)" % rec.get("routine")
    if rec["analog"]:
        return "analog"
    if len(rec["wn"]) != len(m_wn) or any(abs(a - b) > 1e-14 * abs(b) for a, b in zip(rec["wn"], m_wn)):
        return "Wn"
    if notes is not None:
        if rec.get("routine") != m_rt:
            notes.add("routine is %s where the model has %s (equivalent for the property)" % (rec.get("routine"), m_rt))
        if not rec.get("coeff_linked"):
            notes.add("coefficients handed to the routine are not the arrays returned by butter")
        if not rec.get("signal_linked"):
            notes.add("the routine is applied to a pre-processed copy of the signal")
        if not rec.get("defaults"):
            notes.add("non-default padding options of the forward-backward routine")
    return None


def jsonable(rec):
    return {k: (v if isinstance(v, (int, float, str, bool, list, type(None))) else str(v)) for k, v in rec.items()}


# ----------------------------------------------------------------------------------------------------------------------
# independent reference, measurement
# ----------------------------------------------------------------------------------------------------------------------
def ref_gain(kind, dt, fcs, f, order=5):
    """|H(e^{j 2 pi f dt})|^2 of scipy's own digital Butterworth design with the cut-offs given in Hz (fs = 1/dt)"""
    from scipy.signal import butter, sosfreqz
    wn = list(fcs) if len(fcs) > 1 else fcs[0]
    sos = butter(order, wn, btype=BTYPE[kind], fs=1.0 / dt, output="sos")
    _, h = sosfreqz(sos, worN=[f], fs=1.0 / dt)
    return float(abs(h[0]) ** 2)


def fit(t, y, f, ph, A):
    """least squares `y ~ A (g_re sin(2 pi f t + ph) + g_im cos(2 pi f t + ph)) + m` on the central 60 %: complex gain g"""
    n = len(t)
    lo, hi = int(0.2 * n), int(0.8 * n)
    tt, yy = t[lo:hi], y[lo:hi]
    arg = 2 * np.pi * f * tt + ph
    M = np.column_stack([np.sin(arg), np.cos(arg), np.ones_like(tt)])
    c = np.linalg.lstsq(M, yy, rcond=None)[0]
    res = float(np.max(np.abs(yy - M @ c)))
    return complex(c[0], c[1]) / A, float(c[2]), res


def record_length(dt, fcs):
    nyq = 0.5 / dt
    fr = [c / nyq for c in fcs]
    mf = min(fr[0], 1.0 - fr[-1])
    if len(fr) == 2:
        mf = min(mf, fr[1] - fr[0])
    return int(min(80000, max(2000, math.ceil(KLEN / mf))))


def call(fn, *a, **k):
    try:
        return fn(*a, **k), None
    except Exception as e:  # the implementation must not raise for admissible arguments
        return None, "%s: %s" % (type(e).__name__, e)


# ----------------------------------------------------------------------------------------------------------------------
# signal level: one case = (kind, dt, fcs, f, A, ph, mean, n)
# ----------------------------------------------------------------------------------------------------------------------
def sig_clauses(case, want_rec=False):
    """Evaluates the property's clauses on qats.signal for one case.
    Returns (failures [(oracle, expected, observed)], measurement dict or None, recorded design or None)."""
    import qats.signal as qs
    kind, dt, fcs, f, A, ph, mean, n = (case[k] for k in ("kind", "dt", "fcs", "f", "A", "ph", "mean", "n"))
    fn = getattr(qs, FUNC[kind])
    t = np.arange(n) * dt
    x = mean + A * np.sin(2 * np.pi * f * t + ph)
    fails, rec = [], None
    if want_rec:
        with Recorder() as r:
            y, err = call(fn, x, dt, *fcs)
        rec = summarize(r.calls, x)
    else:
        y, err = call(fn, x, dt, *fcs)
    if err is not None or np.shape(y) != np.shape(x) or not np.all(np.isfinite(y)):
        fails.append((O_RETURNS, "finite array of the input's shape", err or "shape %s / non-finite" % (np.shape(y),)))
        return fails, None, rec
    g, m, res = fit(t, y, f, ph, A)
    sc = A + abs(mean)
    G = ref_gain(kind, dt, fcs, f)
    G0 = 1.0 if kind in ("lp", "bs") else 0.0
    meas = dict(gain=[g.real, g.imag], mean=m, residual=res, ref=G)
    if abs(g - G) * A > TOL * sc:
        fails.append((O_REF, [G, 0.0], [g.real, g.imag]))
    if any(abs(f - c) <= 1e-12 * c for c in fcs) and abs(g - 0.5) * A > TOL * sc:
        fails.append((O_HALF, [0.5, 0.0], [g.real, g.imag]))
    if res > 5 * TOL * sc:
        fails.append((O_PURE, "residual <= %g" % (5 * TOL * sc), res))
    if abs(m - mean * G0) > TOL * sc:
        fails.append((O_MEAN, mean * G0, m))
    # pass / stop band with explicit rates (tan is convex on (0, pi/2): W(f/2)/W(f) <= 1/2, W(2f)/W(f) >= 2)
    if kind in ("lp", "hp"):
        fc = fcs[0]
        inside = (f <= 0.5 * fc) if kind == "lp" else (f >= 2.0 * fc)
        outside = (f >= 2.0 * fc) if kind == "lp" else (f <= 0.5 * fc)
        if inside and (1.0 - g.real) * A > (2.0 ** -10) * A + TOL * sc:
            fails.append((O_BAND, ">= 1 - 2^-10", g.real))
        if outside and abs(g) * A > (2.0 ** -10) * A + TOL * sc:
            fails.append((O_BAND, "<= 2^-10", abs(g)))
    return fails, meas, rec


def extra_clauses(case, rng_vals):
    """linearity, constant signal, complementary pair: evaluated on a two-component signal"""
    import qats.signal as qs
    kind, dt, fcs, f, A, ph, mean, n = (case[k] for k in ("kind", "dt", "fcs", "f", "A", "ph", "mean", "n"))
    a, b, f2, ph2 = rng_vals
    fn = getattr(qs, FUNC[kind])
    t = np.arange(n) * dt
    x = mean + A * np.sin(2 * np.pi * f * t + ph)
    y = np.cos(2 * np.pi * f2 * t + ph2) + 0.25 * (t / t[-1])
    fails = []
    fx, e1 = call(fn, x, dt, *fcs)
    fy, e2 = call(fn, y, dt, *fcs)
    fz, e3 = call(fn, a * x + b * y, dt, *fcs)
    if e1 or e2 or e3:
        return [(O_RETURNS, "array", e1 or e2 or e3)]
    sc = (abs(a) * (A + abs(mean)) + abs(b) * 1.25)
    d = float(np.max(np.abs(fz - (a * fx + b * fy))))
    # rounding: second-order sections ~1e-12; (b, a) form of order 5 loses ~3e-18 / Wn^5 (measured), mirrored at Nyquist
    wn = fcs[0] * 2.0 * dt
    lin_tol = max(1e-10, 1e-16 / min(wn, 1.0 - wn) ** 5) if kind in ("lp", "hp") else 1e-10
    if d > lin_tol * sc:
        fails.append((O_LIN, "max |F(a x + b y) - a F(x) - b F(y)| <= %g" % (lin_tol * sc), d))
    const = np.full(n, mean)
    fc_, e4 = call(fn, const, dt, *fcs)
    if e4:
        return fails + [(O_RETURNS, "array", e4)]
    lo, hi = int(0.2 * n), int(0.8 * n)
    G0 = 1.0 if kind in ("lp", "bs") else 0.0
    dm = float(np.max(np.abs(fc_[lo:hi] - mean * G0)))
    if dm > TOL * (abs(mean) + 1e-3):
        fails.append((O_MEAN, "constant %r -> %r" % (mean, mean * G0), "deviation %g" % dm))
    other = dict(lp="hp", hp="lp", bp="bs", bs="bp")[kind]
    z = a * x + b * np.cos(2 * np.pi * f2 * t + ph2)
    p, e5 = call(fn, z, dt, *fcs)
    q, e6 = call(getattr(qs, FUNC[other]), z, dt, *fcs)
    if e5 or e6:
        return fails + [(O_RETURNS, "array", e5 or e6)]
    ds = float(np.max(np.abs((p + q - z)[lo:hi])))
    if ds > TOL * sc:
        fails.append((O_SUM, "max |F(z) + F'(z) - z| <= %g on the central 60 %%" % (TOL * sc), ds))
    return fails


# ----------------------------------------------------------------------------------------------------------------------
# TimeSeries level
# ----------------------------------------------------------------------------------------------------------------------
def ts_build(case):
    """stored series and the options of the variant; the sinusoid is sampled exactly at the stored times"""
    from qats import TimeSeries
    kind, dt, f, A, ph, mean, n, var, k, t0 = (case[key] for key in ("kind", "dt", "f", "A", "ph", "mean", "n", "variant", "k", "t0"))
    if var == "irregular":
        jit = np.array(case["jitter"])
        idx = np.arange(n, dtype=float)
        idx[1:-1] += jit[: n - 2]
        t = t0 + idx * dt
    else:
        t = t0 + np.arange(n) * dt
    x = mean + A * np.sin(2 * np.pi * f * t + ph)
    ts = TimeSeries("c12", t, x)
    kw = {}
    if var in ("window", "window+step"):
        i0 = int(0.1 * n)
        i1 = i0 + ((int(0.9 * n) - i0) // k) * k        # retained span divisible by k: the new grid hits stored samples
        kw["twin"] = (float(t[i0]), float(t[i1]))
    if var in ("step", "window+step"):
        kw["resample"] = float(k * dt)
    if var == "array":
        kw["resample"] = t[::k].copy()
    if case.get("taperfrac") is not None:
        kw["taperfrac"] = case["taperfrac"]
    return ts, kw


def ts_clauses(case, want_rec=False):
    """clauses through TimeSeries.get / TimeSeries.filter; returns (failures, measurement, recorded design, processed dt)"""
    kind, fcs, f, A, ph, mean = (case[k] for k in ("kind", "fcs", "f", "A", "ph", "mean"))
    ts, kw = ts_build(case)
    fargs = (kind,) + tuple(fcs)
    fails, rec = [], None
    if want_rec:
        with Recorder() as r:
            out, err = call(ts.get, filterargs=fargs, **kw)
        rec = summarize(r.calls, None)
    else:
        out, err = call(ts.get, filterargs=fargs, **kw)
    if err is not None:
        return [(O_RETURNS, "(time, data)", err)], None, rec, None
    t2, y = out
    if len(t2) != len(y) or len(t2) < 2 or not np.all(np.isfinite(y)):
        return [(O_RETURNS, "time and data of equal length", "%d / %d" % (len(t2), len(y)))], None, rec, None
    dt2 = float(t2[1] - t2[0])
    g, m, res = fit(np.asarray(t2, dtype=float), np.asarray(y, dtype=float), f, ph, A)
    sc = A + abs(mean)
    tol = TOL_IRR if case["variant"] == "irregular" else TOL
    G = ref_gain(kind, dt2, fcs, f)
    G0 = 1.0 if kind in ("lp", "bs") else 0.0
    meas = dict(gain=[g.real, g.imag], mean=m, residual=res, ref=G, dt_returned=dt2, n_returned=len(t2))
    if abs(g - G) * A > tol * sc:
        fails.append((O_TSREF, [G, 0.0], [g.real, g.imag]))
    if abs(m - mean * G0) > tol * sc:
        fails.append((O_MEAN, mean * G0, m))
    # filter() delegates
    if "resample" not in kw:
        freq = fcs[0] if len(fcs) == 1 else tuple(fcs)
        o2, err2 = call(ts.filter, kind, freq, twin=kw.get("twin"), taperfrac=kw.get("taperfrac"))
        if err2 is not None:
            fails.append((O_DELEG, "same arrays as get()", err2))
        elif not (np.array_equal(o2[0], t2) and np.array_equal(o2[1], y)):
            fails.append((O_DELEG, "same arrays as get()", "max difference %g" % float(np.max(np.abs(np.asarray(o2[1]) - y)))
                          if np.shape(o2[1]) == np.shape(y) else "different shapes"))
    return fails, meas, rec, dt2


# ----------------------------------------------------------------------------------------------------------------------
# case generation
# ----------------------------------------------------------------------------------------------------------------------
def pick_dt(rng):
    if rng.random() < 0.25:
        return rng.choice([1.0, 0.5, 0.25, 0.125, 0.1, 0.05, 0.01, 2.0, 4.0])
    return 10 ** rng.uniform(-3, 1)


def pick_cutoffs(rng, kind, nyq, lo):
    if kind in ("lp", "hp"):
        return [nyq * 10 ** rng.uniform(math.log10(lo), math.log10(0.97))]
    a = 10 ** rng.uniform(math.log10(lo), math.log10(0.85))
    b = min(0.975, max(a + lo, a * rng.uniform(1.08, 4.0)))
    return [nyq * a, nyq * b]


def pick_f(rng, fcs, nyq):
    u = rng.random()
    if u < 0.3:
        f = rng.choice(fcs)
    elif u < 0.7:
        f = rng.choice(fcs) * 10 ** rng.uniform(-0.3, 0.3)
    else:
        f = rng.uniform(0.01, 0.985) * nyq
    if f != fcs[0] and f != fcs[-1]:
        f = min(0.985 * nyq, max(0.01 * nyq, f))
    return f


def gen_signal_case(rng, lo, kind=None):
    kind = kind or rng.choice(KINDS)
    dt = pick_dt(rng)
    nyq = 0.5 / dt
    fcs = pick_cutoffs(rng, kind, nyq, lo)
    f = pick_f(rng, fcs, nyq)
    return dict(level="signal", kind=kind, dt=dt, fcs=fcs, f=f, A=10 ** rng.uniform(-1, 1), ph=rng.uniform(-math.pi, math.pi),
                mean=rng.choice([0.0, rng.uniform(-5, 5)]), n=record_length(dt, fcs))


def corner_cases():
    out = []

    def add(kind, dt, fr, ff, A=1.0, ph=0.3, mean=2.0):
        nyq = 0.5 / dt
        fcs = [c * nyq for c in fr]
        out.append(dict(level="signal", kind=kind, dt=dt, fcs=fcs, f=(fcs[ff[1]] if ff[0] == "edge" else ff[1] * nyq), A=A, ph=ph,
                        mean=mean, n=record_length(dt, fcs)))
    for kind in ("lp", "hp"):
        add(kind, 1.0, [0.5], ("edge", 0))              # Wn = 1/2: W(fc) = 1
        add(kind, 0.001, [0.02], ("edge", 0))
        add(kind, 10.0, [0.97], ("edge", 0))
        add(kind, 0.1, [0.2], ("at", 0.1))              # half the cut-off
        add(kind, 0.1, [0.2], ("at", 0.4))              # twice the cut-off
        add(kind, 0.25, [0.3], ("at", 0.3 * 1.15))
    for kind in ("bp", "bs"):
        add(kind, 1.0, [0.25, 0.5], ("edge", 0))
        add(kind, 1.0, [0.25, 0.5], ("edge", 1))
        add(kind, 0.5, [0.02, 0.04], ("edge", 1))
        add(kind, 0.01, [0.9, 0.97], ("edge", 0))
        # warped centre of the band: tan^2(pi f dt) = tan(pi f1 dt) tan(pi f2 dt)
        w = math.sqrt(math.tan(math.pi * 0.25 / 2) * math.tan(math.pi * 0.5 / 2))
        add(kind, 1.0, [0.25, 0.5], ("at", 2 * math.atan(w) / math.pi))
        add(kind, 2.0, [0.3, 0.6], ("at", 0.05))
    return out


def gen_ts_case(rng, lo, variant):
    kind = rng.choice(KINDS)
    dt = pick_dt(rng)
    k = rng.choice([2, 3]) if variant in ("step", "window+step", "array") else 1
    dt2 = k * dt                                        # step of the returned time array
    nyq2 = 0.5 / dt2
    if variant == "irregular":
        # keep f*dt small: the code interpolates the stored samples linearly onto an equidistant grid first
        f = nyq2 * rng.uniform(0.012, 0.02)
        if kind in ("lp", "hp"):
            fcs = [f * 10 ** rng.uniform(-0.25, 0.25)]
        else:
            c = f * 10 ** rng.uniform(-0.2, 0.2)
            fcs = [c * 0.7, c * 1.5]
        fcs = [max(c, 0.0085 * nyq2) for c in fcs]
    else:
        fcs = pick_cutoffs(rng, kind, nyq2, lo)
        f = pick_f(rng, fcs, nyq2)
    n2 = record_length(dt2, fcs)                        # samples the filter must see
    if variant in ("window", "window+step"):
        n2 = int(n2 / 0.8) + 2
    n = (n2 - 1) * k + 1                                # stored samples; (n - 1) divisible by k: grids coincide
    case = dict(level="ts", variant=variant, kind=kind, dt=dt, k=k, fcs=fcs, f=f, A=10 ** rng.uniform(-1, 1),
                ph=rng.uniform(-math.pi, math.pi), mean=rng.choice([0.0, rng.uniform(-5, 5)]), n=n,
                t0=rng.choice([0.0, 0.0, round(rng.uniform(-50, 500), 1)]),
                taperfrac=(rng.choice([0.05, 0.1]) if variant == "taper" else None))
    if variant == "irregular":
        case["jitter"] = [rng.uniform(-0.2, 0.2) for _ in range(n - 2)]
    return case


def slim(case):
    """replay input: the jitter of irregular cases is regenerated from its seed instead of being written out"""
    return {k: v for k, v in case.items() if k != "jitter"}


# ----------------------------------------------------------------------------------------------------------------------
def run(chk):
    chk.extra["rule"] = RULE
    chk.assumptions += [
        "scipy.signal.butter (bilinear transform with pre-warping) + filtfilt / sosfiltfilt (odd padding, default pad length) "
        "realise the squared Butterworth magnitude with zero phase on a stationary sinusoid away from the ends: measured on "
        "every run (streams steady / ts.steady) to %g of the amplitude, not proved" % TOL,
        "the closed form of the model (tan(pi f dt) ratios to the power 10) is the squared magnitude of scipy's own "
        "butter(5, fc, fs=1/dt) design: measured (stream spec, 1e-9)",
        "steady state is read from a least-squares fit of sin / cos / constant on the central 60 %% of a record of at least "
        "%d / min(edge, band width) samples; end transients are excluded" % KLEN,
        "non-equidistant series: the comparison includes the linear interpolation error of the sampled sinusoid (f dt <= 0.01), "
        "tolerance %g" % TOL_IRR,
        "cut-offs below 0.008 Nyquist are outside the sampled range: the order-5 transfer-function (b, a) form used for low- and "
        "high-pass is ill-conditioned there (rounding noise ~ 3e-18 / Wn^5 of the amplitude, measured) and very long records "
        "are needed; the linearity tolerance follows that law with a factor 30",
    ]
    chk.partial += ["that scipy's butter + filtfilt / sosfiltfilt realise `responseOf` (squared Butterworth magnitude, zero "
                    "phase) in steady state is measured, not proved; end transients are not modelled"]
    rng = chk.rng
    drv = core.Driver()
    lo = 0.02 if chk.quick else 0.008
    n_sig = 240 if chk.quick else 10000
    n_extra = 40 if chk.quick else 1200
    n_ts = dict(plain=8, window=8, step=10, **{"window+step": 8}, array=8, taper=6, irregular=5) if chk.quick else \
        dict(plain=150, window=150, step=250, **{"window+step": 150}, array=150, taper=100, irregular=60)

    cases = [dict(c) for c in core.load_corpus("C12")]
    cases = [c for c in cases if c.get("level") in ("signal", "ts")]
    for c in cases:
        if c.get("variant") == "irregular" and "jitter" not in c:
            r2 = __import__("random").Random(c.get("jitter_seed", 0))
            c["jitter"] = [r2.uniform(-0.2, 0.2) for _ in range(c["n"] - 2)]
    cases += corner_cases()
    for kind in KINDS:                                  # every type is sampled even in a tiny run
        cases.append(gen_signal_case(rng, lo, kind))
    while sum(1 for c in cases if c["level"] == "signal") < n_sig:
        cases.append(gen_signal_case(rng, lo))
    for variant, cnt in n_ts.items():
        for _ in range(cnt):
            c = gen_ts_case(rng, lo, variant)
            if variant == "irregular":
                js = rng.randrange(1 << 30)
                r2 = __import__("random").Random(js)
                c["jitter_seed"] = js
                c["jitter"] = [r2.uniform(-0.2, 0.2) for _ in range(c["n"] - 2)]
            cases.append(c)

    # ---- implementation side ------------------------------------------------------------------------------------------
    lines, meta = [], []
    n_extra_done = 0
    worst = {}
    chk.extra["worst_deviation_from_reference"] = worst   # per variant, relative to amplitude + |mean| (tolerance %g / %g)
    for case in cases:
        inp = slim(case)
        kind, fcs, f, A, ph, mean = (case[k] for k in ("kind", "fcs", "f", "A", "ph", "mean"))
        if case["level"] == "signal":
            fails, meas, rec = sig_clauses(case, want_rec=True)
            dt_model = case["dt"]
            stream = ""
            if n_extra_done < n_extra:
                n_extra_done += 1
                vals = (rng.uniform(-3, 3), rng.uniform(-3, 3), rng.uniform(0.02, 0.9) * 0.5 / case["dt"], rng.uniform(-3, 3))
                case["extra"] = inp["extra"] = list(vals)
                fails += extra_clauses(case, vals)
                chk.count("oracle.linear-mean-sum")
        else:
            fails, meas, rec, dt_model = ts_clauses(case, want_rec=True)
            stream = "ts."
        for (oracle, exp, obs) in fails:
            chk.fail(oracle, inp, exp, obs, measured=meas)
        if meas is not None:
            key = stream + case.get("variant", "signal")
            dev = max(abs(complex(*meas["gain"]) - meas["ref"]) * A, abs(meas["mean"] - mean * (1.0 if kind in ("lp", "bs") else 0.0))) \
                / (A + abs(mean))
            worst[key] = max(worst.get(key, 0.0), dev)
        chk.dist("%s%s:%s" % (stream, case.get("variant", "signal"), kind))
        if meas is None or dt_model is None:
            # no result: the model side still says what the design should have been (for the record)
            if rec is not None and case["level"] == "signal":
                lines.append(design_line(kind, case["dt"], fcs))
                meta.append(("design", stream, case, inp, rec, None))
            continue
        lines.append(design_line(kind, dt_model, fcs))
        meta.append(("design", stream, case, inp, rec, meas))
        lines.append("flt.steady %s %s %s %s | %s %s %s" % (kind, fbits(dt_model), fbits(mean), " ".join(fbits(v) for v in fcs),
                                                            fbits(A), fbits(f), fbits(ph)))
        meta.append(("steady", stream, case, inp, rec, meas))
        lines.append("flt.gain %s 5 %s %s %s" % (kind, fbits(dt_model), fbits(f), " ".join(fbits(v) for v in fcs)))
        meta.append(("spec", stream, case, inp, rec, meas))

    # ---- model side ---------------------------------------------------------------------------------------------------
    outs = drv.run(lines)
    design_notes = set()
    for (what, stream, case, inp, rec, meas), o in zip(meta, outs):
        A, mean, f, ph = case["A"], case["mean"], case["f"], case["ph"]
        sc = A + abs(mean)
        tol = TOL_IRR if case.get("variant") == "irregular" else TOL
        if what == "design":
            chk.count(stream + "design")
            why = compare_design(o, rec, design_notes)
            if why is not None:
                chk.disagree(stream + "design", dict(inp, differs_in=why), o, jsonable(rec))
        elif what == "steady":
            chk.count(stream + "steady")
            tok = o.split()
            if tok[0] != "ok" or len(tok) != 5:
                chk.disagree(stream + "steady", inp, o, meas)
                continue
            m_mean, m_amp, m_f, m_ph = (unfbits(v) for v in tok[1:])
            g = complex(*meas["gain"])
            # the model keeps frequency and phase: the fitted complex gain (relative to the input phase) must be real
            if m_f != f or m_ph != ph or abs(g * A - m_amp) > tol * sc or abs(meas["mean"] - m_mean) > tol * sc:
                chk.disagree(stream + "steady", inp, dict(mean=m_mean, amp=m_amp, freq=m_f, phase=m_ph),
                             dict(mean=meas["mean"], amp=[g.real * A, g.imag * A], freq=f, phase=ph))
            G = m_amp / A
            if 1e-6 < G < 1 - 1e-6:
                chk.nontriv(repr(inp))
            if len(chk.samples) < 4 and 0.01 < G < 0.99:
                chk.sample(dict(inp, model_amp=m_amp, impl_gain=meas["gain"]))
        else:
            chk.count("spec")
            tok = o.split()
            Gm = unfbits(tok[1]) if tok[0] == "ok" and len(tok) == 2 else float("nan")
            if not abs(Gm - meas["ref"]) <= 1e-9:
                chk.disagree("spec", inp, Gm, meas["ref"])

    chk.notes += sorted("design: " + n for n in design_notes)

    # ---- the same cut-off used with different sampling intervals in one process (state carried between calls would show) -------------
    from qats.signal import lowpass, highpass
    for flt, nm in ((lowpass, "lp"), (highpass, "hp")):
        for fc in (0.1, rng.choice([0.05, 0.2, 0.25])):
            for dt in (0.1, 1.0, 0.5, 0.1):
                if fc >= 0.45 / dt:
                    continue
                n = record_length(dt, [fc])
                t = np.arange(n) * dt
                y = flt(np.sin(2 * np.pi * fc * t), dt, fc)
                g, _, _ = fit(t, y, fc, 0.0, 1.0)
                chk.count("cutoff-sequence")
                if abs(g - 0.5) > 2e-3:
                    chk.fail("gain 1/2 at the cut-off for any sampling interval (same cut-off reused with another dt in the same process)",
                             dict(kind="cutoff-sequence", filter=nm, fc=fc, dts=[0.1, 1.0, 0.5, 0.1], failing_dt=dt), 0.5, [g.real, g.imag])

    # ---- the series-level filter call equals retrieval with the same filter arguments, whatever numeric type the cut-off has --------
    from qats import TimeSeries
    t = np.arange(2001) * 0.1
    ts = TimeSeries("c12", t, np.sin(2 * np.pi * 0.5 * t))
    for ftype, fr in (("lp", 1), ("hp", np.float32(0.5)), ("bp", [0.25, 2]), ("bs", (1, 2.0))):
        chk.count("filter-arg-types")
        fa = (ftype,) + (tuple(fr) if isinstance(fr, (list, tuple)) else (fr,))
        r_get, e_get = call(ts.get, filterargs=fa)
        r_flt, e_flt = call(ts.filter, ftype, fr)
        ok = e_get is None and e_flt is None and np.array_equal(r_get[1], r_flt[1])
        if not ok:
            chk.fail("the series-level filter call equals retrieval with the same filter arguments (integer / numpy / list cut-offs)",
                     dict(filtertype=ftype, freq=str(fr), kind="arg-types"), "equal arrays", "get: %s, filter: %s" % (e_get, e_flt))


# ----------------------------------------------------------------------------------------------------------------------
def replay(rp):
    src = rp.get("input") or (rp.get("first_disagreement") or {}).get("input")
    if not src:
        print("replay: nothing to re-run (no input recorded): %s" % rp.get("broken"))
        return 1
    inp = dict(src)
    inp.pop("differs_in", None)
    if inp.get("variant") == "irregular":
        r2 = __import__("random").Random(inp.get("jitter_seed", 0))
        inp["jitter"] = [r2.uniform(-0.2, 0.2) for _ in range(inp["n"] - 2)]
    if inp.get("level") == "signal":
        fails, meas, rec = sig_clauses(inp, want_rec=True)
        if inp.get("extra"):
            fails += extra_clauses(inp, tuple(inp["extra"]))
        dt_model = inp["dt"]
    else:
        fails, meas, rec, dt_model = ts_clauses(inp, want_rec=True)
    print("input   ", {k: v for k, v in inp.items() if k != "jitter"})
    print("measured", meas)
    print("recorded", jsonable(rec) if rec else rec)
    for oracle, exp, obs in fails:
        print("FAILS: %s\n   expected %s\n   observed %s" % (oracle, exp, obs))
    bad = len(fails)
    if dt_model is not None and rec is not None:
        try:
            drv = core.Driver()
            o = drv.run([design_line(inp["kind"], dt_model, inp["fcs"])])[0]
            why = compare_design(o, rec)
            print("model design:", o, "->", "agrees" if why is None else "DIFFERS in " + why)
        except core.InfraError as e:
            print("model not available:", e)
    print("replay: %d failing clause(s)" % bad)
    return 1 if bad else 0
