"""C07, oracle stream `long`: export -> reload of LONG series (999 ... 70001 samples: just below / at / just above 1000, 1024, 4096,
10000, 65536) to the four export formats, from an in-memory or a file-backed (.pkl) database, without options / with a time window
whose limits are samples at multiples of 1024 / 4096 or among the last samples / with resampling.

Clauses (on the real implementation, no model): the reloaded file lists the selected names; every reloaded series has the processed
time array and the data that in-memory retrieval of that series ON ITS OWN with the same options returns from a reference database
(whole length, the format's precision: c07.tolerances); series whose time arrays differ ONLY in the last sample / by one missing last
sample are never written side by side (export raises and leaves the target directory as it was, or -- when the window excludes the
difference -- it may write equal arrays; a refusal is accepted there as well); an existing target is not overwritten when exist_ok=False.
Content: c01_long columns (column-specific sequences, spikes in the first / last samples and around every multiple of 1000 / 1024 /
4096 / 10000 / 65536)."""
import contextlib
import io
import os
import random
import shutil
import tempfile

import numpy as np

from .c01_long import LONG_N

EXTS = [".ts", ".dat", ".h5", ".pkl"]


def build(case, root, reference=False):
    from qats import TimeSeries, TsDB
    from . import c01_long
    n, k = case["n"], case["k"]
    sp = c01_long.make_spec(dict(fmt="pkl", n=n, k=k, seed=case["seed"], layout="long"))
    t = np.asarray(sp["time"], dtype=float)
    names = ["s%d" % (j + 1) for j in range(k)]
    times = [t.copy() for _ in range(k)]
    cols = [np.asarray(c, dtype=float) for c in sp["cols"]]
    if case["unequal"] == "lastshift":
        times[k - 1][-1] += 0.25 * (t[1] - t[0])
    elif case["unequal"] == "short":
        times[k - 1], cols[k - 1] = times[k - 1][:-1], cols[k - 1][:-1]
    if case["source"] == "pkl" and case["unequal"] == "none":
        import pandas as pd
        src = os.path.join(root, "ref" if reference else "src", "source.pkl")
        os.makedirs(os.path.dirname(src), exist_ok=True)
        df = pd.DataFrame({nm: c for nm, c in zip(names, cols)})
        df.index = t
        df.to_pickle(src)
        db = TsDB.fromfile(src)
    else:
        db = TsDB()
        for nm, tt, c in zip(names, times, cols):
            db.add(TimeSeries(nm, tt.copy(), c.copy()))
    return db, names, t


def options(case, t):
    n = len(t)
    kw = {}
    tw = case["twin"]
    if tw == "mult":
        m = max(b for b in (512, 1024, 4096, 8192, 65536) if b < n - 1)
        kw["twin"] = (float(t[m]), float(t[n - 1]))
    elif tw == "head":
        m = max(b for b in (512, 1024, 4096, 8192, 65536) if b < n - 1)
        kw["twin"] = (float(t[0]), float(t[m]))
    elif tw == "tail":
        kw["twin"] = (float(t[n - 3]), float(t[n - 1]) + 1.0)
    elif tw == "cut":
        kw["twin"] = (float(t[1]), float(t[n - 3]))            # excludes a difference in the last sample
    if case["resample"]:
        kw["resample"] = 2.0 * float(t[1] - t[0])
    return kw


def snapshot(d):
    out = {}
    for dp, _, fns in os.walk(d):
        for fn in fns:
            p = os.path.join(dp, fn)
            out[os.path.relpath(p, d)] = (os.stat(p).st_size, os.stat(p).st_mtime_ns)
    return out


def eval_case(case):
    """[(clause, detail, expected, observed)]"""
    from qats import TsDB
    from .c07 import tolerances, within
    bad = []
    root = tempfile.mkdtemp(prefix="qv07L_")
    try:
        ext = case["ext"]
        db, names, t = build(case, root)
        ref, _, _ = build(case, root, reference=True)
        kw = options(case, t)
        sel = list(names) if case["select"] == "all" else [names[-1], names[0]] if len(names) > 1 else list(names)
        tdir = os.path.join(root, "out")
        os.makedirs(tdir)
        target = os.path.join(tdir, "export" + ext)
        if case["preexisting"]:
            with open(target, "wb") as f:
                f.write(b"previous export\n")
        before = snapshot(tdir)
        # reference: every selected series on its own from a database in which nothing is stored
        exp = {}
        try:
            for nm in sel:
                tt, xx = ref.geta(name=nm, store=False, **kw)
                exp[nm] = (np.array(tt, dtype=float), np.array(xx, dtype=float))
        except Exception as e:      # noqa
            return [("in-memory retrieval of a long series with the options of the export succeeds", dict(options=str(kw)), "arrays",
                     "raised %s: %s" % (type(e).__name__, str(e)[:200]))]
        differ = any(exp[a][0].shape != exp[sel[0]][0].shape or not np.allclose(exp[a][0], exp[sel[0]][0], rtol=1e-9, atol=1e-12)
                     for a in sel)
        raised = None
        try:
            with contextlib.redirect_stdout(io.StringIO()):
                db.export(target, names=sel, exist_ok=not case["preexisting"], **kw)
        except Exception as e:      # noqa
            raised = e
        det = dict(options={a: list(b) if isinstance(b, tuple) else b for a, b in kw.items()}, select=sel)
        if raised is not None:
            if snapshot(tdir) != before:
                bad.append(("export raises without touching the target", det, "target directory as it was",
                            "changed after %s" % type(raised).__name__))
            if not differ and not case["preexisting"] and case["unequal"] == "none":
                bad.append(("an export of series with one common processed time array is carried out", det, "file written",
                            "raised %s: %s" % (type(raised).__name__, str(raised)[:200])))
            return bad
        if case["preexisting"]:
            bad.append(("an existing file is not overwritten when overwriting is disallowed", det, "raises", "export returned"))
            return bad
        if differ:
            bad.append(("series whose processed time arrays differ are never written side by side", det, "raises",
                        "written (the arrays differ only in the last sample / by one missing last sample of %d)" % case["n"]))
            return bad
        try:
            back = TsDB.fromfile(target)
            got_names = back.list(relative=True)
            got = {nm: back.geta(name=k_, store=False) for nm, k_ in zip(got_names, back.register_keys)}
        except Exception as e:      # noqa
            return [("the written file can be loaded", det, "database", "raised %s: %s" % (type(e).__name__, str(e)[:200]))]
        if sorted(got_names) != sorted(sel):
            bad.append(("loading the written file yields the same names", det, sorted(sel), sorted(got_names)))
            return bad
        for nm in sel:
            te, xe = exp[nm]
            tg, xg = np.asarray(got[nm][0], dtype=float), np.asarray(got[nm][1], dtype=float)
            rt, at, rx, ax = tolerances(ext, te, xe)
            for what, g, e, r_, a_ in (("time", tg, te, rt, at), ("data", xg, xe, rx, ax)):
                if g.shape != e.shape:
                    bad.append(("loading the written file yields the processed %s array in-memory retrieval returns" % what,
                                dict(det, name=nm), "%d samples" % len(e), "%d samples" % len(g)))
                    break
                ok = within(g, e, r_, a_)
                if not bool(np.all(ok)):
                    w = np.flatnonzero(~ok)
                    bad.append(("loading the written file yields the processed %s array in-memory retrieval returns, within the "
                                "format's precision" % what, dict(det, name=nm),
                                "%d samples" % len(e), "%d differ, first at %d (expected %r, reloaded %r), last at %d" % (
                                    len(w), w[0], float(e[w[0]]), float(g[w[0]]), w[-1])))
                    break
            if bad:
                break
    finally:
        shutil.rmtree(root, ignore_errors=True)
    return bad


def gen_cases(rng, quick):
    bands = [LONG_N[0:3], LONG_N[3:6], LONG_N[6:9], LONG_N[9:12], LONG_N[12:16]]
    plan = []
    if quick:
        for ext in EXTS:
            plan.append((ext, rng.choice(bands[rng.randrange(2)])))
            plan.append((ext, rng.choice(bands[2])))
            plan.append((ext, rng.choice(bands[3])))
            plan.append((ext, rng.choice(bands[4])))
    else:
        plan = [(ext, nn) for ext in EXTS for nn in LONG_N]
    out = []
    for i, (ext, nn) in enumerate(plan):
        unequal = rng.choice(["none", "none", "none", "lastshift", "short"])
        twin = rng.choice([None, None, "mult", "head", "tail", "cut"])
        if unequal != "none":
            twin = rng.choice([None, None, "head", "cut", "mult"])
        out.append(dict(kind="long", ext=ext, n=nn, k=rng.choice([2, 3]), seed=rng.randrange(10 ** 6), twin=twin,
                        resample=(unequal == "none" and rng.random() < 0.2), unequal=unequal, source=rng.choice(["mem", "mem", "pkl"]),
                        select=rng.choice(["all", "all", "swap"]), preexisting=rng.random() < 0.15))
    return out


def run_long(chk):
    for case in gen_cases(chk.rng, chk.quick):
        chk.count("long-export")
        chk.dist("long:%s n=%d %s" % (case["ext"], case["n"], case["unequal"]))
        try:
            bad = eval_case(case)
        except Exception as e:      # noqa
            bad = [("a long export case can be evaluated", {}, "result", "raised %s: %s" % (type(e).__name__, str(e)[:300]))]
        chk.nontriv(("long", case["ext"], case["n"], case["seed"]))
        for clause, detail, exp, obs in bad[:1]:
            chk.fail(clause, dict(case, detail=detail), exp, obs, clause="long")


def replay_long(inp):
    case = {k: v for k, v in inp.items() if k != "detail"}
    bad = eval_case(case)
    for clause, detail, exp, obs in bad[:5]:
        print("FAILS: %s: %s\n   expected %s\n   observed %s" % (clause, detail, str(exp)[:300], str(obs)[:300]))
    print("replay: %d failing clause(s)" % len(bad))
    return 1 if bad else 0
