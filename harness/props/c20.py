"""
C20 — motion transformation is rigid; derivatives are exact for low-order motion.

Tie: translator (nine rotation-matrix entries, re-proved orthogonal / = Rz·Ry·Rx each run) + Float correspondence of
`transform_motion` (deg / rad) per time step; strict Rat correspondence of `velocity` / `acceleration`
(scalar step and time array, 1-D and 2-D) on dyadic signals.
Search: rigidity, zero rotation, deg/rad, independent Euler rotation, exactness on polynomials, linearity, shape.
"""
import math
from fractions import Fraction

import numpy as np

from .. import core
from ..core import fbits, rat, unfbits
from .c05 import close

USES_TRANSLATOR = True
ANCHOR_PREFIX = ("mo_",)
RULE = ("random 6-dof motions (1-5 time steps, angles up to ±180 deg / ±pi rad, zero-rotation and single-axis cases) x body points; "
        "dyadic polynomial and random signals x uniform grids (power-of-two steps) and non-uniform dyadic grids, 1-D / 2-D; "
        "non-trivial = at least two non-zero angles, or signal of >= 5 samples; distinct by input")


def euler(rx, ry, rz):
    cx, sx, cy, sy, cz, sz = math.cos(rx), math.sin(rx), math.cos(ry), math.sin(ry), math.cos(rz), math.sin(rz)
    Rx = np.array([[1, 0, 0], [0, cx, -sx], [0, sx, cx]])
    Ry = np.array([[cy, 0, sy], [0, 1, 0], [-sy, 0, cy]])
    Rz = np.array([[cz, -sz, 0], [sz, cz, 0], [0, 0, 1]])
    return Rz @ Ry @ Rx


def run(chk):
    from qats.motions import transform_motion, velocity, acceleration
    chk.extra["rule"] = RULE
    chk.assumptions += ["np.gradient(edge_order=1) second-order interior formula as documented by numpy (modelled in Qats.Motion.interior)",
                        "rotation correspondence tolerance 1e-12 relative to the vector length; gradient correspondence exact on "
                        "power-of-two grids, 1e-12 on non-uniform grids (float division)"]
    rng = chk.rng
    drv = core.Driver()
    # ---- transform_motion ---------------------------------------------------------------------------------------
    N = 200 if chk.quick else 3000
    lines, meta = [], []
    for k in range(N):
        nt = rng.choice([1, 2, 5])
        unit = rng.choice(["deg", "rad"])
        amp = 180.0 if unit == "deg" else math.pi
        mode = rng.random()
        mot = np.zeros((6, nt))
        for i in range(nt):
            mot[:3, i] = [rng.uniform(-50, 50) for _ in range(3)]
            if mode < 0.1:
                ang = [0.0, 0.0, 0.0]
            elif mode < 0.3:
                ang = [0.0, 0.0, 0.0]
                ang[rng.randrange(3)] = rng.uniform(-amp, amp)
            else:
                ang = [rng.uniform(-amp, amp) for _ in range(3)]
            mot[3:, i] = ang
        ref = [rng.uniform(-100, 100) for _ in range(3)]
        if rng.random() < 0.05:
            ref = [0.0, 0.0, 0.0]
        out = transform_motion(mot, ref, rotunit=unit)
        for i in range(nt):
            lines.append("mo.transform %s %s" % ("1" if unit == "deg" else "0",
                                                 " ".join(fbits(v) for v in list(mot[:, i]) + ref)))
            meta.append((mot, ref, unit, i, out))
    outs = drv.run(lines)
    scale = lambda ref, mot, i: 1.0 + max(abs(v) for v in ref) + max(abs(v) for v in mot[:3, i])
    for (mot, ref, unit, i, out), o in zip(meta, outs):
        chk.count("mo.transform")
        inp = dict(motion=mot[:, i].tolist(), newref=ref, rotunit=unit)
        m = [unfbits(x) for x in o.split()[1:]]
        sc = scale(ref, mot, i)
        if not all(abs(a - float(b)) <= 1e-12 * sc for a, b in zip(m, out[:, i])):
            chk.disagree("mo.transform", inp, m, out[:, i].tolist())
        ang = mot[3:, i] if unit == "rad" else np.radians(mot[3:, i])
        if np.count_nonzero(ang) >= 2:
            chk.nontriv(repr(inp))
        chk.dist("angles_nonzero=%d:%s" % (np.count_nonzero(ang), unit))
        # oracles
        d = out[:, i] - mot[:3, i]
        if abs(np.linalg.norm(d) - np.linalg.norm(ref)) > 1e-10 * sc:
            chk.fail("distance between the two points is constant (= |newref|)", inp, float(np.linalg.norm(ref)), float(np.linalg.norm(d)))
        e = euler(*ang) @ np.array(ref) + mot[:3, i]
        if not np.allclose(e, out[:, i], rtol=0, atol=1e-10 * sc):
            chk.fail("result equals an independent z-y-x Euler rotation plus the reference position", inp, e.tolist(), out[:, i].tolist())
        if np.count_nonzero(ang) == 0 and not np.allclose(out[:, i], mot[:3, i] + np.array(ref), rtol=0, atol=1e-12 * sc):
            chk.fail("zero rotation is a pure offset", inp, (mot[:3, i] + np.array(ref)).tolist(), out[:, i].tolist())
        other = mot.copy()
        other[3:, :] = np.degrees(mot[3:, :]) if unit == "rad" else np.radians(mot[3:, :])
        o2 = transform_motion(other, ref, rotunit="deg" if unit == "rad" else "rad")
        if not np.allclose(o2[:, i], out[:, i], rtol=0, atol=1e-9 * sc):
            chk.fail("degree and radian input agree", inp, out[:, i].tolist(), o2[:, i].tolist())
        if i == 0 and len(chk.samples) < 2:
            chk.sample(dict(inp, result=out[:, i].tolist()))
    # integer-valued motions (whole metres, whole degrees) are transformed like float ones
    for _ in range(30 if chk.quick else 300):
        mot_i = np.array([[rng.randint(-20, 20)] for _ in range(3)] + [[rng.randint(-170, 170)] for _ in range(3)])
        ref = [float(rng.randint(-30, 30)) for _ in range(3)]
        oi = np.asarray(transform_motion(mot_i, ref), dtype=float)
        of = transform_motion(mot_i.astype(float), ref)
        chk.count("mo.int-motion")
        if not np.allclose(oi, of, rtol=0, atol=1e-9):
            chk.fail("integer and float input of the same motion agree", dict(motion=mot_i[:, 0].tolist(), newref=ref, rotunit="deg"),
                     of[:, 0].tolist(), oi[:, 0].tolist())
    # two body points keep their distance
    for _ in range(50 if chk.quick else 500):
        mot = np.array([[rng.uniform(-5, 5)] for _ in range(3)] + [[rng.uniform(-180, 180)] for _ in range(3)])
        a, b = [rng.uniform(-10, 10) for _ in range(3)], [rng.uniform(-10, 10) for _ in range(3)]
        da = transform_motion(mot, a)[:, 0] - transform_motion(mot, b)[:, 0]
        chk.count("mo.rigid-pairs")
        if abs(np.linalg.norm(da) - np.linalg.norm(np.array(a) - np.array(b))) > 1e-10 * 30:
            chk.fail("distance between two body points is preserved", dict(motion=mot[:, 0].tolist(), a=a, b=b),
                     float(np.linalg.norm(np.array(a) - np.array(b))), float(np.linalg.norm(da)))
    # ---- velocity / acceleration ------------------------------------------------------------------------------------
    G = 250 if chk.quick else 4000
    lines, meta = [], []
    for k in range(G):
        n = rng.choice([2, 3, 4, 5, 6, 7, 9, 12, 20])
        uniform = rng.random() < 0.6
        if uniform:
            h = Fraction(1, rng.choice([1, 2, 4, 8])) * rng.choice([1, 1, 2])
            t0 = Fraction(rng.randint(-4, 4))
            ts = [t0 + i * h for i in range(n)]
        else:
            ts = [Fraction(rng.randint(-4, 4))]
            for i in range(n - 1):
                ts.append(ts[-1] + Fraction(rng.choice([1, 2, 3, 4, 6]), rng.choice([1, 2, 4])))
        kind = rng.random()
        if kind < 0.25:
            p, q = Fraction(rng.randint(-6, 6), 2), Fraction(rng.randint(-6, 6))
            xs = [p * t + q for t in ts]
            poly = (0, p, q)
        elif kind < 0.6:
            a, p, q = Fraction(rng.randint(-4, 4), 2), Fraction(rng.randint(-6, 6), 2), Fraction(rng.randint(-6, 6))
            xs = [a * t * t + p * t + q for t in ts]
            poly = (a, p, q)
        else:
            xs = [Fraction(rng.randint(-32, 32), rng.choice([1, 2, 4])) for _ in ts]
            poly = None
        scalar = uniform and rng.random() < 0.5
        for fn in ("vel", "acc"):
            if scalar:
                lines.append("mo.%s step %s %s" % (fn, rat(h), " ".join(rat(v) for v in xs)))
            else:
                lines.append("mo.%s arr %s | %s" % (fn, " ".join(rat(v) for v in ts), " ".join(rat(v) for v in xs)))
            meta.append((fn, ts, xs, poly, scalar, h if scalar else None, uniform))
    outs = drv.run(lines)
    for (fn, ts, xs, poly, scalar, h, uniform), o in zip(meta, outs):
        chk.count("mo." + fn)
        tf = float(h) if scalar else np.array([float(v) for v in ts])
        xf = np.array([float(v) for v in xs])
        inp = dict(fn=fn, t=[str(v) for v in ts] if not scalar else str(h), x=[str(v) for v in xs])
        f = velocity if fn == "vel" else acceleration
        try:
            got = f(xf, tf)
            im = [float(v) for v in got]
        except Exception as e:
            got, im = None, "err:" + type(e).__name__
        if len(xs) >= 5:
            chk.nontriv(repr(inp))
        chk.dist("%s:%s:%s" % (fn, "scalar" if scalar else ("uniform-arr" if uniform else "nonuniform"),
                               "rand" if poly is None else ("affine" if poly[0] == 0 else "quadratic")))
        if o.startswith("err") or isinstance(im, str):
            if o.startswith("err") != isinstance(im, str):
                chk.disagree("mo." + fn, inp, o, im)
            continue
        m = [Fraction(v) for v in o.split()[1:]]
        tol = 0.0 if uniform else 1e-11
        if len(m) != len(im) or any(abs(float(a) - b) > tol * (1 + abs(b)) for a, b in zip(m, im)):
            chk.disagree("mo." + fn, inp, [str(v) for v in m], im)
        # oracles
        if got.shape != xf.shape:
            chk.fail("result keeps the input shape", inp, xf.shape, got.shape)
        n = len(xs)
        if poly is not None:
            a, p, q = poly
            if fn == "vel":
                lo, hi = (0, n) if a == 0 else (1, n - 1)
                exp = [float(2 * a * t + p) for t in ts]
            else:
                lo, hi = (0, n) if (a == 0 and False) else (2, n - 2)
                exp = [float(2 * a)] * n
                if a == 0 and p == 0:
                    lo, hi = 0, n
            for i in range(lo, hi):
                if abs(im[i] - exp[i]) > 1e-9 * (1 + abs(exp[i])):
                    chk.fail("%s exact for degree<=2 motion away from the ends (velocity from the 2nd, acceleration from the 3rd sample)"
                             % fn, dict(inp, index=i), exp[i], im[i])
                    break
        # linearity and 2-D
        y = np.array([float(Fraction((i * 7) % 5 - 2, 2)) for i in range(n)])
        lin = f(2.0 * xf - 3.0 * y, tf)
        hmin = float(h) if scalar else float(np.min(np.diff(tf)))
        lin_tol = 1e-11 * (1.0 + float(np.max(np.abs(xf)))) / hmin ** (1 if fn == "vel" else 2)   # cancellation in the difference quotients
        if not np.allclose(lin, 2.0 * got - 3.0 * f(y, tf), rtol=1e-9, atol=lin_tol):
            chk.fail("linear in the signal", inp, (2.0 * got - 3.0 * f(y, tf)).tolist(), lin.tolist())
        two = f(np.vstack([xf, y]), tf)
        if two.shape != (2, n) or not np.array_equal(two[0], got) or not np.array_equal(two[1], f(y, tf)):
            chk.fail("2-D input is processed row by row with the input shape", inp, "rows equal 1-D results", str(two.shape))
    chk.sample(dict(fn="vel", t="1", x=[0, 1, 4, 9, 16], model=[1, 2, 4, 6, 7]))


def replay(rp):
    from qats.motions import transform_motion, velocity, acceleration
    inp = rp["input"]
    bad = 0
    if "motion" in inp and "newref" in inp:
        mot = np.array(inp["motion"]).reshape(6, 1)
        out = transform_motion(mot, inp["newref"], rotunit=inp["rotunit"])[:, 0]
        ang = mot[3:, 0] if inp["rotunit"] == "rad" else np.radians(mot[3:, 0])
        e = euler(*ang) @ np.array(inp["newref"]) + mot[:3, 0]
        print("impl", out.tolist(), "euler", e.tolist())
        if not np.allclose(e, out, atol=1e-8):
            bad += 1
    elif "fn" in inp:
        f = velocity if inp["fn"] == "vel" else acceleration
        t = float(Fraction(inp["t"])) if isinstance(inp["t"], str) else np.array([float(Fraction(v)) for v in inp["t"]])
        x = np.array([float(Fraction(v)) for v in inp["x"]])
        print(f(x, t).tolist())
        drv = core.Driver()
        ln = ("mo.%s step %s %s" % (inp["fn"], inp["t"], " ".join(inp["x"]))) if isinstance(inp["t"], str) else \
            ("mo.%s arr %s | %s" % (inp["fn"], " ".join(inp["t"]), " ".join(inp["x"])))
        o = drv.run([ln])[0]
        print("model", o)
        m = [float(Fraction(v)) for v in o.split()[1:]]
        if not np.allclose(m, f(x, t), rtol=1e-11, atol=1e-11):
            bad += 1
    print("replay: %d failing clause(s)" % bad)
    return 1 if bad else 0
