"""
C20 — motion transformation is rigid; derivatives are exact for low-order motion.

Tie: translator (nine rotation-matrix entries, re-proved orthogonal / = Rz·Ry·Rx each run) + Float correspondence of
`transform_motion` (deg / rad) per time step; strict Rat correspondence of `velocity` / `acceleration`
(scalar step and time array, 1-D and 2-D) on dyadic signals.
Search: rigidity, zero rotation, deg/rad, independent Euler rotation, exactness on polynomials, linearity, shape.

Second part (cases of kind "tm" / "gr" / "hom", corpus/C20/*.json first): the same clauses and the same model tie on
* other spellings of the input: motion / newref / signal / time as ndarray, list, tuple, sequences of arrays, integer and
  float32 arrays, Fortran-ordered / transposed / sliced / strided views, read-only arrays; `rotunit` by default, by position,
  by keyword; the step as Python float, numpy float64, and (finding F39) int / numpy integer / float32 / 0-d array;
* boundary values: angles on the axes and beyond a full turn, +-0, 1e-9; positions and body points of magnitude 2^+-200, zero and
  one-axis body points, offsets of 1e9; signals times 2^+-200, time offsets up to 2^30, decimal steps (0.1, 0.01, 0.001 ...)
  as scalar and as the array float arithmetic makes of them, 1..4 samples, constants;
* histories: several calls on ONE motion / newref / signal / time object, in-place changes by the caller between the calls,
  every earlier result re-read after every later call, read-only inputs;
* crashes: every call of the implementation is wrapped, an exception is a failing clause.

Third part (fault points and shared state; streams "tm.faults" / "gr.faults" / "session", corpus/C20/fault_sessions.json):
* calls that an entry point may reject (op "bad": point with 0 / 2 / 4 coordinates, of shape (3, 1) / (1, 3) / (2, 3), of text, None;
  unknown unit; motion with 5 / 7 rows, 1-D, 3-D, transposed, of text, with None, ragged, None; wrong keyword / arity; time array too
  long / too short / 2-D / of text / None / complex / zero step; signal 0-d / 3-d / of text / of one sample / shorter than the time
  array) are inserted into the histories before the valid calls (after the caller's in-place changes).  Their outcome is not
  judged; the clauses are evaluated on the NEXT valid calls on the same objects, as in every history;
* sessions (kind "ses"): the histories of 2-4 motions / signals (own objects each; same length mostly; "twins" = the same numbers
  and history in another container / number type) interleaved through the same module;
* every call of the implementation is made by a worker thread with a time limit: a call that does not return is a failing clause.

Audit round 8 (size-conditioned code paths; streams "long.tm" / "long.gr", c20_long.py): the same clauses at EVERY time step / sample of
motions and polynomial signals of 999 ... 131073 time steps (special time steps and the vertex of the parabola at the first / last
samples and at, next to and across multiples of 1000 / 1024 / 4096 / 10000 / 65536), the model tie at the special positions (transform)
and for whole dyadic signals of up to 4097 samples (velocity / acceleration).
"""
import copy
import math
import queue
import threading
from fractions import Fraction

import numpy as np

from .. import core
from ..core import fbits, rat, unfbits
from .c05 import close

USES_TRANSLATOR = True
ANCHOR_PREFIX = ("mo_",)
RULE = ("random 6-dof motions (1-5 time steps, angles up to ±180 deg / ±pi rad, zero-rotation and single-axis cases) x body points; "
        "dyadic polynomial and random signals x uniform grids (power-of-two steps) and non-uniform dyadic grids, 1-D / 2-D; "
        "non-trivial = at least two non-zero angles, or signal of >= 5 samples; distinct by input; "
        "cases (tm / gr / hom): containers x number types x argument passing, boundary angles / magnitudes 2^+-200 / decimal steps / "
        "1-4 samples, histories of 3-8 steps on one object with in-place changes; non-trivial = >= 2 calls or >= 2 non-zero angles "
        "(tm), >= 5 samples or >= 3 steps (gr); "
        "faults / sessions: the same histories with calls the entry point may reject inserted before valid calls, and 2-4 such histories "
        "(own objects, same module) interleaved; non-trivial (session) = >= 1 rejected call and >= 2 objects; "
        "long: motions (smooth sums of sines or random, deg / rad, special steps: zero rotation, quarter / half turns about one axis, pitch "
        "+-90 deg, beyond a full turn, -0.0, far position) and polynomial signals of degree <= 2 (dyadic coefficients on power-of-two steps: "
        "exact; float coefficients on decimal steps; scalar step / time array, 1-D / 2-7 rows, vertex at a special position; second signal "
        "with spikes / steps for linearity) of n in {999,1000,1001,1023,1024,1025,4095,4096,4097,9999,10000,10001,65535,65536,65537,70001,"
        "131073} time steps (quick: 3 motions, 6 signals), special positions = first / last and at, next to, across multiples of 1000 / 1024 / "
        "4096 / 10000 / 65536")


def euler(rx, ry, rz):
    cx, sx, cy, sy, cz, sz = math.cos(rx), math.sin(rx), math.cos(ry), math.sin(ry), math.cos(rz), math.sin(rz)
    Rx = np.array([[1, 0, 0], [0, cx, -sx], [0, sx, cx]])
    Ry = np.array([[cy, 0, sy], [0, 1, 0], [-sy, 0, cy]])
    Rz = np.array([[cz, -sz, 0], [sz, cz, 0], [0, 0, 1]])
    return Rz @ Ry @ Rx


# ======================================================================================================================
# Second part (audit after the three seeded rounds): the same clauses on other SPELLINGS of the input (containers, number
# types, ways to pass an argument), on BOUNDARY values (angles on the axes / beyond a turn, magnitudes 2^+-200, large time
# offsets, decimal steps, 1..4 samples) and on HISTORIES (the second use of the caller's arrays, in-place changes between
# calls, earlier results re-read later).  A case is a JSON-serialisable dict (`kind` = "tm" | "gr" | "hom"); `_tm_eval` /
# `_gr_eval` / `_hom_eval` evaluate the clauses on the implementation and are shared by run() and replay().
# ======================================================================================================================
TM_CONT_FLOAT = ["ndarray", "list", "tuple", "tuple-of-arrays", "list-of-arrays", "F-order", "T-view", "slice-view", "step-view",
                 "readonly", "float32"]
TM_CONT_INT = ["int64", "int32", "list-int", "tuple-int", "tuple-of-int-arrays", "readonly-int64", "int-T-view"]
TM_CONT_MUTABLE = ["ndarray", "F-order", "T-view", "slice-view", "step-view"]
REF_CONT_FLOAT = ["list", "tuple", "ndarray", "readonly", "step-view"]
REF_CONT_INT = ["list-int", "tuple-int", "int64", "int32"]
X_CONT_FLOAT = ["ndarray", "list", "tuple", "readonly", "step-view"]
X_CONT_INT = ["int64", "int32", "list-int", "tuple-int"]
X2_CONT_FLOAT = ["ndarray", "list", "tuple", "list-of-arrays", "F-order", "T-view", "readonly"]
X2_CONT_INT = ["int64", "list-int", "int-T-view"]
T_SCALAR_FLOAT = ["float", "np.float64"]
T_SCALAR_OTHER = ["int", "np.int64", "np.float32", "0-d"]        # a scalar step that is not a Python float (finding F39)
T_ARR_FLOAT = ["ndarray", "list", "tuple", "readonly", "step-view"]
T_ARR_INT = ["int64", "list-int", "tuple-int"]
TINY = 1e-300


CALL_LIMIT = 4.0                                                 # seconds; a call of the implementation that takes longer "does not return"
_HANG = {"n": 0}
NOT_CALLED = "not called (three earlier calls did not return)"


class _Worker:
    """one thread that makes the calls of the implementation, so that the harness can stop waiting for a call"""
    def __init__(self):
        self.jobs, self.results = queue.SimpleQueue(), queue.SimpleQueue()
        threading.Thread(target=self._loop, daemon=True).start()

    def _loop(self):
        while True:
            f, a, k = self.jobs.get()
            try:
                res = (f(*a, **k), None)
            except BaseException as e:                            # noqa: BLE001
                res = (None, "err:%s: %s" % (type(e).__name__, str(e)[:120]))
            self.results.put(res)


def _call(f, *a, **k):
    """(value, None) or (None, 'err:Type: message') — an exception of the implementation never leaves the harness, and a call
    that does not return within CALL_LIMIT seconds is 'err:Timeout: ...' (the calls are made by a worker thread, which is
    abandoned when it does not answer; after three such calls nothing is called any more, so that a check can never hang)"""
    if _HANG["n"] >= 3:
        return None, "err:Timeout: " + NOT_CALLED
    w = _HANG.get("worker")
    if w is None:
        w = _HANG["worker"] = _Worker()
    w.jobs.put((f, a, k))
    try:
        return w.results.get(timeout=CALL_LIMIT)
    except queue.Empty:
        _HANG["n"] += 1
        _HANG["worker"] = None
        return None, "err:Timeout: the call did not return within %g s" % CALL_LIMIT


def _hung(err):
    return err is not None and err.startswith("err:Timeout")


RETURNS = "every call returns: after a rejected call the same objects / the same module can be used again (the call did not return)"


def _ro(a):
    a.setflags(write=False)
    return a


def _make_2d(vals, cont):
    """the (rows x columns) numbers `vals` in the container `cont`"""
    nr, nc = len(vals), len(vals[0]) if vals else 0
    fl = [[float(v) for v in r] for r in vals]
    it = lambda: [[int(v) for v in r] for r in vals]
    if cont == "ndarray":
        return np.array(fl, dtype=float).reshape(nr, nc)
    if cont == "list":
        return fl
    if cont == "tuple":
        return tuple(tuple(r) for r in fl)
    if cont == "tuple-of-arrays":
        return tuple(np.array(r, dtype=float) for r in fl)
    if cont == "list-of-arrays":
        return [np.array(r, dtype=float) for r in fl]
    if cont == "F-order":
        return np.asfortranarray(np.array(fl, dtype=float).reshape(nr, nc))
    if cont == "T-view":
        return np.array(fl, dtype=float).reshape(nr, nc).T.copy().T
    if cont == "slice-view":
        big = np.full((nr + 2, nc + 3), 7.25)
        big[1:nr + 1, 2:nc + 2] = np.array(fl, dtype=float).reshape(nr, nc)
        return big[1:nr + 1, 2:nc + 2]
    if cont == "step-view":
        big = np.full((nr, 2 * nc), -3.5)
        big[:, ::2] = np.array(fl, dtype=float).reshape(nr, nc)
        return big[:, ::2]
    if cont == "readonly":
        return _ro(np.array(fl, dtype=float).reshape(nr, nc))
    if cont == "float32":
        return np.array(fl, dtype=np.float32).reshape(nr, nc)
    if cont == "int64":
        return np.array(it(), dtype=np.int64).reshape(nr, nc)
    if cont == "int32":
        return np.array(it(), dtype=np.int32).reshape(nr, nc)
    if cont == "list-int":
        return it()
    if cont == "tuple-int":
        return tuple(tuple(r) for r in it())
    if cont == "tuple-of-int-arrays":
        return tuple(np.array(r, dtype=np.int64) for r in it())
    if cont == "readonly-int64":
        return _ro(np.array(it(), dtype=np.int64).reshape(nr, nc))
    if cont == "int-T-view":
        return np.array(it(), dtype=np.int64).reshape(nr, nc).T.copy().T
    raise ValueError("container " + cont)


def _make_1d(vals, cont):
    fl = [float(v) for v in vals]
    if cont == "ndarray":
        return np.array(fl, dtype=float)
    if cont == "list":
        return fl
    if cont == "tuple":
        return tuple(fl)
    if cont == "readonly":
        return _ro(np.array(fl, dtype=float))
    if cont == "step-view":
        big = np.full(2 * len(fl), 11.0)
        big[::2] = fl
        return big[::2]
    if cont == "int64":
        return np.array([int(v) for v in vals], dtype=np.int64)
    if cont == "int32":
        return np.array([int(v) for v in vals], dtype=np.int32)
    if cont == "list-int":
        return [int(v) for v in vals]
    if cont == "tuple-int":
        return tuple(int(v) for v in vals)
    raise ValueError("container " + cont)


def _make_step(h, cont):
    if cont == "float":
        return float(h)
    if cont == "np.float64":
        return np.float64(float(h))
    if cont == "int":
        return int(h)
    if cont == "np.int64":
        return np.int64(int(h))
    if cont == "np.float32":
        return np.float32(float(h))
    if cont == "0-d":
        return np.array(float(h))
    raise ValueError("step type " + cont)


# ---- transform_motion cases -------------------------------------------------------------------------------------------
def _tm_states(case, bads=None):
    """pristine float state before every call step: [(step index, P (6, nt), ref (3,), unit)]; `bads` (a dict) receives the
    motion state at every step of a call that may be rejected (op "bad")"""
    P = np.array(case["motion"], dtype=float).reshape(6, -1)
    ref, out = None, []
    for k, st in enumerate(case["steps"]):
        if st["op"] == "set":
            P = P.copy()
            P[st["row"], st["col"]] = st["value"]
        elif st["op"] == "setref":
            ref = ref.copy()
            ref[st["idx"]] = st["value"]
        elif st["op"] == "bad":
            if bads is not None:
                bads[k] = P
        else:
            if st.get("rcont") != "same":
                ref = np.array(st["newref"], dtype=float)
            out.append((k, P, ref, st["unit"]))
    return out


def _tm_lines(case):
    return ["mo.transform %s %s" % ("1" if unit == "deg" else "0", " ".join(fbits(v) for v in list(P[:, i]) + list(ref)))
            for _, P, ref, unit in _tm_states(case) for i in range(P.shape[1])]


# calls that an entry point may reject (or answer: their outcome is not judged, only that they return); what matters is the
# NEXT valid call on the same objects / the same module.  The faults sit at different depths of the function: before it is
# entered (arity, keyword), shape of the motion, size of the point, unit, the trigonometry (text / None as angles), the final
# product (a point of shape (3, 1) / (1, 3) / of text).
BAD_TM = ["ref2", "ref2", "ref4", "ref0", "ref-none", "ref-str", "ref-strs", "ref-col", "ref-row", "ref-2x3", "unit", "unit", "kw", "arity",
          "rows5", "rows7", "mot-1d", "mot-3d", "mot-T", "mot-str", "mot-obj", "mot-none", "mot-ragged", "mot-nt0"]
BAD_UNITS = ["degree", "grad", "DEG", "Rad", "", None, 0, "radians"]


def _tm_bad_args(st, mot, P):
    """(args, kwargs) of the call of step `st` (op "bad"); `mot` is the caller's motion object, P its numbers"""
    why, unit = st["why"], st["unit"]
    nr = [float(v) for v in st["newref"]]
    if why.startswith("ref"):
        ref = {"ref2": nr[:2], "ref4": nr + [1.0], "ref0": [], "ref-none": None, "ref-str": "abc", "ref-strs": ["a", "b", "c"],
               "ref-col": np.array(nr).reshape(3, 1), "ref-row": np.array(nr).reshape(1, 3), "ref-2x3": np.array([nr, nr])}[why]
        if why in ("ref2", "ref4", "ref0") and st.get("rcont") in ("ndarray", "tuple"):
            ref = np.array(ref, dtype=float) if st["rcont"] == "ndarray" else tuple(ref)
        return (mot, ref), dict(rotunit=unit)
    if why == "unit":
        return (mot, nr), dict(rotunit=st["value"])
    if why == "kw":
        return (mot, nr), dict(unit=unit)
    if why == "arity":
        return (mot,), {}
    A, nt = np.asarray(mot), P.shape[1]
    if why == "mot-T" and nt == 6:
        why = "rows5"
    bad = {"rows5": lambda: A[:5], "rows7": lambda: np.vstack([P, P[:1]]), "mot-1d": lambda: A[0], "mot-3d": lambda: A[None],
           "mot-T": lambda: A.T, "mot-str": lambda: P.astype(str), "mot-none": lambda: None, "mot-nt0": lambda: A[:, :0],
           "mot-obj": lambda: np.array([[None if (r, c) == (4, 0) else v for c, v in enumerate(row)] for r, row in enumerate(P.tolist())],
                                       dtype=object).reshape(6, nt),
           "mot-ragged": lambda: P.tolist()[:5] + [P.tolist()[5] + [0.0]]}[why]()
    return (bad, nr), dict(rotunit=unit)


def _tm_eval(case, transform_motion, report, model=None, disagree=None):
    """evaluate the clauses of the transformation on one case (one motion OBJECT, used by every step)"""
    for _ in _tm_steps(case, transform_motion, report, model, disagree):
        pass


def _tm_steps(case, transform_motion, report, model=None, disagree=None):
    """generator behind _tm_eval: yields after every step of the history (so that a session can interleave the histories of
    several objects), yields "end" after the last one, and then makes the fresh-array comparisons"""
    bads = {}
    states = {k: (P, ref, unit) for k, P, ref, unit in _tm_states(case, bads)}
    mot = _make_2d(case["motion"], case["mcont"])
    rel = 1e-5 if case["mcont"] == "float32" else 1e-10
    refobj, earlier, deferred, mi = None, [], [], 0
    for k, st in enumerate(case["steps"]):
        if st["op"] == "set":
            mot[st["row"]][st["col"]] = st["value"]              # the caller changes his array in place
            yield
            continue
        if st["op"] == "setref":
            refobj[st["idx"]] = st["value"]
            yield
            continue
        if st["op"] == "bad":
            a, kw = _tm_bad_args(st, mot, bads[k])
            _, err = _call(transform_motion, *a, **kw)            # rejected or answered: not judged ...
            if _hung(err):                                        # ... but it must return
                report(RETURNS, "a result or an exception", err, step=k)
            yield
            continue
        P, ref, unit = states[k]
        nt = P.shape[1]
        if st.get("rcont") != "same":
            refobj = _make_1d(st["newref"], st["rcont"])
        if st["unitarg"] == "default":
            out, err = _call(transform_motion, mot, refobj)
        elif st["unitarg"] == "pos":
            out, err = _call(transform_motion, mot, refobj, unit)
        else:
            out, err = _call(transform_motion, motion=mot, newref=refobj, rotunit=unit) if st["unitarg"] == "kw-all" else \
                _call(transform_motion, mot, refobj, rotunit=unit)
        mlines = None
        if model is not None:
            mlines = model[mi:mi + nt]
            mi += nt
        if err is not None:
            report("transform_motion returns the position of the new point for a valid 6-dof motion (it raised or did not return)",
                   "positions of shape (3, %d)" % nt, err, step=k)
            yield
            continue
        out = np.asarray(out)
        if out.shape != (3, nt):
            report("one position per time step: result of shape (3, nt)", [3, nt], list(out.shape), step=k)
            yield
            continue
        outf = out.astype(float)
        bad = set()
        for i in range(nt):
            pos, S = P[:3, i], float(np.max(np.abs(ref)) + np.max(np.abs(P[:3, i])))
            ang = [float(a) if unit == "rad" else math.radians(float(a)) for a in P[3:, i]]
            e = euler(*ang) @ ref + pos
            if "euler" not in bad and not np.all(np.abs(e - outf[:, i]) <= rel * S):
                bad.add("euler")
                report("result equals an independent z-y-x Euler rotation plus the reference position",
                       e.tolist(), outf[:, i].tolist(), step=k, index=i)
            d = outf[:, i] - pos
            # |d| and |ref| by scaled norms (2^+-200 must not over/underflow in the squares)
            sc = max(float(np.max(np.abs(ref))), TINY)
            nd, nr = float(np.linalg.norm(d / sc) * sc), float(np.linalg.norm(ref / sc) * sc)
            if "rigid" not in bad and not abs(nd - nr) <= rel * S:
                bad.add("rigid")
                report("distance between the two points is constant (= |newref|)", nr, nd, step=k, index=i)
            if "zero" not in bad and not any(ang) and not np.all(np.abs(outf[:, i] - (pos + ref)) <= 1e-12 * S):
                bad.add("zero")
                report("zero rotation is a pure offset", (pos + ref).tolist(), outf[:, i].tolist(), step=k, index=i)
            if mlines is not None and disagree is not None:
                o = mlines[i]
                m = [unfbits(x) for x in o.split()[1:]] if o.startswith("ok") else None
                if m is None or not all(abs(a - b) <= (1e-12 if rel == 1e-10 else rel) * S for a, b in zip(m, outf[:, i])):
                    disagree("mo.transform", dict(case, step=k, index=i), m if m is not None else o, outf[:, i].tolist())
        deferred.append((k, P, ref, unit, outf.copy()))
        # what an earlier call returned is still the transformed motion of that call
        for k0, obj, snap in earlier:
            if not np.array_equal(np.asarray(obj, dtype=float), snap):
                report("result equals an independent z-y-x Euler rotation plus the reference position "
                       "(result of step %d re-read after step %d)" % (k0, k), snap.tolist(), np.asarray(obj, dtype=float).tolist(), step=k)
        earlier.append((k, out, outf.copy()))
        yield
    yield "end"
    # degree and radian input agree (fresh arrays with the converted angles; after the history, so that no call of the harness
    # comes between two calls of the history)
    for k, P, ref, unit, outf in deferred:
        other = P.copy()
        other[3:, :] = np.degrees(P[3:, :]) if unit == "rad" else np.radians(P[3:, :])
        o2, err2 = _call(transform_motion, other, ref.copy(), rotunit="deg" if unit == "rad" else "rad")
        if err2 is not None:
            report("degree and radian input agree", "a result for the converted angles", err2, step=k)
        else:
            S = float(np.max(np.abs(ref))) + np.max(np.abs(P[:3, :]), axis=0)
            if not np.all(np.abs(np.asarray(o2, dtype=float) - outf) <= max(1e-9, rel) * S):
                report("degree and radian input agree", outf.tolist(), np.asarray(o2, dtype=float).tolist(), step=k)


# ---- velocity / acceleration cases ------------------------------------------------------------------------------------
def _pow2(q):
    q = Fraction(q)
    return q > 0 and (q.numerator & (q.numerator - 1)) == 0 and (q.denominator & (q.denominator - 1)) == 0


def _gr_states(case):
    """pristine exact state before every call step: [(step index, fn, X rows of Fractions, t (Fraction | list), polys)]"""
    X = [[Fraction(v) for v in r] for r in case["x"]]
    t = case["t"]
    T = Fraction(t["step"]) if "step" in t else [Fraction(v) for v in t["arr"]]
    polys = [None if p is None else [Fraction(v) for v in p] for p in case["polys"]]
    out = []
    for k, st in enumerate(case["steps"]):
        if st["op"] == "setx":
            X = [list(r) for r in X]
            X[st["row"]][st["col"]] = Fraction(st["value"])
            polys = list(polys)
            polys[st["row"]] = None
        elif st["op"] == "setrow":
            X = [list(r) for r in X]
            X[st["row"]] = [Fraction(v) for v in st["values"]]
            polys = list(polys)
            polys[st["row"]] = None if st["poly"] is None else [Fraction(v) for v in st["poly"]]
        elif st["op"] == "sett":
            T = Fraction(st["t"]["step"]) if "step" in st["t"] else [Fraction(v) for v in st["t"]["arr"]]
            polys = [None] * len(polys)
        elif st["op"] == "bad":
            pass
        else:
            out.append((k, st["op"], X, T, polys))
    return out


def _gr_lines(case):
    lines = []
    for _, fn, X, T, _ in _gr_states(case):
        for r in X:
            if isinstance(T, list):
                lines.append("mo.%s arr %s | %s" % (fn, " ".join(rat(v) for v in T), " ".join(rat(v) for v in r)))
            else:
                lines.append("mo.%s step %s %s" % (fn, rat(T), " ".join(rat(v) for v in r)))
    return lines


BAD_GR = ["t-long", "t-short", "t-2d", "t-row", "t-none", "t-str", "t-strs", "t-complex", "t-zero", "t-list-none",
          "x-3d", "x-0d", "x-none", "x-str", "x-one", "x-short", "arity", "t-long", "t-short"]


def _gr_bad_args(st, xobj, tobj):
    """arguments of the call of step `st` (op "bad") of a velocity / acceleration history; xobj / tobj are the caller's objects"""
    why, h = st["why"], float(Fraction(st["h"]))
    A = np.asarray(xobj)
    n = A.shape[-1]
    grid = lambda m: np.arange(m) * h
    if why.startswith("t-"):
        t = {"t-long": lambda: grid(n + 1), "t-short": lambda: grid(n - 1), "t-2d": lambda: np.vstack([grid(n), grid(n)]),
             "t-row": lambda: grid(n).reshape(1, n), "t-none": lambda: None, "t-str": lambda: "abc", "t-strs": lambda: ["a"] * n,
             "t-complex": lambda: 1j, "t-zero": lambda: 0.0, "t-list-none": lambda: [None] * n}[why]()
        return (xobj, t)
    if why == "arity":
        return (xobj,)
    if why == "x-one":
        return (A[..., :1], h)
    x = {"x-3d": lambda: A[None, None] if A.ndim == 1 else A[None], "x-0d": lambda: 2.5, "x-none": lambda: None,
         "x-str": lambda: ["a"] * n, "x-short": lambda: A[..., :-1]}[why]()
    return (x, tobj)


def _gr_eval(case, fns, report, model=None, disagree=None):
    """evaluate the clauses of velocity / acceleration on one case (one signal OBJECT and one time OBJECT for all steps)"""
    for _ in _gr_steps(case, fns, report, model, disagree):
        pass


def _gr_steps(case, fns, report, model=None, disagree=None):
    """generator behind _gr_eval (see _tm_steps)"""
    states = {k: s for s in _gr_states(case) for k in [s[0]]}
    ndim = case["ndim"]
    X0 = [[Fraction(v) for v in r] for r in case["x"]]
    xobj = _make_2d(X0, case["xcont"]) if ndim == 2 else _make_1d(X0[0], case["xcont"])
    t = case["t"]
    tobj = _make_step(Fraction(t["step"]), case["tcont"]) if "step" in t else _make_1d([Fraction(v) for v in t["arr"]], case["tcont"])
    tcont = case["tcont"]
    earlier, deferred, mi = [], [], 0
    for k, st in enumerate(case["steps"]):
        if st["op"] == "setx":
            if ndim == 2:
                xobj[st["row"]][st["col"]] = float(Fraction(st["value"]))
            else:
                xobj[st["col"]] = float(Fraction(st["value"]))
            yield
            continue
        if st["op"] == "setrow":
            vals = [float(Fraction(v)) for v in st["values"]]
            if ndim == 2:
                xobj[st["row"]][:] = vals
            else:
                xobj[:] = vals
            yield
            continue
        if st["op"] == "sett":
            if "step" in st["t"]:
                tobj = _make_step(Fraction(st["t"]["step"]), tcont)
            else:
                tobj[:] = [float(Fraction(v)) for v in st["t"]["arr"]]   # the same time array object, new grid
            yield
            continue
        if st["op"] == "bad":
            _, err = _call(fns[st["fn"]], *_gr_bad_args(st, xobj, tobj))   # rejected or answered: not judged, but it must return
            if _hung(err):
                report(RETURNS, "a result or an exception", err, step=k)
            yield
            continue
        _, fn, X, T, polys = states[k]
        f = fns[fn]
        order = 1 if fn == "vel" else 2
        nrow, n = len(X), len(X[0])
        scalar = not isinstance(T, list)
        ts = [i * T for i in range(n)] if scalar else T
        hs = [b - a for a, b in zip(ts, ts[1:])]
        hmin = float(min(hs)) if hs else 1.0
        exact = (not case.get("float")) and bool(hs) and all(h == hs[0] for h in hs) and _pow2(hs[0])
        mrows = None
        if model is not None:
            mrows = model[mi:mi + nrow]
            mi += nrow
        got, err = _call(f, xobj, tobj)
        shape = (nrow, n) if ndim == 2 else (n,)
        if n < 2 or hmin <= 0:
            # fewer than two samples: outside the property; the tie only asks that model and implementation both refuse
            if disagree is not None and mrows is not None and (err is None) != (not mrows[0].startswith("err")):
                disagree("mo." + fn, dict(case, step=k), mrows[0], err if err is not None else np.asarray(got).tolist())
            yield
            continue
        if err is not None:
            report("%s of a signal with >= 2 samples exists, for a scalar step or a time array (it raised or did not return)"
                   % ("velocity" if fn == "vel" else "acceleration"), "an array of shape %s" % (list(shape),), err, step=k)
            yield
            continue
        got = np.asarray(got)
        if got.shape != shape:
            report("result keeps the input shape", list(shape), list(got.shape), step=k)
            yield
            continue
        g2 = got.astype(float).reshape(nrow, n)
        for r in range(nrow):
            xmax = float(max(abs(v) for v in X[r]))
            tol = 1e-10 * xmax / hmin ** order + TINY
            # tie with the Lean model (exact on power-of-two grids with dyadic signals)
            if mrows is not None and disagree is not None:
                o = mrows[r]
                m = [float(Fraction(v)) for v in o.split()[1:]] if o.startswith("ok") else None
                ttol = 0.0 if exact else 0.1 * tol
                if m is None or len(m) != n or any(abs(a - b) > ttol + 1e-12 * abs(b) * (not exact) for a, b in zip(m, g2[r])):
                    disagree("mo." + fn, dict(case, step=k, row=r), m if m is not None else o, g2[r].tolist())
            # exact for motion of degree <= 2 (in tau = t - t0)
            if polys[r] is not None:
                a, p, q, t0 = polys[r]
                if fn == "vel":
                    lo, hi = (0, n) if a == 0 else (1, n - 1)
                    exp = [float(2 * a * (u - t0) + p) for u in ts]
                else:
                    lo, hi = (0, n) if a == 0 else (2, n - 2)
                    exp = [float(2 * a)] * n
                for i in range(lo, hi):
                    if not abs(g2[r][i] - exp[i]) <= tol + 1e-12 * abs(exp[i]):
                        report("%s exact for degree<=2 motion away from the ends (velocity from the 2nd, acceleration from the 3rd "
                               "sample; everywhere for constant velocity)" % fn, exp[i], float(g2[r][i]), step=k, row=r, index=i)
                        break
            if ndim == 2:
                deferred.append((k, r, f, X[r], T, scalar, tol, g2[r].copy()))
        for k0, obj, snap in earlier:
            if not np.array_equal(np.asarray(obj, dtype=float), snap):
                report("result keeps the derivative of the signal it was computed from (result of step %d re-read after step %d)"
                       % (k0, k), snap.tolist(), np.asarray(obj, dtype=float).tolist(), step=k)
        earlier.append((k, got, got.astype(float).copy()))
        yield
    yield "end"
    # 2-D input is processed row by row (fresh 1-D calls, after the history)
    for k, r, f, xr, T, scalar, tol, grow in deferred:
        one, e1 = _call(f, np.array([float(v) for v in xr]), float(T) if scalar else np.array([float(v) for v in T]))
        if e1 is not None or not np.all(np.abs(np.asarray(one, dtype=float) - grow) <= tol):
            report("2-D input is processed row by row with the input shape", e1 if e1 is not None else
                   np.asarray(one, dtype=float).tolist(), grow.tolist(), step=k, row=r)


def _hom_eval(case, fns, report):
    """linearity, special case: the signal in other units, f(2^p x) = 2^p f(x) (power-of-two factors scale every float operation exactly)"""
    f = fns[case["fn"]]
    x = np.array([float(Fraction(v)) for v in case["x"]])
    t = case["t"]
    tf = float(Fraction(t["step"])) if "step" in t else np.array([float(Fraction(v)) for v in t["arr"]])
    base, e0 = _call(f, x, tf)
    fac = 2.0 ** case["p"]
    sc, e1 = _call(f, x * fac, tf)
    if e0 is not None or e1 is not None:
        report("linear in the signal: f(2^p x) = 2^p f(x) (it raised)", "two results", e0 or e1)
        return
    base, sc = np.asarray(base, dtype=float), np.asarray(sc, dtype=float)
    if base.shape != sc.shape or not np.all(np.abs(sc - fac * base) <= 1e-12 * fac * (float(np.max(np.abs(base))) + TINY)):
        report("linear in the signal: f(2^p x) = 2^p f(x)", (fac * base).tolist(), sc.tolist())


# ---- sessions: the histories of several objects, interleaved ------------------------------------------------------------------
def _part_lines(c):
    return _tm_lines(c) if c["kind"] == "tm" else (_gr_lines(c) if c["kind"] == "gr" else [])


def _ses_lines(case):
    return [ln for c in case["parts"] for ln in _part_lines(c)]


def _ses_eval(case, fns, transform_motion, report, model=None, disagree=None):
    """a session: several motions / signals (kind "tm" / "gr" cases, each with its own objects) used alternately through the
    same module, `order` = which part makes its next step; the clauses of every part are evaluated as in its own history"""
    gens, at = [], 0
    for j, c in enumerate(case["parts"]):
        nl = len(_part_lines(c))
        m = None if model is None else model[at:at + nl]
        at += nl
        rep = lambda oracle, expected, observed, _j=j, **kw: report(oracle, expected, observed, part=_j, **kw)
        gens.append(_tm_steps(c, transform_motion, rep, m, disagree) if c["kind"] == "tm" else _gr_steps(c, fns, rep, m, disagree))
    ended = [False] * len(gens)
    for j in list(case["order"]) + [None]:
        for i in (range(len(gens)) if j is None else [j]):        # None: whatever is left of every history, part by part
            while not ended[i]:
                if next(gens[i]) == "end":
                    ended[i] = True
                if j is not None:
                    break
    for g in gens:                                                # the comparisons with fresh arrays, after all histories
        for _ in g:
            pass


# ---- generators (every choice from rng) ---------------------------------------------------------------------------------
ANGLES_DEG = [0.0, -0.0, 90.0, -90.0, 180.0, -180.0, 270.0, 360.0, -360.0, 450.0, 720.0, 1e-9, -1e-7, 30.0, 45.0, 89.999999, 179.5, 390.0]


def _gen_tm_spelling(rng):
    nt = rng.choice([1, 1, 2, 3, 6, 6])
    unit = rng.choice(["deg", "rad"])
    ints = rng.random() < 0.5
    if ints:
        pos = [[rng.randint(-20, 20) for _ in range(nt)] for _ in range(3)]
        rot = [[rng.choice([rng.randint(-170, 170), 0, 90, -90, 180, 45]) if unit == "deg" else rng.randint(-3, 3) for _ in range(nt)]
               for _ in range(3)]
        mcont = rng.choice(TM_CONT_INT + TM_CONT_INT + TM_CONT_FLOAT)
    else:
        pos = [[rng.randint(-400, 400) / 8.0 for _ in range(nt)] for _ in range(3)]
        amp = 180 * 8 if unit == "deg" else 25
        rot = [[rng.randint(-amp, amp) / 8.0 for _ in range(nt)] for _ in range(3)]
        mcont = rng.choice(TM_CONT_FLOAT)
    steps = []
    for j in range(rng.choice([1, 2, 2])):
        if j and rng.random() < 0.5:
            st = dict(op="call", rcont="same", unit=unit, unitarg=rng.choice(["pos", "kw"]))
        else:
            if rng.random() < 0.4:
                newref = [rng.randint(-30, 30) for _ in range(3)]
                rcont = rng.choice(REF_CONT_INT + REF_CONT_FLOAT)
            else:
                newref = [rng.randint(-240, 240) / 8.0 + rng.choice([0.0, 0.3]) for _ in range(3)]
                rcont = rng.choice(REF_CONT_FLOAT)
            st = dict(op="call", newref=newref, rcont=rcont, unit=unit,
                      unitarg=rng.choice(["pos", "kw", "kw-all"] + (["default", "default"] if unit == "deg" else [])))
        steps.append(st)
    return dict(kind="tm", motion=pos + rot, mcont=mcont, steps=steps)


def _gen_tm_boundary(rng):
    nt = rng.choice([1, 2, 3, 6, 6, 7, 20])
    unit = rng.choice(["deg", "rad"])
    pp = rng.choice([-200, -60, -1, 0, 0, 10, 30, 60, 200])
    rp = rng.choice([-200, -60, -1, 0, 0, 10, 60, 200, None])
    pos = [[rng.uniform(-1, 1) * 2.0 ** pp for _ in range(nt)] for _ in range(3)]
    if rng.random() < 0.15:
        pos = [[rng.choice([1e9, -3e8, 2.0 ** 40]) + rng.uniform(-1, 1) for _ in range(nt)] for _ in range(3)]
    if rp is None:
        newref = [0.0, 0.0, 0.0]
    else:
        newref = [rng.uniform(-1, 1) * 2.0 ** rp for _ in range(3)]
        if rng.random() < 0.3:                                     # a body point on one axis
            keep = rng.randrange(3)
            newref = [v if j == keep else 0.0 for j, v in enumerate(newref)]
    rot = []
    for _ in range(3):
        row = []
        for _ in range(nt):
            u = rng.random()
            d = rng.choice(ANGLES_DEG) if u < 0.6 else (rng.uniform(-3600, 3600) if u < 0.8 else rng.uniform(-180, 180))
            row.append(d if unit == "deg" else math.radians(d))
        rot.append(row)
    return dict(kind="tm", motion=pos + rot, mcont=rng.choice(["ndarray", "ndarray", "readonly", "list"]),
                steps=[dict(op="call", newref=newref, rcont=rng.choice(["list", "ndarray", "tuple"]), unit=unit, unitarg="kw")])


def _gen_tm_history(rng, nt=None):
    nt = rng.choice([1, 2, 4, 6]) if nt is None else nt
    pos = [[rng.randint(-400, 400) / 8.0 for _ in range(nt)] for _ in range(3)]
    rot = [[rng.choice([rng.randint(-1400, 1400) / 8.0, 0.0, 90.0, 2.5]) for _ in range(nt)] for _ in range(3)]
    mcont = rng.choice(TM_CONT_MUTABLE + ["ndarray", "readonly", "list"])
    steps, have_ref, rmut = [], False, False
    base = rng.choice(["deg", "deg", "rad"])                       # mostly one unit per history: consecutive calls differ in one thing
    for j in range(rng.choice([3, 4, 6])):
        u = rng.random()
        if have_ref and u < 0.25 and mcont != "readonly":
            steps.append(dict(op="set", row=rng.randrange(6), col=rng.randrange(nt), value=rng.randint(-720, 720) / 8.0))
        elif have_ref and rmut and u < 0.35:
            steps.append(dict(op="setref", idx=rng.randrange(3), value=rng.randint(-80, 80) / 8.0))
        unit = base if rng.random() < 0.8 else ("rad" if base == "deg" else "deg")
        unitarg = rng.choice(["kw", "pos"] + (["default"] if unit == "deg" else []))
        if have_ref and rng.random() < 0.5:
            steps.append(dict(op="call", rcont="same", unit=unit, unitarg=unitarg))
        else:
            rcont = rng.choice(["ndarray", "ndarray", "list", "readonly"])
            steps.append(dict(op="call", newref=[rng.randint(-240, 240) / 8.0 for _ in range(3)], rcont=rcont, unit=unit, unitarg=unitarg))
            have_ref, rmut = True, rcont in ("ndarray", "list")
    return dict(kind="tm", motion=pos + rot, mcont=mcont, steps=steps)


def _rs(v):
    return rat(Fraction(v))


def _gen_poly(rng, ts, t0, ints, kind=None):
    """(values, poly) of a signal on the grid ts; poly = [a, p, q, t0] in tau = t - t0, or None for a random signal"""
    kind = rng.random() if kind is None else kind
    den = 1 if ints else 2
    if kind < 0.3:
        a, p, q = Fraction(0), Fraction(rng.randint(-6, 6), den), Fraction(rng.randint(-6, 6))
    elif kind < 0.75:
        a, p, q = Fraction(rng.randint(-4, 4), den), Fraction(rng.randint(-6, 6), den), Fraction(rng.randint(-6, 6))
    else:
        return [Fraction(rng.randint(-32, 32), 1 if ints else rng.choice([1, 2, 4])) for _ in ts], None
    return [a * (u - t0) ** 2 + p * (u - t0) + q for u in ts], [a, p, q, t0]


def _gen_grid(rng, n, ints):
    """(t spec dict builder) -> (scalar?, h or None, ts list, t0)"""
    u = rng.random()
    t0 = Fraction(rng.choice([0, 0, 3, -4, 100, 2 ** 20, -2 ** 25, 2 ** 30]))
    if u < 0.65:
        h = Fraction(rng.choice([1, 2, 4])) if ints else Fraction(1, rng.choice([1, 2, 4, 8, 1024])) * rng.choice([1, 1, 2, 16])
        return h, [t0 + i * h for i in range(n)], t0
    ts = [t0]
    for _ in range(n - 1):
        ts.append(ts[-1] + (Fraction(rng.choice([1, 2, 3, 5])) if ints else Fraction(rng.choice([1, 2, 3, 4, 6]), rng.choice([1, 2, 4]))))
    return None, ts, t0


def _gen_gr_spelling(rng):
    n = rng.choice([2, 3, 5, 6, 9])
    ndim = rng.choice([1, 1, 2])
    nrow = 1 if ndim == 1 else rng.choice([1, 2, 3])
    ints = rng.random() < 0.5
    h, ts, t0 = _gen_grid(rng, n, ints)
    scalar = h is not None and rng.random() < 0.5
    if scalar:
        ts, t0 = [i * h for i in range(n)], Fraction(0)
    rows, polys = [], []
    for _ in range(nrow):
        xs, po = _gen_poly(rng, ts, t0, ints)                      # ints: whole coefficients on a whole-number grid (integer containers)
        rows.append(xs)
        polys.append(po)
    allint = all(v.denominator == 1 for r in rows for v in r)
    if ndim == 1:
        xcont = rng.choice(X_CONT_FLOAT + (X_CONT_INT * 2 if allint else []))
    else:
        xcont = rng.choice(X2_CONT_FLOAT + (X2_CONT_INT * 2 if allint else []))
    if scalar:
        pool = T_SCALAR_FLOAT * 3 + (["np.float32", "0-d"] if _pow2(h) else []) + (["int", "np.int64"] * 2 if h.denominator == 1 else [])
        tcont, t = rng.choice(pool), dict(step=_rs(h))
    else:
        tint = all(v.denominator == 1 for v in ts)
        tcont, t = rng.choice(T_ARR_FLOAT + (T_ARR_INT * 2 if tint else [])), dict(arr=[_rs(v) for v in ts])
    steps = [dict(op=o) for o in rng.choice([["vel", "acc"], ["acc", "vel"], ["vel", "vel", "acc", "acc"], ["acc"], ["vel"]])]
    return dict(kind="gr", ndim=ndim, x=[[_rs(v) for v in r] for r in rows], xcont=xcont, t=t, tcont=tcont,
                polys=[None if p is None else [_rs(v) for v in p] for p in polys], steps=steps)


def _gen_gr_boundary(rng):
    u = rng.random()
    if u < 0.3:
        # the signal in other units: x * 2^p (exact)
        n = rng.choice([2, 3, 4, 5, 7, 12])
        h, ts, t0 = _gen_grid(rng, n, False)
        xs, po = _gen_poly(rng, ts, t0, False)
        f = Fraction(2) ** rng.choice([-200, -60, -20, 20, 60, 200])
        xs = [v * f for v in xs]
        po = None if po is None else [po[0] * f, po[1] * f, po[2] * f, po[3]]
        scalar = h is not None and rng.random() < 0.5
        t = dict(step=_rs(h)) if scalar else dict(arr=[_rs(v) for v in ts])
        if scalar and po is not None:
            po[3] = Fraction(0)
            xs = [po[0] * (i * h) ** 2 + po[1] * (i * h) + po[2] for i in range(n)]
        return dict(kind="gr", ndim=1, x=[[_rs(v) for v in xs]], xcont="ndarray", t=t, tcont="float" if scalar else "ndarray",
                    polys=[None if po is None else [_rs(v) for v in po]], steps=[dict(op="vel"), dict(op="acc")])
    if u < 0.75:
        # decimal steps: the grid is what float arithmetic makes of t0 + i*h; the samples are the rounded polynomial values
        n = rng.choice([2, 3, 5, 8, 11, 25])
        hf = rng.choice([0.1, 0.01, 0.05, 0.2, 0.3, 0.001, 0.025, 0.5, 1.5, 10.0])
        t0f = rng.choice([0.0, 0.0, 100.0, -7.3, 1e4, 0.7])
        scalar = rng.random() < 0.4
        if scalar:
            ts, t0 = [i * Fraction(hf) for i in range(n)], Fraction(0)
            t = dict(step=_rs(Fraction(hf)))
        else:
            w = rng.random()
            arr = (np.arange(n) * hf + t0f) if w < 0.4 else (np.linspace(t0f, t0f + (n - 1) * hf, n) if w < 0.8 else
                                                              np.array([t0f + i * hf for i in range(n)]))
            ts, t0 = [Fraction(float(v)) for v in arr], Fraction(t0f)
            t = dict(arr=[_rs(v) for v in ts])
        nrow = rng.choice([1, 1, 2])
        rows, polys = [], []
        for _ in range(nrow):
            xs, po = _gen_poly(rng, ts, t0, False, kind=rng.choice([0.1, 0.5, 0.5, 0.9]))
            rows.append([Fraction(float(v)) for v in xs])        # the float the caller would hold
            polys.append(po)
        return dict(kind="gr", ndim=1 if nrow == 1 else 2, x=[[_rs(v) for v in r] for r in rows], xcont="ndarray", t=t,
                    tcont=rng.choice(T_SCALAR_FLOAT) if scalar else "ndarray", float=True,
                    polys=[None if p is None else [_rs(v) for v in p] for p in polys],
                    steps=[dict(op=o) for o in rng.choice([["vel", "acc"], ["acc", "vel"]])])
    # very short signals (1 sample: both refuse; 2..4: the end formulas only), constants
    n = rng.choice([1, 2, 2, 3, 4])
    h, ts, t0 = _gen_grid(rng, n, False)
    xs, po = _gen_poly(rng, ts, t0, False, kind=rng.choice([0.1, 0.5, 0.9]))
    if rng.random() < 0.2:
        xs, po = [Fraction(5, 2)] * n, [Fraction(0), Fraction(0), Fraction(5, 2), t0]
    scalar = h is not None and rng.random() < 0.5
    if scalar and po is not None:
        xs, po = [po[0] * (i * h) ** 2 + po[1] * (i * h) + po[2] for i in range(n)], po[:3] + [Fraction(0)]
    ndim = rng.choice([1, 2])
    return dict(kind="gr", ndim=ndim, x=[[_rs(v) for v in xs]], xcont=rng.choice(["ndarray", "list"]),
                t=dict(step=_rs(h)) if scalar else dict(arr=[_rs(v) for v in ts]), tcont="float" if scalar else rng.choice(["ndarray", "list"]),
                polys=[None if po is None else [_rs(v) for v in po]], steps=[dict(op="vel"), dict(op="acc")])


def _gen_gr_history(rng, n=None):
    n = rng.choice([3, 5, 6, 9]) if n is None else n
    ndim = rng.choice([1, 2])
    nrow = 1 if ndim == 1 else rng.choice([2, 3])
    h, ts, t0 = _gen_grid(rng, n, False)
    scalar = h is not None and rng.random() < 0.4
    if scalar:
        ts, t0 = [i * h for i in range(n)], Fraction(0)
    rows, polys = [], []
    for _ in range(nrow):
        xs, po = _gen_poly(rng, ts, t0, False)
        rows.append(xs)
        polys.append(po)
    ro = rng.random() < 0.2
    xcont = "readonly" if ro else rng.choice(["ndarray", "ndarray", "step-view" if ndim == 1 else "T-view", "F-order" if ndim == 2 else "ndarray"])
    tcont = rng.choice(T_SCALAR_FLOAT) if scalar else ("readonly" if ro else rng.choice(["ndarray", "ndarray", "step-view"]))
    t_first = dict(step=_rs(h)) if scalar else dict(arr=[_rs(v) for v in ts])
    steps = []
    for j in range(rng.choice([3, 4, 6, 8])):
        u = rng.random()
        if j and not ro and u < 0.2:
            steps.append(dict(op="setx", row=rng.randrange(nrow), col=rng.randrange(n), value=_rs(Fraction(rng.randint(-64, 64), 4))))
        elif j and not ro and u < 0.35:
            xs, po = _gen_poly(rng, ts, t0, False)
            steps.append(dict(op="setrow", row=rng.randrange(nrow), values=[_rs(v) for v in xs], poly=None if po is None else [_rs(v) for v in po]))
        elif j and (scalar or not ro) and u < 0.5:
            # another grid with the same number of samples (same time OBJECT when it is an array)
            h2, ts2, t02 = _gen_grid(rng, n, False)
            if scalar:
                h2 = h2 if h2 is not None else Fraction(1, 4)
                ts, t0 = [i * h2 for i in range(n)], Fraction(0)
                steps.append(dict(op="sett", t=dict(step=_rs(h2))))
            else:
                ts, t0 = ts2, t02
                steps.append(dict(op="sett", t=dict(arr=[_rs(v) for v in ts2])))
            if not ro:
                for r in range(nrow):
                    xs, po = _gen_poly(rng, ts, t0, False)
                    steps.append(dict(op="setrow", row=r, values=[_rs(v) for v in xs], poly=None if po is None else [_rs(v) for v in po]))
        steps.append(dict(op=rng.choice(["vel", "acc"])))
    return dict(kind="gr", ndim=ndim, x=[[_rs(v) for v in r] for r in rows], xcont=xcont,
                t=t_first, tcont=tcont,
                polys=[None if p is None else [_rs(v) for v in p] for p in polys], steps=steps)


def _gen_hom(rng):
    n = rng.choice([2, 3, 5, 8])
    h, ts, t0 = _gen_grid(rng, n, False)
    xs, _ = _gen_poly(rng, ts, t0, False, kind=rng.choice([0.5, 0.9, 0.9]))
    scalar = h is not None and rng.random() < 0.5
    return dict(kind="hom", fn=rng.choice(["vel", "acc"]), x=[_rs(v) for v in xs], p=rng.choice([-200, -60, -7, 1, 13, 60, 200]),
                t=dict(step=_rs(h)) if scalar else dict(arr=[_rs(v) for v in ts]))


def _with_faults(rng, case, p=0.4):
    """the history `case` (kind "tm" / "gr") with calls that the entry point may reject inserted before some of its valid calls
    (never before the first one; after the in-place changes that precede the call): rejected call, then the corrected call"""
    steps, seen = [], False
    calls = ("call",) if case["kind"] == "tm" else ("vel", "acc")
    for st in case["steps"]:
        if st["op"] in calls:
            if seen and rng.random() < p:
                for _ in range(rng.choice([1, 1, 2])):
                    if case["kind"] == "tm":
                        why = rng.choice(BAD_TM)
                        b = dict(op="bad", why=why, unit=st["unit"], newref=[rng.randint(-240, 240) / 8.0 for _ in range(3)])
                        if why in ("ref2", "ref4", "ref0"):
                            b["rcont"] = rng.choice(["list", "tuple", "ndarray"])
                        if why == "unit":
                            b["value"] = rng.choice(BAD_UNITS)
                    else:
                        b = dict(op="bad", why=rng.choice(BAD_GR), fn=rng.choice([st["op"], "vel", "acc"]),
                                 h=_rs(Fraction(1, rng.choice([1, 2, 4, 8]))))
                    steps.append(b)
            seen = True
        steps.append(st)
    return dict(case, steps=steps)


def _gen_tm_faults(rng):
    return _with_faults(rng, _gen_tm_history(rng), p=0.6)


def _gen_gr_faults(rng):
    return _with_faults(rng, _gen_gr_history(rng) if rng.random() < 0.7 else _gen_gr_spelling(rng), p=0.6)


def _twin(rng, c):
    """the same numbers and the same history on a second object in another spelling (container / number type)"""
    c = copy.deepcopy(c)
    ops = set(st["op"] for st in c["steps"])
    if c["kind"] == "tm":
        c["mcont"] = rng.choice(TM_CONT_MUTABLE + ["list"]) if "set" in ops else rng.choice(TM_CONT_FLOAT)
        for st in c["steps"]:
            if st["op"] == "call" and st.get("rcont") not in (None, "same"):
                st["rcont"] = rng.choice(["ndarray", "list"]) if "setref" in ops else rng.choice(REF_CONT_FLOAT)
        return c
    changes = ops & {"setx", "setrow", "sett"}
    if c["ndim"] == 1:
        c["xcont"] = rng.choice(["ndarray", "list", "step-view"] if changes else X_CONT_FLOAT)
    else:
        c["xcont"] = rng.choice(["ndarray", "list", "list-of-arrays", "F-order", "T-view"] if changes else X2_CONT_FLOAT)
    if "step" in c["t"]:
        h = Fraction(c["t"]["step"])
        c["tcont"] = rng.choice(T_SCALAR_FLOAT + (["np.float32", "0-d"] if _pow2(h) and not changes else []) +
                                (["int", "np.int64"] if h.denominator == 1 and not changes else []))
    else:
        c["tcont"] = rng.choice(["ndarray", "list", "step-view"] if changes else T_ARR_FLOAT)
    return c


def _gen_session(rng):
    mode = rng.choice(["tm", "tm", "gr", "mixed"])
    parts = []
    if mode in ("tm", "mixed"):
        first = _with_faults(rng, _gen_tm_history(rng))
        nt = len(first["motion"][0])
        parts.append(first)
        for _ in range(rng.choice([1, 1, 2]) if mode == "tm" else rng.choice([0, 1])):
            u = rng.random()
            parts.append(_twin(rng, rng.choice(parts)) if u < 0.25 else
                         _with_faults(rng, _gen_tm_history(rng, nt if u < 0.8 else None)))
    if mode in ("gr", "mixed"):
        first = _with_faults(rng, _gen_gr_history(rng))
        n = len(first["x"][0])
        mine = [first]
        for _ in range(rng.choice([1, 1, 2]) if mode == "gr" else rng.choice([0, 1])):
            u = rng.random()
            mine.append(_twin(rng, rng.choice(mine)) if u < 0.25 else _with_faults(rng, _gen_gr_history(rng, n if u < 0.8 else None)))
        parts += mine
    # order: a part makes its in-place changes, rejected calls and the next valid call in one go (mostly), then another part
    pos, order = [0] * len(parts), []
    calls = ("call", "vel", "acc")
    while True:
        live = [j for j, c in enumerate(parts) if pos[j] < len(c["steps"])]
        if not live:
            break
        j = rng.choice(live)
        glue = rng.random() < 0.8
        for _ in range(rng.choice([1, 1, 2])):
            while pos[j] < len(parts[j]["steps"]):
                op = parts[j]["steps"][pos[j]]["op"]
                order.append(j)
                pos[j] += 1
                if op in calls or not glue:
                    break
    return dict(kind="ses", parts=parts, order=order)


def is_f39_shape(f):
    """finding F39 (proposed): a scalar time step that is not a Python float (int, numpy integer, float32, 0-d array) is taken
    for a time array and rejected by the size assertion.  Narrow: gradient case, such a step type, an AssertionError."""
    inp = f.get("input") or {}
    return inp.get("kind") == "gr" and inp.get("tcont") in T_SCALAR_OTHER and "step" in (inp.get("t") or {}) and \
        str(f.get("observed", "")).startswith("err:AssertionError") and "raised" in str(f.get("oracle", ""))


def _run_cases(chk, drv, cases, stream, fns, transform_motion):
    """model replies for all cases in one driver run, then the clauses of every case on the implementation
    (`stream`: one label, or one label per case)"""
    lines, spans = [], []
    for c in cases:
        ls = _ses_lines(c) if c["kind"] == "ses" else _part_lines(c)
        spans.append((len(lines), len(lines) + len(ls)))
        lines += ls
    outs = drv.run(lines)
    labels = stream if isinstance(stream, list) else [stream] * len(cases)
    for c, (a, b), stream in zip(cases, spans, labels):
        chk.count(stream)
        rep = lambda oracle, expected, observed, _c=c, **kw: chk.fail(oracle, _c, expected, observed, **kw)
        try:
            if c["kind"] == "tm":
                _tm_eval(c, transform_motion, rep, outs[a:b], chk.disagree)
                ncall = sum(1 for s in c["steps"] if s["op"] == "call")
                nbad = sum(1 for s in c["steps"] if s["op"] == "bad")
                chk.dist("%s:%s:calls=%s%s" % (stream, c["mcont"], min(ncall, 3), ":rejected=%d" % min(nbad, 3) if nbad else ""))
                if ncall >= 2 or np.count_nonzero(np.array(c["motion"], dtype=float)[3:]) >= 2:
                    chk.nontriv(repr(c))
            elif c["kind"] == "gr":
                _gr_eval(c, fns, rep, outs[a:b], chk.disagree)
                chk.dist("%s:%s:%s" % (stream, c["xcont"], c["tcont"]))
                if len(c["x"][0]) >= 5 or len(c["steps"]) >= 3:
                    chk.nontriv(repr(c))
            elif c["kind"] == "ses":
                _ses_eval(c, fns, transform_motion, rep, outs[a:b], chk.disagree)
                nbad = sum(1 for pc in c["parts"] for st in pc["steps"] if st["op"] == "bad")
                chk.dist("%s:%s:rejected=%s" % (stream, "+".join(sorted(pc["kind"] for pc in c["parts"])), min(nbad, 3)))
                if nbad and len(c["parts"]) >= 2:
                    chk.nontriv(repr(c))
            else:
                _hom_eval(c, fns, rep)
                chk.dist("%s:p=%d" % (stream, c["p"]))
        except Exception as e:                                    # noqa: BLE001  (a harness-side surprise is reported, not raised)
            chk.fail("the clauses of the property can be evaluated on this case", c, "no exception",
                     "err:%s: %s" % (type(e).__name__, str(e)[:200]))


def run(chk):
    from qats.motions import transform_motion, velocity, acceleration
    chk.extra["rule"] = RULE
    chk.assumptions += ["np.gradient(edge_order=1) second-order interior formula as documented by numpy (modelled in Qats.Motion.interior)",
                        "rotation correspondence tolerance 1e-12 relative to the vector length; gradient correspondence exact on "
                        "power-of-two grids, 1e-12 on non-uniform grids (float division)",
                        "cases tm/gr: tolerances relative to the magnitudes, without an absolute floor: 1e-10 (|newref| + |position|) for the "
                        "rotation clauses (1e-5 for float32 motions, 1e-9 for deg/rad), 1e-10 max|x| / hmin^k for the k-th derivative "
                        "(rounding of the samples and of the difference quotients), exact tie on power-of-two grids with dyadic samples",
                        "a 1-sample signal is outside the property (model and implementation must both refuse it)"]
    rng = chk.rng
    drv = core.Driver()
    fns = dict(vel=velocity, acc=acceleration)
    # calls that were not made any more (after three calls that did not return) are not failing inputs of their own
    fail0 = chk.fail
    chk.fail = lambda oracle, inp, expected, observed, **kw: None if NOT_CALLED in str(observed) or NOT_CALLED in str(expected) else \
        fail0(oracle, inp, expected, observed, **kw)
    # ---- corner cases that are always tried first (corpus/C20) ------------------------------------------------------
    _run_cases(chk, drv, [c for c in core.load_corpus("C20") if c.get("kind") in ("tm", "gr", "hom", "ses")], "corpus", fns, transform_motion)
    # ---- transform_motion ---------------------------------------------------------------------------------------
    N = 200 if chk.quick else 3000
    lines, meta = [], []
    for k in range(N):
        nt = rng.choice([1, 2, 5])
        unit = rng.choice(["deg", "rad"])
        amp = 180.0 if unit == "deg" else math.pi
        mode = rng.random()
        mot = np.zeros((6, nt))
        for i in range(nt):
            mot[:3, i] = [rng.uniform(-50, 50) for _ in range(3)]
            if mode < 0.1:
                ang = [0.0, 0.0, 0.0]
            elif mode < 0.3:
                ang = [0.0, 0.0, 0.0]
                ang[rng.randrange(3)] = rng.uniform(-amp, amp)
            else:
                ang = [rng.uniform(-amp, amp) for _ in range(3)]
            mot[3:, i] = ang
        ref = [rng.uniform(-100, 100) for _ in range(3)]
        if rng.random() < 0.05:
            ref = [0.0, 0.0, 0.0]
        out, err = _call(transform_motion, mot, ref, rotunit=unit)
        if err is not None:
            chk.fail("transform_motion returns the position of the new point for a valid 6-dof motion (it raised or did not return)",
                     dict(motion=mot[:, 0].tolist(), newref=ref, rotunit=unit), "positions of shape (3, %d)" % nt, err)
            continue
        for i in range(nt):
            lines.append("mo.transform %s %s" % ("1" if unit == "deg" else "0",
                                                 " ".join(fbits(v) for v in list(mot[:, i]) + ref)))
            meta.append((mot, ref, unit, i, out))
    outs = drv.run(lines)
    scale = lambda ref, mot, i: 1.0 + max(abs(v) for v in ref) + max(abs(v) for v in mot[:3, i])
    for (mot, ref, unit, i, out), o in zip(meta, outs):
        chk.count("mo.transform")
        inp = dict(motion=mot[:, i].tolist(), newref=ref, rotunit=unit)
        m = [unfbits(x) for x in o.split()[1:]]
        sc = scale(ref, mot, i)
        if not all(abs(a - float(b)) <= 1e-12 * sc for a, b in zip(m, out[:, i])):
            chk.disagree("mo.transform", inp, m, out[:, i].tolist())
        ang = mot[3:, i] if unit == "rad" else np.radians(mot[3:, i])
        if np.count_nonzero(ang) >= 2:
            chk.nontriv(repr(inp))
        chk.dist("angles_nonzero=%d:%s" % (np.count_nonzero(ang), unit))
        # oracles
        d = out[:, i] - mot[:3, i]
        if abs(np.linalg.norm(d) - np.linalg.norm(ref)) > 1e-10 * sc:
            chk.fail("distance between the two points is constant (= |newref|)", inp, float(np.linalg.norm(ref)), float(np.linalg.norm(d)))
        e = euler(*ang) @ np.array(ref) + mot[:3, i]
        if not np.allclose(e, out[:, i], rtol=0, atol=1e-10 * sc):
            chk.fail("result equals an independent z-y-x Euler rotation plus the reference position", inp, e.tolist(), out[:, i].tolist())
        if np.count_nonzero(ang) == 0 and not np.allclose(out[:, i], mot[:3, i] + np.array(ref), rtol=0, atol=1e-12 * sc):
            chk.fail("zero rotation is a pure offset", inp, (mot[:3, i] + np.array(ref)).tolist(), out[:, i].tolist())
        other = mot.copy()
        other[3:, :] = np.degrees(mot[3:, :]) if unit == "rad" else np.radians(mot[3:, :])
        o2, err = _call(transform_motion, other, ref, rotunit="deg" if unit == "rad" else "rad")
        if err is not None:
            chk.fail("degree and radian input agree", inp, out[:, i].tolist(), err)
        elif not np.allclose(o2[:, i], out[:, i], rtol=0, atol=1e-9 * sc):
            chk.fail("degree and radian input agree", inp, out[:, i].tolist(), o2[:, i].tolist())
        if i == 0 and len(chk.samples) < 2:
            chk.sample(dict(inp, result=out[:, i].tolist()))
    # integer-valued motions (whole metres, whole degrees) are transformed like float ones
    for _ in range(30 if chk.quick else 300):
        mot_i = np.array([[rng.randint(-20, 20)] for _ in range(3)] + [[rng.randint(-170, 170)] for _ in range(3)])
        ref = [float(rng.randint(-30, 30)) for _ in range(3)]
        chk.count("mo.int-motion")
        pair, err = _call(lambda: (np.asarray(transform_motion(mot_i, ref), dtype=float), transform_motion(mot_i.astype(float), ref)))
        if err is not None:
            chk.fail("integer and float input of the same motion agree", dict(motion=mot_i[:, 0].tolist(), newref=ref, rotunit="deg"),
                     "two results", err)
        elif not np.allclose(pair[0], pair[1], rtol=0, atol=1e-9):
            chk.fail("integer and float input of the same motion agree", dict(motion=mot_i[:, 0].tolist(), newref=ref, rotunit="deg"),
                     pair[1][:, 0].tolist(), pair[0][:, 0].tolist())
    # two body points keep their distance
    for _ in range(50 if chk.quick else 500):
        mot = np.array([[rng.uniform(-5, 5)] for _ in range(3)] + [[rng.uniform(-180, 180)] for _ in range(3)])
        a, b = [rng.uniform(-10, 10) for _ in range(3)], [rng.uniform(-10, 10) for _ in range(3)]
        chk.count("mo.rigid-pairs")
        da, err = _call(lambda: transform_motion(mot, a)[:, 0] - transform_motion(mot, b)[:, 0])
        if err is not None:
            chk.fail("distance between two body points is preserved", dict(motion=mot[:, 0].tolist(), a=a, b=b),
                     float(np.linalg.norm(np.array(a) - np.array(b))), err)
        elif abs(np.linalg.norm(da) - np.linalg.norm(np.array(a) - np.array(b))) > 1e-10 * 30:
            chk.fail("distance between two body points is preserved", dict(motion=mot[:, 0].tolist(), a=a, b=b),
                     float(np.linalg.norm(np.array(a) - np.array(b))), float(np.linalg.norm(da)))
    # ---- velocity / acceleration ------------------------------------------------------------------------------------
    G = 250 if chk.quick else 4000
    lines, meta = [], []
    for k in range(G):
        n = rng.choice([2, 3, 4, 5, 6, 7, 9, 12, 20])
        uniform = rng.random() < 0.6
        if uniform:
            h = Fraction(1, rng.choice([1, 2, 4, 8])) * rng.choice([1, 1, 2])
            t0 = Fraction(rng.randint(-4, 4))
            ts = [t0 + i * h for i in range(n)]
        else:
            ts = [Fraction(rng.randint(-4, 4))]
            for i in range(n - 1):
                ts.append(ts[-1] + Fraction(rng.choice([1, 2, 3, 4, 6]), rng.choice([1, 2, 4])))
        kind = rng.random()
        if kind < 0.25:
            p, q = Fraction(rng.randint(-6, 6), 2), Fraction(rng.randint(-6, 6))
            xs = [p * t + q for t in ts]
            poly = (0, p, q)
        elif kind < 0.6:
            a, p, q = Fraction(rng.randint(-4, 4), 2), Fraction(rng.randint(-6, 6), 2), Fraction(rng.randint(-6, 6))
            xs = [a * t * t + p * t + q for t in ts]
            poly = (a, p, q)
        else:
            xs = [Fraction(rng.randint(-32, 32), rng.choice([1, 2, 4])) for _ in ts]
            poly = None
        scalar = uniform and rng.random() < 0.5
        for fn in ("vel", "acc"):
            if scalar:
                lines.append("mo.%s step %s %s" % (fn, rat(h), " ".join(rat(v) for v in xs)))
            else:
                lines.append("mo.%s arr %s | %s" % (fn, " ".join(rat(v) for v in ts), " ".join(rat(v) for v in xs)))
            meta.append((fn, ts, xs, poly, scalar, h if scalar else None, uniform))
    outs = drv.run(lines)
    for (fn, ts, xs, poly, scalar, h, uniform), o in zip(meta, outs):
        chk.count("mo." + fn)
        tf = float(h) if scalar else np.array([float(v) for v in ts])
        xf = np.array([float(v) for v in xs])
        inp = dict(fn=fn, t=[str(v) for v in ts] if not scalar else str(h), x=[str(v) for v in xs])
        f = velocity if fn == "vel" else acceleration
        got, err = _call(f, xf, tf)
        im = [float(v) for v in got] if err is None else err.split(": ")[0]
        if len(xs) >= 5:
            chk.nontriv(repr(inp))
        chk.dist("%s:%s:%s" % (fn, "scalar" if scalar else ("uniform-arr" if uniform else "nonuniform"),
                               "rand" if poly is None else ("affine" if poly[0] == 0 else "quadratic")))
        if o.startswith("err") or isinstance(im, str):
            if o.startswith("err") != isinstance(im, str):
                chk.disagree("mo." + fn, inp, o, im)
            continue
        m = [Fraction(v) for v in o.split()[1:]]
        tol = 0.0 if uniform else 1e-11
        if len(m) != len(im) or any(abs(float(a) - b) > tol * (1 + abs(b)) for a, b in zip(m, im)):
            chk.disagree("mo." + fn, inp, [str(v) for v in m], im)
        # oracles
        if got.shape != xf.shape:
            chk.fail("result keeps the input shape", inp, xf.shape, got.shape)
        n = len(xs)
        if poly is not None:
            a, p, q = poly
            if fn == "vel":
                lo, hi = (0, n) if a == 0 else (1, n - 1)
                exp = [float(2 * a * t + p) for t in ts]
            else:
                lo, hi = (0, n) if (a == 0 and False) else (2, n - 2)
                exp = [float(2 * a)] * n
                if a == 0 and p == 0:
                    lo, hi = 0, n
            for i in range(lo, hi):
                if abs(im[i] - exp[i]) > 1e-9 * (1 + abs(exp[i])):
                    chk.fail("%s exact for degree<=2 motion away from the ends (velocity from the 2nd, acceleration from the 3rd sample)"
                             % fn, dict(inp, index=i), exp[i], im[i])
                    break
        # linearity and 2-D
        y = np.array([float(Fraction((i * 7) % 5 - 2, 2)) for i in range(n)])
        trip, err = _call(lambda: (f(2.0 * xf - 3.0 * y, tf), f(y, tf), f(np.vstack([xf, y]), tf)))
        if err is not None:
            chk.fail("linear in the signal / 2-D input is processed row by row (it raised)", inp, "results", err)
            continue
        lin, fy, two = trip
        hmin = float(h) if scalar else float(np.min(np.diff(tf)))
        lin_tol = 1e-11 * (1.0 + float(np.max(np.abs(xf)))) / hmin ** (1 if fn == "vel" else 2)   # cancellation in the difference quotients
        if not np.allclose(lin, 2.0 * got - 3.0 * fy, rtol=1e-9, atol=lin_tol):
            chk.fail("linear in the signal", inp, (2.0 * got - 3.0 * fy).tolist(), lin.tolist())
        if two.shape != (2, n) or not np.array_equal(two[0], got) or not np.array_equal(two[1], fy):
            chk.fail("2-D input is processed row by row with the input shape", inp, "rows equal 1-D results", str(two.shape))
    chk.sample(dict(fn="vel", t="1", x=[0, 1, 4, 9, 16], model=[1, 2, 4, 6, 7]))
    # ---- spellings, boundary values, histories --------------------------------------------------------------------------
    q = 1 if chk.quick else 10
    for stream, gen, cnt in (("tm.spelling", _gen_tm_spelling, 150), ("tm.boundary", _gen_tm_boundary, 120), ("tm.history", _gen_tm_history, 60),
                             ("gr.spelling", _gen_gr_spelling, 220), ("gr.boundary", _gen_gr_boundary, 160), ("gr.history", _gen_gr_history, 80),
                             ("gr.units", _gen_hom, 60)):
        _run_cases(chk, drv, [gen(rng) for _ in range(cnt * q)], stream, fns, transform_motion)
    # ---- fault points and shared state: rejected calls inside the histories; sessions of several objects (one driver run) ----
    cases, labels = [], []
    for stream, gen, cnt in (("tm.faults", _gen_tm_faults, 80), ("gr.faults", _gen_gr_faults, 80), ("session", _gen_session, 100)):
        cases += [gen(rng) for _ in range(cnt * q)]
        labels += [stream] * (cnt * q)
    _run_cases(chk, drv, cases, labels, fns, transform_motion)
    # ---- audit round 8: LONG motions / signals (c20_long.py) ----------------------------------------------------------------------
    from . import c20_long
    c20_long.run_long(chk, drv, fns, transform_motion, _call, core.load_corpus("C20"))


def replay(rp):
    from qats.motions import transform_motion, velocity, acceleration
    inp = rp["input"]
    bad = 0
    if inp.get("kind") in ("long-tm", "long-gr"):
        from . import c20_long
        fails = []

        def rep(oracle, expected, observed, **kw):
            fails.append(oracle)
            print("FAILS:", oracle, kw, "\n  expected", expected, "\n  observed", observed)

        def dis(stream, i, m, im):
            print("model and implementation differ (%s): model %s impl %s" % (stream, m, im))
        case = {k: v for k, v in inp.items() if k not in ("step", "index", "row", "fn")}
        drv = core.Driver()
        ls = c20_long.lines_of(case)
        c20_long.eval_long(case, dict(vel=velocity, acc=acceleration), transform_motion, _call, rep, drv.run(ls) if ls else None, dis)
        bad = len(fails)
    elif inp.get("kind") in ("tm", "gr", "hom", "ses"):
        fails = []

        def rep(oracle, expected, observed, **kw):
            fails.append(oracle)
            print("FAILS:", oracle, kw, "\n  expected", expected, "\n  observed", observed)

        def dis(stream, i, m, im):
            print("model and implementation differ (%s): model %s impl %s" % (stream, m, im))
        case = {k: v for k, v in inp.items() if k not in ("step", "index", "row")}
        drv = core.Driver()
        if case["kind"] == "ses":
            _ses_eval(case, dict(vel=velocity, acc=acceleration), transform_motion, rep, drv.run(_ses_lines(case)), dis)
        elif case["kind"] == "tm":
            _tm_eval(case, transform_motion, rep, drv.run(_tm_lines(case)), dis)
        elif case["kind"] == "gr":
            _gr_eval(case, dict(vel=velocity, acc=acceleration), rep, drv.run(_gr_lines(case)), dis)
        else:
            _hom_eval(case, dict(vel=velocity, acc=acceleration), rep)
        bad = len(fails)
    elif "motion" in inp and "newref" in inp:
        mot = np.array(inp["motion"]).reshape(6, 1)
        out = transform_motion(mot, inp["newref"], rotunit=inp["rotunit"])[:, 0]
        ang = mot[3:, 0] if inp["rotunit"] == "rad" else np.radians(mot[3:, 0])
        e = euler(*ang) @ np.array(inp["newref"]) + mot[:3, 0]
        print("impl", out.tolist(), "euler", e.tolist())
        if not np.allclose(e, out, atol=1e-8):
            bad += 1
    elif "a" in inp and "b" in inp and "motion" in inp:
        mot = np.array(inp["motion"], dtype=float).reshape(6, 1)
        da = transform_motion(mot, inp["a"])[:, 0] - transform_motion(mot, inp["b"])[:, 0]
        want = float(np.linalg.norm(np.array(inp["a"]) - np.array(inp["b"])))
        print("distance of the transformed points", float(np.linalg.norm(da)), "body distance", want)
        if abs(np.linalg.norm(da) - want) > 1e-10 * 30:
            bad += 1
    elif "fn" in inp:
        f = velocity if inp["fn"] == "vel" else acceleration
        t = float(Fraction(inp["t"])) if isinstance(inp["t"], str) else np.array([float(Fraction(v)) for v in inp["t"]])
        x = np.array([float(Fraction(v)) for v in inp["x"]])
        print(f(x, t).tolist())
        drv = core.Driver()
        ln = ("mo.%s step %s %s" % (inp["fn"], inp["t"], " ".join(inp["x"]))) if isinstance(inp["t"], str) else \
            ("mo.%s arr %s | %s" % (inp["fn"], " ".join(inp["t"]), " ".join(inp["x"])))
        o = drv.run([ln])[0]
        print("model", o)
        m = [float(Fraction(v)) for v in o.split()[1:]]
        if not np.allclose(m, f(x, t), rtol=1e-11, atol=1e-11):
            bad += 1
    print("replay: %d failing clause(s)" % bad)
    return 1 if bad else 0
