"""
C18 — the absolute time of every sample survives date-time bookkeeping.

Tie: strict Rat correspondence of the Lean state machine (`Model/Dtg.lean`: ref, t, cache) with `TimeSeries` on HISTORIES:
construction (floats +/- reference, datetime stamps, numpy.datetime64 stamps of resolution us/ms/s, reference given as datetime
or datetime64) followed by sequences of `set_dtg_ref(x | None | non-datetime)`, copying (EVERY way the library offers: `copy()`, `copy.copy`,
`copy(newname=..)` keyword / positional, `copy.deepcopy`, through `TsDB.add` + `TsDB.copy` + `get`), `dtg_time` reads.  After every step
`dtg_ref`, `t`, `dtg_start`, `dtg_end`, the value returned by a `dtg_time` read and the rejection are compared (the cache is not
compared as state: an implementation may cache more or less, what it caches must equal reference + time -- an oracle).  Times / instants are multiples of
1/64 s (= 15625 us, dyadic): `timedelta(seconds=.)`, `total_seconds()` and the float additions are exact there.  All histories up
to length 3 (quick) / 4 (thorough) over a 7-letter alphabet are enumerated for every constructor, plus seeded random ones.
SHARED TIME ARRAY (`shared.run`, `shared.real`): 2-5 series constructed from ONE time array object (plain float64, a row of a 2-D
block as the TsDB readers pass it, a strided view, float32, int64, the same array as time and data, the live `.t` of the previous
series, one array of datetime / datetime64 stamps, or read back from one .ts/.dat/.pkl file through TsDB) with equal / different / no
references, followed by an INTERLEAVED history (operations addressed to any of the series, + "spawn" = construct a further series from
the live `.t` and reference of one of them).  Every series is compared with the model run on its OWN operations only (objects are
independent: an operation on one series is no operation on the others; also its state at the end of the whole history), and after
every step every other series must have kept reference and relative times.
Also `TsDB._check_time_arrays`' reference rule (`dtg.refs`).
Search: the property's clauses on the implementation alone, on the exact histories (tolerance 0) and on realistic float
histories (decimal time steps, arbitrary microsecond instants; tolerance 2 us = datetime resolution + float rounding).
"""
import copy as _copy
import itertools
from collections import OrderedDict
from datetime import date, datetime, timedelta, timezone
from fractions import Fraction

import numpy as np

from .. import core
from . import c18_proc
from ..core import rat

RULE = ("constructor kind (floats without/with reference, reference as datetime or datetime64; datetime stamps; datetime64[us|ms|s] "
        "stamps; each with/without explicit reference) x ALL histories of length <= 3 (quick) / 4 (thorough) over {set(x1), set(x2), "
        "set(None), set(non-datetime), copy, copy(newname=..), read dtg_time} + seeded random histories (length <= 10, 1-20 samples, instants multiple of "
        "1/64 s; copy steps drawn from copy() / copy.copy / copy(newname=) / copy(name) / deepcopy / TsDB.copy) + realistic float histories (decimal steps, arbitrary us instants); SHARED: 2-5 series built from one time array object "
        "(float64 / row of a 2-D block / strided view / float32 / int64 / same array as data / live .t of the previous series / datetime or "
        "datetime64 stamps / read back from one .ts|.dat|.pkl file) x reference patterns (same, different, none) x ALL interleaved histories "
        "of length <= 2 (thorough: 3 for the main sources) over {set(x), set(None), read, copy, spawn a series from .t} x {series 0, 1} + seeded random "
        "interleaved histories; PROC (c18_proc): uniformly / irregularly sampled series (floats + reference, datetime, datetime64 stamps) x "
        "histories over {read, re-reference, copy, modify with every kind of option and combination (twin, resample step / array, "
        "filterargs, window_len, taperfrac; differently spelled arguments), calls of every kind the entry points reject (also part-way), "
        "after which the same object is used again}, and pairs of series processed with one caller's array; non-trivial = the history contains a successful "
        "re-referencing of a series that has a reference; distinct by (constructor, data, history); LONG (c18_long): series of 999, 1000, "
        "1001, 1023, 1024, 1025, 4095, 4096, 4097, 9999, 10000, 10001, 65535 ... 131073 samples on a 1/8 s grid with gaps in the first / "
        "last elements, at multiples of 1000 / 1024 / 4096 / 10000 / 65536 and spanning them, built from floats + reference (datetime / "
        "datetime64), datetime stamps, datetime64[us] stamps x histories of 4-7 steps over {set(x), set(None), read, copy, deepcopy}, "
        "every sample compared in whole microseconds")

EPOCH = datetime(2000, 3, 26, 0, 30)     # 90 minutes before a daylight-saving change of the zones ./check runs in: naive date-time
                                         # arithmetic does not know about it (and must not), conversions through POSIX timestamps do
NS_FINDING = "F23"          # id under which the nanosecond-resolution defect is to be registered in known_findings.json
BAD_KINDS = ("np64", "str", "float", "date", "int")
COPY_HOWS = ("name", "pos", "deep", "db")      # besides plain "copy" (= copy() / copy.copy alternating with the step index)


def do_copy(ts, op, k):
    """every way the library offers to copy a series; returns (copy, expected name)"""
    how = op.split(":")[1] if ":" in op else ""
    if how == "":
        return (ts.copy() if k % 2 == 0 else _copy.copy(ts)), ts.name
    if how == "name":
        nm = "c%d" % k
        return ts.copy(newname=nm), nm
    if how == "pos":
        nm = "p%d" % k
        return ts.copy(nm), nm
    if how == "deep":
        return _copy.deepcopy(ts), ts.name
    if how == "db":
        from qats.tsdb import TsDB
        db = TsDB()
        db.add(ts)
        new = db.copy().get(name=ts.name)
        if new is ts:
            raise AssertionError("TsDB.copy() returned the original object")
        return new, ts.name
    raise ValueError("unknown copy op " + op)


# ------------------------------------------------------------------------------------------------------------------------------
# instants <-> exact rationals (seconds since EPOCH)
# ------------------------------------------------------------------------------------------------------------------------------
def inst(q):
    us = Fraction(q) * 1000000
    assert us.denominator == 1
    return EPOCH + timedelta(microseconds=int(us))


def uninst(d):
    if isinstance(d, np.datetime64):
        d = d.astype("datetime64[us]").tolist()
    if not isinstance(d, datetime):
        return "?" + repr(d)
    if d.tzinfo is not None:
        d = d.astimezone(timezone.utc).replace(tzinfo=None)
    td = d - EPOCH
    return Fraction((td.days * 86400 + td.seconds) * 1000000 + td.microseconds, 1000000)


def bad_value(kind):
    return {"np64": np.datetime64("2020-01-01T00:00:00"), "str": "2020-01-01 00:00:00", "float": 0.0,
            "date": date(2020, 1, 1), "int": 0}[kind]


def fresh_abs(ref, t):
    """the absolute instant of every sample, computed here (not by the library): reference + relative seconds"""
    if ref is None:
        return None
    try:
        return [ref + timedelta(seconds=float(v)) for v in t]
    except Exception:
        return ["?(reference %r is not an instant)" % (ref,)] * len(t)


def dist_us(a, b):
    """largest distance in seconds between two lists of instants (inf when they cannot be compared)"""
    try:
        if a is None or b is None:
            return 0.0 if (a is None and b is None) else float("inf")
        if len(a) != len(b):
            return float("inf")
        return max([abs((x - y).total_seconds()) for x, y in zip(a, b)] or [0.0])
    except Exception:
        return float("inf")


def show(v):
    if v is None:
        return None
    if isinstance(v, (list, tuple, np.ndarray)):
        return [show(x) for x in v]
    if isinstance(v, Fraction):
        return str(v)
    if isinstance(v, (datetime, np.datetime64)):
        return str(v)
    if isinstance(v, (float, np.floating)):
        return float(v)
    return repr(v)


# ------------------------------------------------------------------------------------------------------------------------------
# cases
# ------------------------------------------------------------------------------------------------------------------------------
# a case: dict(ctor="F"|"S", vals=[str rational…] (times or stamp instants), ref=str|None, refkind="dt"|"dt64",
#              stampkind="dt"|"us"|"ms"|"s"|"ts", ops=[…], exact=bool)     ops: "set:<rat>", "set:-", "set:bad:<kind>", "copy", "copy:<how>" (how in COPY_HOWS), "read"
def build(case):
    from qats import TimeSeries
    vals = [Fraction(v) for v in case["vals"]]
    ref = None if case.get("ref") is None else inst(Fraction(case["ref"]))
    if ref is not None and case.get("refkind") == "dt64":
        ref = np.datetime64(ref)
    x = np.arange(len(vals), dtype=float)
    if case["ctor"] == "F":
        t = np.array([float(v) for v in vals])
    else:
        k = case.get("stampkind", "dt")
        if k == "dt":
            t = np.empty(len(vals), dtype=object)
            t[:] = [inst(v) for v in vals]
        elif k == "ts":
            import pandas as pd
            t = np.empty(len(vals), dtype=object)
            t[:] = [pd.Timestamp(inst(v)) for v in vals]
        else:
            t = np.array([np.datetime64(inst(v)) for v in vals], dtype="datetime64[us]").astype("datetime64[%s]" % k)
    return TimeSeries("s", t, x, dtg_ref=ref)


def model_line(case):
    ops = []
    for o in case["ops"]:
        ops.append("set:bad" if o.startswith("set:bad") else "copy" if o.startswith("copy") else o)
    return "dtg.run %s %s %s | %s" % (case["ctor"], "-" if case.get("ref") is None else rat(Fraction(case["ref"])),
                                      " ".join(rat(Fraction(v)) for v in case["vals"]), " ".join(ops))


def parse_state(s):
    ref, t, cache, st, en = s.split(";")
    opt = lambda v: None if v == "-" else Fraction(v)
    lst = lambda v: [Fraction(a) for a in v.split(",")] if v else []
    return (opt(ref), lst(t), None if cache == "-" else lst(cache), opt(st), opt(en))


def parse_model(o, ops):
    """model trace in observable form: (result, (ref, t, value returned by dtg_time at a read step else None, start, end)).
    The cache itself is NOT compared as state: the implementation may cache or not, as long as what it caches equals
    reference + relative time (oracle `cache_consistent`; the model satisfies this by theorem `cache_consistent`)."""
    toks = o.split()
    if toks[:2] == ["err", "empty"]:
        return "err:empty"
    r, t, c, st, en = parse_state(toks[1])
    out = [("ok", (r, t, None, st, en))]
    for tk, op in zip(toks[2:], ops):
        res, st_ = tk.split("=", 1)
        r, t, c, st, en = parse_state(st_)
        out.append(("err" if res.startswith("err") else "ok", (r, t, c if op == "read" else None, st, en)))
    return out


def snap(ts, ret=None):
    """observable state as exact rationals (same shape as the model's); `ret` = value returned by dtg_time at a read step"""
    ref = ts.dtg_ref
    cache = ret
    try:
        st, en = ts.dtg_start, ts.dtg_end
    except Exception as e:
        st = en = "err:" + type(e).__name__
    return (None if ref is None else uninst(ref), [Fraction(float(v)) for v in ts.t],
            None if cache is None else [uninst(d) for d in cache],
            None if st is None else uninst(st), None if en is None else uninst(en))


def raw(ts):
    cache = getattr(ts, "_dtg_time", None)
    return (ts.dtg_ref, np.array(ts.t, dtype=float, copy=True), None if cache is None else list(cache))


def same_raw(a, b):
    try:
        return (a[0] == b[0]) and (a[0] is None) == (b[0] is None) and np.array_equal(a[1], b[1]) and \
            ((a[2] is None and b[2] is None) or (a[2] is not None and b[2] is not None and list(a[2]) == list(b[2])))
    except Exception:
        return False


# ------------------------------------------------------------------------------------------------------------------------------
# one history on the implementation: trace for the correspondence + the property's clauses
# ------------------------------------------------------------------------------------------------------------------------------
def step(ts, op, k, fail, tol):
    """One operation of a history on the series `ts` + the property's clauses about this step.
    Returns dict(ts = the series the history continues with (the copy after a copy step), res "ok"/"err", ret = value returned by a
    dtg_time read, nontrivial, orig = (object left behind by a copy step, its raw state) or None, a_post = absolute instants after)."""
    nontrivial, orig = False, None
    pre = raw(ts)
    a_pre = fresh_abs(pre[0], pre[1])
    st_pre = None if a_pre is None else a_pre[0]
    where = "step %d (%s)" % (k + 1, op)
    err, ret, new, want_name = None, None, ts, None
    is_copy = op.startswith("copy")
    try:
        if is_copy:
            new, want_name = do_copy(ts, op, k)
        elif op == "read":
            ret = ts.dtg_time
        elif op == "set:-":
            ts.set_dtg_ref()
        elif op.startswith("set:bad:"):
            ts.set_dtg_ref(bad_value(op.split(":")[2]))
        elif op.startswith("set:aware:"):
            ts.set_dtg_ref(inst(Fraction(op.split(":")[2])).replace(tzinfo=timezone.utc))
        else:
            ts.set_dtg_ref(inst(Fraction(op.split(":", 1)[1])))
    except Exception as e:
        err = e
    invalid = op.startswith("set:bad:") or (op == "set:-" and pre[0] is None)
    if err is not None:
        if is_copy:
            fail("copying a series succeeds (the copy then has the same absolute instants)", "a copy",
                 "%s: %s" % (type(err).__name__, str(err)[:200]), "copy_raises@" + where)
        if not same_raw(pre, raw(ts)):
            fail("a rejected call (%s) leaves reference, relative times and cached stamps untouched" % type(err).__name__,
                 show(pre), show(raw(ts)), "rejected_unchanged@" + where)
        return dict(ts=ts, res="err", ret=None, nontrivial=False, orig=None, a_post=None)
    if invalid:
        fail("an invalid reference (not a datetime / None without a reference) is rejected", "ValueError", "accepted",
             "invalid_accepted@" + where)
    if is_copy:
        if not same_raw((pre[0], pre[1], None), (new.dtg_ref, np.array(new.t), None)):
            fail("a copy has the same reference and relative times", show(pre[:2]), show(raw(new)[:2]), "copy_equal@" + where)
        if new.name != want_name or not np.array_equal(np.asarray(new.x), np.asarray(ts.x)):
            fail("a copy carries the requested (else the original) name and the same values", [want_name, show(ts.x)],
                 [new.name, show(new.x)], "copy_name_values@" + where)
        orig = (ts, raw(ts))
        ts = new
    post = raw(ts)
    a_post = fresh_abs(post[0], post[1])
    if a_pre is not None:
        d = dist_us(a_pre, a_post)
        if d > tol:
            fail("reference + relative time of every sample is the same before and after %s" % (
                "copying" if is_copy else "reading dtg_time" if op == "read" else "re-referencing to the series start"
                if op == "set:-" else "re-referencing to an instant"), show(a_pre), show(a_post), "abs_invariant@" + where)
        elif op.startswith("set:") and not np.array_equal(pre[1], post[1]):
            nontrivial = True
    if op.startswith("set:") and not invalid:
        if pre[0] is None:
            if not np.array_equal(pre[1], post[1]):
                fail("setting a reference on a series that has none changes no relative time", show(pre[1]), show(post[1]),
                     "set_on_none_keeps_t@" + where)
        if op == "set:-":
            if float(post[1][0]) != 0.0 or post[0] != st_pre:
                fail("re-referencing to the series start: first relative time 0, reference = old start instant",
                     [0.0, show(st_pre)], [float(post[1][0]), show(post[0])], "set_none_post@" + where)
        else:
            x = inst(Fraction(op.split(":")[-1]))
            if post[0] is None or post[0] != x and not op.startswith("set:aware:"):
                fail("after set_dtg_ref(x) the reference is x", show(x), show(post[0]), "set_ref_post@" + where)
    if op == "read":
        if (ret is None) != (post[0] is None) or (ret is not None and dist_us(list(ret), a_post) > tol):
            fail("dtg_time returns reference + relative time of every sample (None without reference)", show(a_post), show(ret),
                 "read@" + where)
    if post[2] is not None and dist_us(post[2], a_post) > tol:
        fail("cached stamps, when present, equal reference + relative time (no stale cache)", show(a_post), show(post[2]),
             "cache_consistent@" + where)
    try:
        se = (ts.dtg_start, ts.dtg_end)
    except Exception as e:
        se = ("err:" + type(e).__name__,) * 2
    want = (None, None) if a_post is None else (a_post[0], a_post[-1])
    if dist_us([se[0]] if se[0] is not None else None, [want[0]] if want[0] is not None else None) > 0 or \
            dist_us([se[1]] if se[1] is not None else None, [want[1]] if want[1] is not None else None) > 0:
        fail("dtg_start / dtg_end are the first / last absolute instant", show(want), show(se), "start_end@" + where)
    return dict(ts=ts, res="ok", ret=ret, nontrivial=nontrivial, orig=orig, a_post=a_post)


def play(case, fail, tol):
    """Runs the history; calls fail(oracle_text, expected, observed, clause) for every violated clause.
    Returns (trace, nontrivial) with trace = "err:<Exc>" (constructor rejected) or [(res, snapshot)…]."""
    try:
        ts = build(case)
    except Exception as e:
        return "err:" + ("empty" if len(case["vals"]) == 0 else type(e).__name__), False
    trace = [("ok", snap(ts))]
    nontrivial = False
    # construction clauses
    a0 = fresh_abs(ts.dtg_ref, ts.t)
    if case["ctor"] == "S":
        stamps = [inst(Fraction(v)) for v in case["vals"]]
        if dist_us(a0, stamps) > tol:
            fail("built from date-time stamps: reference + relative time of every sample equals its stamp", show(stamps), show(a0),
                 "from_stamps")
    elif case.get("ref") is not None:
        want = fresh_abs(inst(Fraction(case["ref"])), [float(Fraction(v)) for v in case["vals"]])
        if dist_us(a0, want) > tol:
            fail("built from numbers and a reference: the absolute instants are the given reference + the given times", show(want),
                 show(a0), "from_floats")
    originals = []      # (object, raw state when it was left behind by copy)
    for k, op in enumerate(case["ops"]):
        r = step(ts, op, k, fail, tol)
        ts = r["ts"]
        nontrivial = nontrivial or r["nontrivial"]
        if r["orig"] is not None:
            originals.append(r["orig"])
        if r["res"] == "err":
            trace.append(("err", snap(ts)))
            continue
        if a0 is None and r["a_post"] is not None:
            a0 = r["a_post"]
        trace.append(("ok", snap(ts, r["ret"])))
    # end of history: what the user reads now is what it was when the series first had a reference
    try:
        final = ts.dtg_time
        final = None if final is None else list(final)
    except Exception as e:
        final = "err:" + type(e).__name__
    if isinstance(final, str) or dist_us(final, a0) > tol:
        fail("after the whole history dtg_time still gives the instants the series had when it first got a reference", show(a0),
             show(final), "history_end")
    for obj, st in originals:
        if not same_raw(st, raw(obj)):
            fail("operations on a copy never modify the original", show(st), show(raw(obj)), "copy_independent")
    return trace, nontrivial


# ------------------------------------------------------------------------------------------------------------------------------
# generators
# ------------------------------------------------------------------------------------------------------------------------------
CTORS = [  # (ctor, stampkind, with ref, refkind, grid denominator)
    ("F", None, False, None, 64), ("F", None, True, "dt", 64), ("F", None, True, "dt64", 64),
    ("S", "dt", False, None, 64), ("S", "dt", True, "dt", 64), ("S", "dt", True, "dt64", 64),
    ("S", "us", False, None, 64), ("S", "us", True, "dt", 64), ("S", "ms", False, None, 8), ("S", "ms", True, "dt64", 8),
    ("S", "s", False, None, 1), ("S", "s", True, "dt", 1), ("S", "ts", False, None, 64),
]
BASE = 20 * 365 * 86400     # instants around 2020


def mk_case(ctor, vals, ref, ops, exact=True):
    c, sk, _, rk, _ = ctor
    d = dict(ctor=c, vals=[str(v) for v in vals], ref=None if ref is None else str(ref), ops=list(ops), exact=exact)
    if sk:
        d["stampkind"] = sk
    if rk and ref is not None:
        d["refkind"] = rk
    return d


def enum_cases(chk):
    L = 3 if chk.quick else 4
    for ci, ctor in enumerate(CTORS):
        g = ctor[4]
        ref = BASE + Fraction(7 * 64 + 5 * (64 // g), 64) if ctor[2] else None
        if ctor[0] == "F":
            vals = [Fraction(3 * (64 // g), 64), Fraction(5 * (64 // g), 64) + 1, Fraction(9 * (64 // g), 64) + 4]
        else:
            vals = [BASE + 10 + Fraction(k * (64 // g), 64) for k in (2, 3, 11)]
        x1 = BASE - 3 + Fraction(64 // g, 64) * 5
        x2 = BASE + 86400 * 3 + Fraction(64 // g, 64) * 3
        alpha = ["set:%s" % x1, "set:%s" % x2, "set:-", "set:bad:" + BAD_KINDS[ci % len(BAD_KINDS)], "copy", "copy:name", "read"]
        for n in range(0, L + 1):
            for w in itertools.product(alpha, repeat=n):
                yield mk_case(ctor, vals, ref, w)


def rand_ops(rng, q):
    n = rng.choice([1, 2, 3, 4, 5, 6, 8, 10])
    ops = []
    for _ in range(n):
        k = rng.random()
        if k < 0.35:
            ops.append("set:%s" % q())
        elif k < 0.55:
            ops.append("set:-")
        elif k < 0.65:
            ops.append("set:bad:" + rng.choice(BAD_KINDS))
        elif k < 0.8:
            ops.append("copy" if rng.random() < 0.4 else "copy:" + rng.choice(COPY_HOWS))
        else:
            ops.append("read")
    return ops


def rand_cases(chk, n):
    rng = chk.rng
    for _ in range(n):
        ctor = rng.choice(CTORS)
        g = ctor[4]
        q = lambda: BASE + Fraction(rng.randint(-400 * 86400 * g, 400 * 86400 * g), g)
        m = rng.choice([1, 1, 2, 3, 5, 8, 20])
        if ctor[0] == "F":
            v, vals = Fraction(rng.randint(-3000 * g, 3000 * g), g), []
            for _ in range(m):
                vals.append(v)
                v += Fraction(rng.randint(0 if rng.random() < 0.1 else 1, 5 * g), g)
        else:
            v, vals = q(), []
            for _ in range(m):
                vals.append(v)
                v += Fraction(rng.randint(1, 5 * g), g)
        ref = q() if ctor[2] else None
        if ref is not None and rng.random() < 0.15:
            ref = vals[0] if ctor[0] == "S" else ref
        yield mk_case(ctor, vals, ref, rand_ops(rng, q))


def real_cases(chk, n):
    """realistic float histories: decimal steps, arbitrary microsecond instants (oracles only, tolerance 2 us)"""
    rng = chk.rng
    for _ in range(n):
        ctor = rng.choice([c for c in CTORS if c[1] in (None, "dt", "us", "ts")])
        q = lambda: BASE + Fraction(rng.randint(-300 * 86400 * 10 ** 6, 300 * 86400 * 10 ** 6), 10 ** 6)
        m = rng.choice([1, 2, 3, 10, 50])
        if ctor[0] == "F":
            start = rng.choice([0.0, round(rng.uniform(-100, 1e5), rng.choice([1, 3, 7])), rng.uniform(0, 10)])
            dt = rng.choice([0.1, 0.05, 1 / 3, 0.01, 2.5, 0.2])
            vals = [Fraction(start + dt * i) for i in range(m)]
        else:
            v, vals = q(), []
            for _ in range(m):
                vals.append(v)
                v += Fraction(rng.randint(1, 3 * 10 ** 6), 10 ** 6)
        ref = q() if ctor[2] else None
        ops = rand_ops(rng, q)
        if rng.random() < 0.1:
            ops.insert(rng.randint(0, len(ops)), "set:aware:%s" % q())
        yield mk_case(ctor, vals, ref, ops, exact=False)


# ------------------------------------------------------------------------------------------------------------------------------
# several series built from ONE time array (what every TsDB reader does with the series of a file), histories interleaved
# ------------------------------------------------------------------------------------------------------------------------------
# a shared case: dict(kind="shared", src=<how the common time array is made>, vals=[str rational…], refs=[str|None per series],
#                     refkind="dt"|"dt64", ops=[[i, op]…], exact=bool)
#   op as in a plain history, or "spawn" = construct a further series from the live `.t` (and reference) of series i.
#   After every step the operated series is held to the clauses of a plain history (`step`) and EVERY OTHER series (also the
#   originals left behind by copy steps) must have the same reference and relative times -- hence instants -- as before.
NUM_SRC = ("f64", "row", "strided", "f32", "int", "tx", "chain")      # numeric time arrays
STAMP_SRC = ("dt", "us")                                               # one array of date-time stamps
FILE_SRC = ("file.ts", "file.dat", "file.pkl")                         # written by TsDB.export, read back by TsDB.getl


def build_shared(case):
    """returns the list of series, all constructed from one and the same time array object"""
    from qats import TimeSeries
    vals = [Fraction(v) for v in case["vals"]]
    n, src = len(vals), case["src"]
    refs = [None if r is None else inst(Fraction(r)) for r in case["refs"]]
    if case.get("refkind") == "dt64":
        refs = [None if r is None else np.datetime64(r) for r in refs]
    fl = [float(v) for v in vals]
    xs = [np.arange(n, dtype=float) + i for i in range(len(refs))]
    if src.startswith("file"):
        import contextlib
        import io
        import os
        import tempfile
        from qats.tsdb import TsDB
        with tempfile.TemporaryDirectory() as d:
            db = TsDB()
            for i in range(len(refs)):
                db.add(TimeSeries("s%d" % i, np.array(fl), xs[i]))
            path = os.path.join(d, "shared" + src[4:])
            with contextlib.redirect_stdout(io.StringIO()):
                db.export(path)
                got = TsDB.fromfile(path).getl()
        byname = dict((ts.name, ts) for ts in got)
        out = [byname["s%d" % i] for i in range(len(refs))]
        for ts, r in zip(out, refs):
            if r is not None:
                ts.set_dtg_ref(r)       # a series read from a file gets its reference afterwards
        return out
    if src == "f64" or src == "tx" or src == "chain":
        t = np.array(fl)
    elif src == "row":
        data = np.vstack([np.array(fl)] + xs)
        t, xs = data[0, :], [data[i + 1, :] for i in range(len(refs))]
    elif src == "strided":
        big = np.zeros(2 * n)
        big[::2] = fl
        t = big[::2]
    elif src == "f32":
        t = np.array(fl, dtype=np.float32)
    elif src == "int":
        t = np.array([int(v) for v in vals], dtype=np.int64)
    elif src == "dt":
        t = np.empty(n, dtype=object)
        t[:] = [inst(v) for v in vals]
    elif src == "us":
        t = np.array([np.datetime64(inst(v)) for v in vals], dtype="datetime64[us]")
    else:
        raise ValueError("unknown source " + src)
    out = []
    for i, r in enumerate(refs):
        if src == "chain" and i > 0:
            t = out[-1].t               # the live time array of the previous series
        out.append(TimeSeries("s%d" % i, t, t if src == "tx" else xs[i], dtg_ref=r))
    return out


def play_shared(case, fail, tol):
    """Runs the interleaved history.  Returns (specs, nontrivial): specs = "err:<Exc>" or, per series (also spawned ones),
    dict(ctor, ref, vals, ops, trace) = what it was constructed from, its own operations and its observed trace (+ final state)."""
    from qats import TimeSeries
    stamps = case["src"] in STAMP_SRC
    try:
        cur = build_shared(case)
    except Exception as e:
        return "err:" + ("empty" if len(case["vals"]) == 0 else type(e).__name__), False
    specs = [dict(ctor="S" if stamps else "F", ref=r, vals=list(case["vals"]), ops=[], trace=[("ok", snap(ts))])
             for ts, r in zip(cur, case["refs"])]
    a0 = [fresh_abs(ts.dtg_ref, ts.t) for ts in cur]
    for i, ts in enumerate(cur):
        if stamps:
            want = [inst(Fraction(v)) for v in case["vals"]]
            if dist_us(a0[i], want) > tol:
                fail("built from date-time stamps: reference + relative time of every sample equals its stamp", show(want), show(a0[i]),
                     "s%d:from_stamps" % i)
        elif case["refs"][i] is not None and not case["src"].startswith("file"):
            want = fresh_abs(inst(Fraction(case["refs"][i])), [float(Fraction(v)) for v in case["vals"]])
            if dist_us(a0[i], want) > tol:
                fail("built from numbers and a reference: the absolute instants are the given reference + the given times", show(want),
                     show(a0[i]), "s%d:from_floats" % i)
    left = []           # (label, object) left behind by copy steps
    nontrivial = False
    for k, (i, op) in enumerate(case["ops"]):
        if i >= len(cur):
            continue
        others = [("s%d" % j, o) for j, o in enumerate(cur) if j != i] + left
        before = [(o.dtg_ref, np.array(o.t, dtype=float, copy=True)) for _, o in others]
        where = "step %d (s%d.%s)" % (k + 1, i, op)
        if op == "spawn":
            p = cur[i]
            pre = (p.dtg_ref, np.array(p.t, dtype=float, copy=True))
            try:
                new = TimeSeries("s%d" % len(cur), p.t, p.x, dtg_ref=p.dtg_ref)
            except Exception as e:
                fail("constructing a series from the time array and reference of another one succeeds", "a series",
                     "%s: %s" % (type(e).__name__, str(e)[:200]), "spawn_raises@" + where)
                continue
            if new.dtg_ref != pre[0] or not np.array_equal(np.asarray(new.t), pre[1]):
                fail("built from numbers and a reference: the absolute instants are the given reference + the given times",
                     show(pre), show((new.dtg_ref, new.t)), "spawn_equal@" + where)
            cur.append(new)
            a0.append(fresh_abs(new.dtg_ref, new.t))
            specs.append(dict(ctor="F", ref=None if pre[0] is None else str(uninst(pre[0])), vals=[str(Fraction(float(v))) for v in pre[1]],
                              ops=[], trace=[("ok", snap(new))]))
            others.append(("s%d" % i, p))
            before.append(pre)
        else:
            r = step(cur[i], op, k, lambda o, e, ob, cl, i=i: fail(o, e, ob, "s%d:%s" % (i, cl)), tol)
            if r["orig"] is not None:
                left.append(("s%d before step %d" % (i, k + 1), r["orig"][0]))
                others.append(left[-1])
                before.append(r["orig"][1][:2])
            cur[i] = r["ts"]
            nontrivial = nontrivial or r["nontrivial"]
            specs[i]["ops"].append(op)
            if r["res"] == "err":
                specs[i]["trace"].append(("err", snap(cur[i])))
            else:
                if a0[i] is None and r["a_post"] is not None:
                    a0[i] = r["a_post"]
                specs[i]["trace"].append(("ok", snap(cur[i], r["ret"])))
        for (label, o), b in zip(others, before):
            now = (o.dtg_ref, np.array(o.t, dtype=float, copy=True))
            if now[0] == b[0] and (now[0] is None) == (b[0] is None) and np.array_equal(now[1], b[1]):
                cache = getattr(o, "_dtg_time", None)
                if cache is not None and now[0] is not None and dist_us(list(cache), fresh_abs(*now)) > tol:
                    fail("cached stamps, when present, equal reference + relative time (no stale cache)", show(fresh_abs(*now)),
                         show(list(cache)), "other_cache:%s@%s" % (label, where))
                continue
            if b[0] is not None:
                fail("reference + relative time of every sample of a series is the same before and after an operation (re-referencing, "
                     "copying, reading, construction) on ANOTHER series built from the same time array",
                     dict(series=label, instants=show(fresh_abs(*b))), dict(series=label, instants=show(fresh_abs(*now))),
                     "other_abs:%s@%s" % (label, where))
            else:
                fail("a series without reference keeps its relative times (and stays without reference) through an operation on "
                     "ANOTHER series built from the same time array", dict(series=label, ref=None, t=show(b[1])),
                     dict(series=label, ref=show(now[0]), t=show(now[1])), "other_t:%s@%s" % (label, where))
    for i, ts in enumerate(cur):
        try:
            final = ts.dtg_time
            final = None if final is None else list(final)
        except Exception as e:
            final = "err:" + type(e).__name__
        if isinstance(final, str) or dist_us(final, a0[i]) > tol:
            fail("after the whole history dtg_time still gives the instants the series had when it first got a reference", show(a0[i]),
                 show(final), "s%d:history_end" % i)
        specs[i]["trace"].append(("ok", snap(ts)))
    return specs, nontrivial


def spec_model(spec, o):
    """model trace of one series of a shared case: its own operations only (the other series do not exist for the model:
    objects are independent), + the state after the last one once more (compared with the state at the end of the whole history)"""
    mod = parse_model(o, spec["ops"]) if not o.startswith("bad-op") else o
    if isinstance(mod, str):
        return mod
    r, t, _, st, en = mod[-1][1]
    return mod + [("ok", (r, t, None, st, en))]


def mk_shared(src, vals, refs, ops, exact=True, refkind=None):
    d = dict(kind="shared", src=src, vals=[str(v) for v in vals], refs=[None if r is None else str(r) for r in refs],
             ops=[[int(i), o] for i, o in ops], exact=exact)
    if refkind:
        d["refkind"] = refkind
    return d


def enum_shared(chk):
    """every source x reference pattern of two series x ALL interleaved histories of length <= 2 (thorough: <= 3 for the main sources)"""
    R1, R2 = BASE + Fraction(7 * 64 + 5, 64), BASE + 3600
    x1 = BASE - 3 + Fraction(5, 64)
    for src in NUM_SRC + STAMP_SRC:
        if src == "int":
            vals = [3, 6, 13]
        elif src in STAMP_SRC:
            vals = [BASE + 10 + Fraction(k, 64) for k in (2, 3, 11)]
        else:
            vals = [Fraction(3, 64), Fraction(5, 64) + 1, Fraction(9, 64) + 4]
        alpha = [(i, o) for i in (0, 1) for o in ("set:%s" % x1, "set:-", "read", "copy", "spawn")]
        L = 2 if (chk.quick or src not in ("f64", "row", "chain", "dt")) else 3
        for refs in ((R1, R1), (R1, None), (None, R1), (R1, R2), (None, None)):
            for n in range(1, L + 1):
                for w in itertools.product(alpha, repeat=n):
                    yield mk_shared(src, vals, refs, w, refkind="dt64" if (src == "row" and refs[0] is not None) else None)


def shared_ops(rng, q, nser, aware=False):
    ops = []
    for o in rand_ops(rng, q) + (rand_ops(rng, q) if rng.random() < 0.3 else []):
        ops.append((rng.randrange(nser), o))
        if rng.random() < 0.12:
            ops.append((rng.randrange(nser), "spawn"))
            nser += 1
    if aware and rng.random() < 0.1:
        ops.insert(rng.randint(0, len(ops)), (0, "set:aware:%s" % q()))
    return ops


def rand_shared(chk, n):
    rng = chk.rng
    for _ in range(n):
        src = rng.choice(NUM_SRC + STAMP_SRC)
        g = 64
        q = lambda: BASE + Fraction(rng.randint(-400 * 86400 * g, 400 * 86400 * g), g)
        m = rng.choice([1, 2, 3, 5, 8, 20])
        if src in STAMP_SRC:
            v, vals = q(), []
            for _ in range(m):
                vals.append(v)
                v += Fraction(rng.randint(1, 5 * g), g)
        elif src == "int":
            v, vals = rng.randint(-3000, 3000), []
            for _ in range(m):
                vals.append(v)
                v += rng.randint(1, 5)
        else:
            v, vals = Fraction(rng.randint(-3000 * g, 3000 * g), g), []
            for _ in range(m):
                vals.append(v)
                v += Fraction(rng.randint(0 if rng.random() < 0.1 else 1, 5 * g), g)
        nser = rng.choice([2, 2, 3, 4])
        common = q()
        refs = [rng.choice([None, common, common, q()]) for _ in range(nser)]
        yield mk_shared(src, vals, refs, shared_ops(rng, q, nser), refkind=rng.choice([None, None, "dt64"]))


def real_shared(chk, n):
    """realistic: decimal time steps, arbitrary microsecond instants, series read back from one file (oracles only, 2 us)"""
    rng = chk.rng
    for k in range(n):
        src = rng.choice(FILE_SRC) if k % 3 == 0 else rng.choice(("f64", "row", "strided", "tx", "chain", "dt", "us"))
        q = lambda: BASE + Fraction(rng.randint(-300 * 86400 * 10 ** 6, 300 * 86400 * 10 ** 6), 10 ** 6)
        m = rng.choice([2, 3, 10, 50])
        if src in STAMP_SRC:
            v, vals = q(), []
            for _ in range(m):
                vals.append(v)
                v += Fraction(rng.randint(1, 3 * 10 ** 6), 10 ** 6)
        else:
            start = rng.choice([0.0, round(rng.uniform(-100, 1e5), rng.choice([1, 3])), round(rng.uniform(0, 10), 2)])
            dt = rng.choice([0.1, 0.05, 0.25, 0.01, 2.5, 0.2])
            vals = [Fraction(start + dt * i) for i in range(m)]
        nser = rng.choice([2, 3, 5])
        common = q()
        refs = [rng.choice([None, common, common, q()]) for _ in range(nser)]
        yield mk_shared(src, vals, refs, shared_ops(rng, q, nser, aware=True), exact=False)


def run_shared(chk, drv):
    corpus = [c for c in core.load_corpus("C18") if c.get("kind") == "shared"]
    exact = [c for c in corpus if c.get("exact", True)] + list(enum_shared(chk)) + list(rand_shared(chk, 800 if chk.quick else 10000))
    played, lines = [], []
    for case in exact:
        chk.count("shared.run")
        fails = []
        specs, nontrivial = play_shared(case, lambda *a: fails.append(a), 0.0)
        for (oracle, exp, obs, clause) in fails:
            chk.fail(oracle, case, exp, obs, clause=clause)
        if nontrivial:
            chk.nontriv(("shared", case["src"], tuple(case["vals"]), tuple(case["refs"]), tuple(map(tuple, case["ops"]))))
        chk.dist("shared:" + case["src"])
        if isinstance(specs, str):
            chk.disagree("shared.run", case, "series constructed", specs)
            continue
        for j, sp in enumerate(specs):
            played.append((case, j, sp))
            lines.append(model_line(sp))
    outs = drv.run(lines)
    for (case, j, sp), o in zip(played, outs):
        mod = spec_model(sp, o)
        if sp["trace"] != mod:
            if isinstance(mod, str):
                chk.disagree("shared.run", dict(case, series=j), mod, show_trace(sp["trace"]))
            else:
                k = next((i for i, (a, b) in enumerate(zip(mod, sp["trace"])) if a != b), min(len(mod), len(sp["trace"])))
                chk.disagree("shared.run", dict(case, series=j, own_ops=sp["ops"], first_difference_at_own_step=k),
                             show_trace(mod[k:k + 1]), show_trace(sp["trace"][k:k + 1]))
    for case in [c for c in corpus if not c.get("exact", True)] + list(real_shared(chk, 300 if chk.quick else 3000)):
        chk.count("shared.real")
        fails = []
        specs, nontrivial = play_shared(case, lambda *a: fails.append(a), 2e-6)
        for (oracle, exp, obs, clause) in fails:
            chk.fail(oracle, case, exp, obs, clause=clause, tolerance_s=2e-6)
        if isinstance(specs, str):
            chk.fail("series can be constructed from one time array / read back from one file", case, "series", specs,
                     clause="shared_build")
        if nontrivial:
            chk.nontriv(("shared.real", case["src"], tuple(case["vals"][:3]), tuple(case["refs"]), tuple(map(tuple, case["ops"]))))
        chk.dist("shared.real:" + case["src"])


# ------------------------------------------------------------------------------------------------------------------------------
# `_check_time_arrays`
# ------------------------------------------------------------------------------------------------------------------------------
def check_refs(chk, drv):
    from qats import TimeSeries
    from qats.tsdb import TsDB
    rng = chk.rng
    lines, meta = [], []
    pool = [None, BASE + Fraction(1, 64), BASE + 60]
    combos = [c for k in (1, 2, 3) for c in itertools.product(pool, repeat=k)]
    combos += [tuple(rng.choice(pool + [BASE + 60]) for _ in range(rng.choice([4, 5, 7]))) for _ in range(60 if chk.quick else 600)]
    for refs in combos:
        lines.append("dtg.refs " + " ".join("-" if r is None else rat(r) for r in refs))
        meta.append(refs)
    outs = drv.run(lines)
    t = np.arange(5, dtype=float) * 0.5
    for refs, o in zip(meta, outs):
        chk.count("dtg.refs")
        cont = OrderedDict(("s%d" % i, TimeSeries("s%d" % i, t.copy(), t.copy(), dtg_ref=None if r is None else inst(r)))
                           for i, r in enumerate(refs))
        inp = dict(refs=[None if r is None else str(r) for r in refs])
        try:
            tc = TsDB._check_time_arrays(cont)
            impl = [str(bool(tc["dtg_defined"])).lower(), str("dtg_ref" in tc["deviations"]).lower(),
                    "-" if tc["dtg_ref"] is None else rat(uninst(tc["dtg_ref"]))]
        except Exception as e:
            tc, impl = None, "err:" + type(e).__name__
        mt = o.split()
        mod = [mt[1], mt[3], mt[4]]
        if impl != mod:
            chk.disagree("dtg.refs", inp, mod, impl)
            continue
        if len(set(refs)) > 1:
            chk.nontriv(("refs", refs))
        chk.dist("refs:" + ("blocked" if mod[1] == "true" else "pass"))
        if bool(tc["is_common"]) != (mod[1] == "false"):
            chk.fail("equal time arrays: common exactly when all references are equal", inp, mod[1] == "false", bool(tc["is_common"]),
                     clause="refs_common")
    # implementation alone: series with different references and shifted relative times
    t = np.arange(9, dtype=float) * 0.5      # windows [s, s+4] with s <= 2 always overlap (no-overlap crashes the check: other defect)
    for _ in range(300 if chk.quick else 5000):
        chk.count("refs.oracle")
        k = rng.choice([2, 3, 4])
        rs = [rng.choice([None, BASE, BASE + 2, BASE + Fraction(1, 2)]) for _ in range(k)]
        st = [rng.choice([Fraction(0), Fraction(2), Fraction(1, 2)]) for _ in range(k)]
        cont = OrderedDict(("s%d" % i, TimeSeries("s%d" % i, float(s) + t, t.copy(), dtg_ref=None if r is None else inst(r)))
                           for i, (r, s) in enumerate(zip(rs, st)))
        inp = dict(refs=[None if r is None else str(r) for r in rs], starts=[str(s) for s in st])
        tc = TsDB._check_time_arrays(cont)
        if tc["is_common"] and tc["dtg_defined"]:
            starts = set(ts.dtg_start for ts in cont.values())
            if len(starts) != 1 or None in starts:
                chk.fail("series declared to have a common time array (one of them with a reference) start at the same instant", inp,
                         "one start instant", sorted(str(show(s)) for s in starts), clause="refs_common_abs")
        if tc["dtg_ref"] is not None and any(ts.dtg_ref != tc["dtg_ref"] for ts in cont.values()):
            chk.fail("the reported common reference is the reference of every series", inp, show(tc["dtg_ref"]),
                     [show(ts.dtg_ref) for ts in cont.values()], clause="refs_common_ref")


# ------------------------------------------------------------------------------------------------------------------------------
# nanosecond-resolution stamps (pandas < 3 default, numpy default for `datetime64('now')`-style arithmetic)
# ------------------------------------------------------------------------------------------------------------------------------
def ns_probe():
    """Returns a list of (oracle, input, expected, observed) for numpy.datetime64[ns] stamps / reference."""
    from qats import TimeSeries
    out = []
    stamps = [inst(BASE + Fraction(k, 2)) for k in (0, 3, 4)]
    t = np.array([np.datetime64(s) for s in stamps], dtype="datetime64[ns]")
    x = np.arange(3.)
    inp = dict(ctor="S", stampkind="ns", vals=[str(BASE + Fraction(k, 2)) for k in (0, 3, 4)], ref=None, ops=[])
    try:
        ts = TimeSeries("s", t, x)
        got = fresh_abs(ts.dtg_ref, ts.t)
        obs = dict(dtg_ref=show(ts.dtg_ref), t=show(ts.t))
    except Exception as e:
        got, obs = "err", "err:" + type(e).__name__
    if got == "err" or dist_us(got, stamps) > 0:
        out.append(("built from numpy.datetime64[ns] stamps: reference + relative time of every sample equals its stamp", inp,
                    show(stamps), obs))
    inp2 = dict(ctor="F", refkind="ns", vals=["0", "1", "2"], ref=str(BASE), ops=[])
    try:
        ts = TimeSeries("s", np.arange(3.), x, dtg_ref=np.datetime64(inst(BASE)).astype("datetime64[ns]"))
        ok = isinstance(ts.dtg_ref, datetime) and ts.dtg_start == inst(BASE)
        obs = dict(dtg_ref=show(ts.dtg_ref))
    except Exception as e:
        ok, obs = False, "err:" + type(e).__name__
    if not ok:
        out.append(("reference given as numpy.datetime64[ns]: stored as the same instant", inp2, show(inst(BASE)), obs))
    return out


# ------------------------------------------------------------------------------------------------------------------------------
def run(chk):
    chk.extra["rule"] = RULE
    chk.assumptions += [
        "instants and seconds are exact (one additive group): timedelta's rounding to whole microseconds and float rounding are not "
        "modelled; the correspondence uses multiples of 1/64 s where the implementation's arithmetic is exact",
        "numpy.datetime64 (us/ms/s) stamps and references convert to datetime without loss (astype(datetime), tolist())",
        "realistic float histories are held to 2 us (resolution of datetime + rounding of start instant / float additions)",
    ]
    chk.partial += ["microsecond rounding: measured on realistic float histories (largest drift reported as max_drift_us), not proved"]
    chk.matchers[NS_FINDING] = lambda f: f.get("clause") == "ns_resolution"
    drv = core.Driver()
    corpus = [c for c in core.load_corpus("C18") if "ctor" in c and c.get("kind") is None]
    exact = corpus + list(enum_cases(chk)) + list(rand_cases(chk, 3000 if chk.quick else 60000))
    exact.append(mk_case(CTORS[0], [], None, ["copy"]))
    exact.append(mk_case(CTORS[3], [], None, []))
    outs = drv.run([model_line(c) for c in exact])
    for case, o in zip(exact, outs):
        chk.count("dtg.run")
        fails = []
        trace, nontrivial = play(case, lambda *a: fails.append(a), 0.0)
        mod = parse_model(o, case["ops"]) if not o.startswith("bad-op") else o
        if trace != mod:
            if isinstance(trace, str) or isinstance(mod, str):
                chk.disagree("dtg.run", case, show_trace(mod), show_trace(trace))
            else:
                k = next((i for i, (a, b) in enumerate(zip(mod, trace)) if a != b), min(len(mod), len(trace)))
                chk.disagree("dtg.run", dict(case, first_difference_at_step=k), show_trace(mod[k:k + 1]), show_trace(trace[k:k + 1]))
        for (oracle, exp, obs, clause) in fails:
            chk.fail(oracle, case, exp, obs, clause=clause)
        if nontrivial:
            chk.nontriv((case["ctor"], case.get("stampkind"), case.get("refkind"), tuple(case["vals"]), case["ref"], tuple(case["ops"])))
        chk.dist("%s%s:%s" % (case["ctor"], "" if case["ctor"] == "F" else "-" + case.get("stampkind", "dt"),
                              "ref" if case.get("ref") is not None else "noref"))
    # realistic float histories
    drift = 0.0
    for case in real_cases(chk, 1500 if chk.quick else 30000):
        chk.count("real.history")
        fails = []
        trace, nontrivial = play(case, lambda *a: fails.append(a), 2e-6)
        for (oracle, exp, obs, clause) in fails:
            chk.fail(oracle, case, exp, obs, clause=clause, tolerance_s=2e-6)
        if nontrivial:
            chk.nontriv(("real", tuple(case["vals"][:3]), case["ref"], tuple(case["ops"])))
        chk.dist("real:" + case["ctor"])
        d = measure_drift(case)
        drift = max(drift, d)
    chk.extra["max_drift_us"] = round(drift * 1e6, 3)
    run_shared(chk, drv)
    check_refs(chk, drv)
    c18_proc.run_proc(chk, drv)
    # audit round 8: the same clauses on LONG, non-uniformly sampled series (999 ... 131073 samples), exact microsecond reference
    from . import c18_long
    c18_long.run_long(chk, core.load_corpus("C18"))
    # nanosecond resolution: enforced once registered in known_findings.json (status known -> KNOWN-FINDING, fixed -> must hold)
    ns = ns_probe()
    chk.count("ns.probe", 2)
    registered = any(k.get("id") == NS_FINDING for k in chk.known)
    for (oracle, inp, exp, obs) in ns:
        if registered:
            chk.fail(oracle, inp, exp, obs, clause="ns_resolution")
        else:
            chk.notes.append("NOT ENFORCED (register as %s in known_findings.json): %s; input %s; observed %s" % (
                NS_FINDING, oracle, inp, obs))
    chk.sample(dict(construct="floats t=[0, 0.5, 3], dtg_ref=2000-01-01T00:01:40", history=["read", "set(00:01:38)", "copy", "read",
                                                                                          "set(None)", "set('x') -> ValueError"],
                    t_after_set=[2, 2.5, 5], t_at_end=[0, 0.5, 3], instants_throughout=["00:01:40", "00:01:40.5", "00:01:43"]))
    chk.sample(dict(construct="stamps [00:00:10, 00:00:11, 00:00:13]", history=["set(None)", "copy", "set(00:00:00)"],
                    ref_at_end="00:00:00", t_at_end=[10, 11, 13], dtg_time_at_end="the stamps"))


def measure_drift(case):
    """largest distance between the instants at construction (or first reference) and at the end of a realistic history"""
    try:
        ts = build(case)
        a0 = fresh_abs(ts.dtg_ref, ts.t)
        for op in case["ops"]:
            try:
                if op.startswith("copy"):
                    ts = do_copy(ts, op, 0)[0]
                elif op == "set:-":
                    ts.set_dtg_ref()
                elif op.startswith("set:") and not op.startswith(("set:bad", "set:aware")):
                    ts.set_dtg_ref(inst(Fraction(op.split(":", 1)[1])))
            except Exception:
                pass
            if a0 is None:
                a0 = fresh_abs(ts.dtg_ref, ts.t)
        d = dist_us(a0, fresh_abs(ts.dtg_ref, ts.t))
        return d if d != float("inf") else 0.0
    except Exception:
        return 0.0


def show_trace(tr):
    if isinstance(tr, str):
        return tr
    return [[r, [show(v) for v in st]] for r, st in tr]


def replay(rp):
    case = rp.get("input") or {}
    if case.get("kind") in ("proc", "procpair"):
        return c18_proc.replay_proc(rp)
    if case.get("kind") == "long":
        from . import c18_long
        return c18_long.replay_long(case)
    if case.get("kind") == "shared":
        fails = []
        tol = 0.0 if case.get("exact", True) else 2e-6
        specs, _ = play_shared(case, lambda *a: fails.append(a), tol)
        print("series built from one time array:", case["src"], "refs", case["refs"], "interleaved ops", case["ops"])
        if isinstance(specs, str):
            print("   construction:", specs)
            if not case.get("exact", True):
                fails.append(("series can be constructed from one time array / read back from one file", "series", specs, "shared_build"))
        else:
            for j, sp in enumerate(specs):
                print("   s%d built from %s ref %s times %s; own ops %s" % (j, sp["ctor"], sp["ref"], sp["vals"][:6], sp["ops"]))
                for r, st in sp["trace"]:
                    print("      ", r, "ref", show(st[0]), "t", show(st[1][:6]))
        for (oracle, exp, obs, clause) in fails:
            print("FAILS [%s]: %s\n   expected %s\n   observed %s" % (clause, oracle, exp, obs))
        print("replay: %d failing clause(s)" % len(fails))
        return 1 if fails else 0
    if "refs" in case:
        from qats import TimeSeries
        from qats.tsdb import TsDB
        t = np.arange(9 if "starts" in case else 5, dtype=float) * 0.5
        st = [Fraction(s) for s in case.get("starts", ["0"] * len(case["refs"]))]
        cont = OrderedDict(("s%d" % i, TimeSeries("s%d" % i, float(s) + t, t.copy(), dtg_ref=None if r is None else inst(Fraction(r))))
                           for i, (r, s) in enumerate(zip(case["refs"], st)))
        tc = TsDB._check_time_arrays(cont)
        refs = [ts.dtg_ref for ts in cont.values()]
        starts = set(ts.dtg_start for ts in cont.values())
        print("refs", [show(r) for r in refs], "is_common", tc["is_common"], "dtg_defined", tc["dtg_defined"], "dtg_ref", tc["dtg_ref"])
        bad = 0
        if tc["is_common"] and tc["dtg_defined"] and (len(starts) != 1 or None in starts):
            bad += 1
        if tc["dtg_ref"] is not None and any(r != tc["dtg_ref"] for r in refs):
            bad += 1
        if len(set(st)) == 1 and bool(tc["is_common"]) != (len(set(refs)) == 1):
            bad += 1
        print("replay: %d failing clause(s)" % bad)
        return 1 if bad else 0
    if case.get("stampkind") == "ns" or case.get("refkind") == "ns":
        fails = ns_probe()
        for f in fails:
            print("FAILS:", f[0], "| expected", f[2], "| observed", f[3])
        print("replay: %d failing clause(s)" % len(fails))
        return 1 if fails else 0
    if "ctor" not in case:
        print("replay: nothing to re-run (no failing input recorded)")
        return 1
    fails = []
    tol = 0.0 if case.get("exact", True) else 2e-6
    trace, _ = play(case, lambda *a: fails.append(a), tol)
    print("history:", case["ctor"], case.get("stampkind"), "ref", case.get("ref"), "ops", case["ops"])
    if not isinstance(trace, str):
        for r, st in trace:
            print("  ", r, "ref", show(st[0]), "t", show(st[1][:6]))
    for (oracle, exp, obs, clause) in fails:
        print("FAILS [%s]: %s\n   expected %s\n   observed %s" % (clause, oracle, exp, obs))
    print("replay: %d failing clause(s)" % len(fails))
    return 1 if fails else 0
