"""C11, long records: the clauses of the property evaluated on the implementation for series of 999 .. 131073 samples.

A failing input stores only compact parameters (length, numpy seed, axis kind, spikes, requests by sample INDEX); the series is rebuilt from
them by `build`.  Every expected value is obtained by index arithmetic on the rebuilt arrays (the window `t[i] .. t[j]` retains the samples
i .. j; the point "sample p plus the fraction f of the gap to sample p+1" has the value x[p] + f (x[p+1] - x[p])), so the reference shares
neither the comparison mask nor the interpolation routine with the implementation.

The structure sits where a blocked / vectorised / searchsorted variant would go wrong: window limits, requested times, extremes in the first
and last three samples, exactly at multiples of 1000 / 1024 / 4096 / 10000 / 65536, one sample before and after them, and windows / requested
arrays that span such a boundary; requested arrays and grids that are themselves that long (the outside point is the last / first / a
block-boundary element of the request)."""
import numpy as np

RULE = ("Long records (stream long-records): series of 999 .. 131073 samples (just below / at / above 1000, 1024, 4096, 10000, 65536; uniform dyadic, "
        "uniform decimal, non-uniform) rebuilt from a numpy seed, 7 - 12 requests to one object: closed windows whose limits are sample times / "
        "between samples at the first and last three samples and at multiples of 1000 / 1024 / 4096 / 10000 / 65536 (-1, +0, +1), through get / "
        "max / min / mean / positional / modify; requested arrays of 5 .. 70001 times (stored times at those positions, points in the gaps next "
        "to them, sorted / unsorted, list / ndarray; one time outside the span at the first / last / middle / block-boundary element must "
        "raise); step resampling to grids of 2 .. 131073 points with and without a window; stand-alone resampling; stage combinations (real "
        "stage functions: equal lengths, time axis untouched, order by splitting the request; tag stage functions: order, step given to the "
        "filter, data given to every stage). Expected values by index arithmetic on the rebuilt arrays.")
SIZES = (999, 1000, 1001, 1023, 1024, 1025, 2048, 4095, 4096, 4097, 8193, 9999, 10000, 10001, 16385, 65535, 65536, 65537, 70001, 131073)
QUICK_GROUPS = ((1000, 1001, 1023, 1024, 1025), (4095, 4096, 4097), (9999, 10000, 10001), (65536, 65537, 70001))
BLOCKS = (1000, 1024, 4096, 10000, 65536)
VIAS = ("get", "get", "max", "min", "mean", "positional", "modify")
EDGE = ("at", "at", "before", "after")     # a window limit: the sample time itself, between it and the previous / the next sample

WINDOW = "with a time window exactly the samples whose time lies in the closed window are returned, unchanged and in order (long records)"
INTERP = "resampling to a given array returns the linear interpolation of the stored samples at the requested times (long records)"
STORED = "resampling reproduces stored values at stored times (long records)"
GRID = ("resampling to a step gives an equidistant grid from the first to the last retained sample whose spacing is the one closest to the "
        "request (long records)")
GRIDV = "resampling to a step returns the linear interpolation of the stored samples on that grid (long records)"
RAISES = ("resampling raises instead of extrapolating when a requested time (at any position of a long request) is outside the stored span "
          "(long records)")
ALONE = ("stand-alone resampling of the full duration to a positive step not exceeding it succeeds, the new times start, start + dt, ... "
         "inside the original span, the values are the linear interpolation (long records)")
PLAIN = "without options the stored arrays are returned (long records, also after earlier queries on the same object)"
ORDERED = ("window, resampling, tapering, filtering and smoothing are applied in that order, each once, and the filter sees the sampling "
           "interval of the series it is applied to (long records, tag stage functions)")
EQLEN = "time and data always have equal length (long records)"


def hot(n, rng, k=3):
    """positions where a blocked implementation errs: the ends, and block multiples -1 / +0 / +1"""
    pos = {0, 1, 2, n - 3, n - 2, n - 1}
    for b in BLOCKS:
        mult = list(range(b, n, b))
        for m in ([mult[0], mult[-1]] + [rng.choice(mult) for _ in range(k)]) if mult else []:
            pos.update(p for p in (m - 1, m, m + 1) if 0 <= p < n)
    return sorted(pos)


def gen_long(rng, n):
    axis = rng.choice(["uniform", "uniform", "nonuniform", "decimal"])
    c = {"long": 1, "n": n, "seed": rng.randrange(2 ** 31), "axis": axis,
         "dt0": rng.choice([0.5, 1.0, 0.25, 0.125, 2.0]) if axis != "decimal" else rng.choice([0.1, 0.05, 0.01, 0.3]),
         "start": rng.choice([0.0, 0.0, -3.0, 10.0, 100.5]), "mean": rng.choice([0.0, 2.0, -50.0, 1000.0]), "amp": rng.choice([1.0, 0.01, 30.0])}
    h = hot(n, rng)
    sp = rng.sample(h, min(len(h), rng.choice([4, 8, 12])))
    c["spikes"] = [[p, rng.choice([-1, 1]) * (5.0 + q)] for q, p in enumerate(sorted(sp))]       # distinct magnitudes, in units of amp
    reqs = []
    ops = ["twin", "twin", "twin", "arr", "arr", "outside", "step", "step", "alone", "stages", "tagged", "tagged"]
    rng.shuffle(ops)
    for op in ops[:rng.choice([7, 9, 12])]:
        r = {"op": op}
        if op in ("twin", "step", "stages", "tagged") and (op == "twin" or rng.random() < 0.6):
            i, j = sorted(rng.sample(h, 2))
            if op != "twin" and j - i < 200:
                i, j = (0, j) if j > 400 else (i, n - 1)
            r.update(i=i, j=j, ea=rng.choice(EDGE), eb=rng.choice(EDGE))
        if op == "twin":
            r["via"] = rng.choice(VIAS)
        elif op in ("arr", "outside"):
            m = rng.choice([5, 33] + [s for s in SIZES if s <= 70001])
            r.update(m=m, seed=rng.randrange(2 ** 31), order=rng.choice(["sorted", "sorted", "unsorted"]), spell=rng.choice(["ndarray", "ndarray", "list"]),
                     via=rng.choice(["get", "get", "interpolate", "resample"]))
            if op == "outside":
                mults = [q for q in (1024, 4096, 65536) if q < m]
                r["at"] = rng.choice([0, m - 1, m - 1, m // 2] + ([rng.choice(mults) - rng.choice([0, 1])] if mults else []))
                r["side"] = rng.choice(["after", "after", "before"])
                r["by"] = rng.choice([1e-6, 0.5, 3.0])            # in units of the first / last step
        elif op in ("step", "alone"):
            r["m"] = rng.choice([2, 7] + list(SIZES))             # the number of grid points asked for (about)
            r["f"] = rng.choice([1.0, 1.0, 1.02, 0.97])
        if op in ("stages", "tagged"):
            if rng.random() < 0.5:
                r["m"], r["f"] = rng.choice([500] + [s for s in SIZES if s <= 70001]), 1.0
            r["taperfrac"] = rng.choice([None, 0.001, 0.1, 0.5])
            r["filter"] = rng.choice([None, "lp", "hp", "bp", "bs"])
            r["window_len"] = rng.choice([None, 3, 8, 51, 1023, 1024, 1025])
            if op == "stages":
                r["window"] = rng.choice(["rectangular", "hanning", "blackman"])
                r["fr"] = sorted(rng.sample([0.05, 0.1, 0.3, 0.6, 0.9], 2))
                r["split"] = rng.choice(["taper", "filter", "smooth"])
                r["via"] = rng.choice(["get", "get", "positional", "modify", "geta"])
            elif not (r["taperfrac"] or r["filter"] or r["window_len"]):
                r["filter"] = "lp"
        reqs.append(r)
    c["requests"] = reqs
    return c


def build(c):
    n = int(c["n"])
    rs = np.random.RandomState(int(c["seed"]))
    dt0, start = float(c["dt0"]), float(c["start"])
    if c["axis"] == "nonuniform":
        t = start + np.concatenate([[0.0], np.cumsum(dt0 * rs.choice([0.5, 1.0, 1.0, 1.5, 2.0], n - 1))])      # dyadic: exact
    else:
        t = start + dt0 * np.arange(n)
    per = 37.0 * dt0
    x = c["mean"] + c["amp"] * (np.sin(2 * np.pi * (t - start) / per) + 0.2 * rs.standard_normal(n))
    for p, v in c.get("spikes", []):
        x[int(p)] = c["mean"] + c["amp"] * v
    return t, x


def limits(t, r):
    """window limits and the index range they retain (by construction, not by comparing times)"""
    n = len(t)
    i, j = int(r["i"]), int(r["j"])
    ea, eb = r.get("ea", "at"), r.get("eb", "at")
    if ea == "before":
        a, first = (0.5 * (t[i - 1] + t[i]) if i > 0 else t[0] - 1.0), i
    elif ea == "after":
        a, first = 0.5 * (t[i] + t[i + 1]), i + 1
    else:
        a, first = t[i], i
    if eb == "after":
        b, last = (0.5 * (t[j] + t[j + 1]) if j < n - 1 else t[-1] + 1.0), j
    elif eb == "before":
        b, last = 0.5 * (t[j - 1] + t[j]), j - 1
    else:
        b, last = t[j], j
    return float(a), float(b), first, last


def ref_interp(t, x, q):
    """linear interpolation by explicit bracketing (numpy searchsorted on the stored times; no scipy)"""
    q = np.asarray(q, dtype=float)
    k = np.clip(np.searchsorted(t, q, side="right") - 1, 0, len(t) - 2)
    return x[k] + (x[k + 1] - x[k]) * ((q - t[k]) / (t[k + 1] - t[k]))


def points(t, x, r):
    """the requested times of an 'arr' / 'outside' request and their expected values: hot stored times, points inside gaps next to them,
    and a bulk of random positions; by sample index + fraction"""
    n, m = len(t), int(r["m"])
    rs = np.random.RandomState(int(r["seed"]))
    hp = np.array(hot(n, __import__("random").Random(int(r["seed"]))))
    pos = rs.uniform(0, n - 1, m)
    k = min(len(hp), m // 2)
    pos[:k] = hp[:k] if k == len(hp) else rs.choice(hp, k, replace=False)     # stored times
    pos[k:2 * k] = np.minimum(pos[:k] + rs.choice([0.5, 0.25, 0.999], k), n - 1)
    if r.get("order", "sorted") == "sorted":
        pos = np.sort(pos)
    idx = np.minimum(np.floor(pos).astype(int), n - 2)
    frac = pos - idx
    q = t[idx] + frac * (t[idx + 1] - t[idx])
    q = np.clip(q, t[0], t[-1])
    exp = x[idx] + frac * (x[idx + 1] - x[idx])
    whole = pos == np.floor(pos)                     # stored times: the request is the stored time itself, the value the stored value
    ip = pos[whole].astype(int)
    q[whole], exp[whole] = t[ip], x[ip]
    frac = np.where(whole, 0.0, np.where(frac == 0.0, 0.5, frac))
    return q, exp, frac


def head(a, k=6):
    try:
        return np.asarray(a, dtype=float).ravel()[:k].tolist()
    except Exception:
        return repr(a)[:100]


def attempt(call):
    try:
        with np.errstate(all="ignore"):
            return call()
    except Exception as e:
        return type(e).__name__


def long_clauses(c, helpers):
    """-> [(oracle, expected, observed, index of the request)]; all requests go to ONE object"""
    from qats import TimeSeries, TsDB
    real_clauses, Tags = helpers["real_clauses"], helpers["Tags"]
    t, x = build(c)
    n = len(t)
    scale = max(1.0, float(np.max(np.abs(x))))
    ulp = float(np.spacing(max(abs(t[0]), abs(t[-1]))))
    slope = float(np.max(np.abs(np.diff(x) / np.diff(t))))
    ts = TimeSeries("s", t.copy(), x.copy())
    bad = []
    for idx, r in enumerate(c["requests"]):
        op = r["op"]
        add = lambda o, e, g: bad.append((o, e, g, idx))
        if "i" in r:
            a, b, first, last = limits(t, r)
            tw, xw = t[first:last + 1], x[first:last + 1]
        else:
            a = b = None
            tw, xw = t, x
        if op == "twin":
            via = r.get("via", "get")
            if len(tw) == 0 and via != "get":
                via = "get"
            if via in ("max", "min", "mean"):
                got = attempt(lambda: float(getattr(ts, via)(twin=(a, b))))
                want = float(xw.max()) if via == "max" else float(xw.min()) if via == "min" else float(__import__("math").fsum(xw.tolist()) / len(xw))
                if isinstance(got, str) or abs(got - want) > (0.0 if via != "mean" else 1e-9 * scale):
                    add(WINDOW + " — %s(twin=...) is the %s of exactly these samples" % (via, via), want, got)
                continue
            if via == "positional":
                got = attempt(lambda: ts.get((a, b)))
            elif via == "modify":
                def mod():
                    o = ts.copy()
                    o.modify(twin=(a, b))
                    return o.t, o.x
                got = attempt(mod)
            else:
                got = attempt(lambda: ts.get(twin=(a, b)))
            if isinstance(got, str) or len(got) != 2 or not (np.array_equal(got[0], tw) and np.array_equal(got[1], xw)):
                add(WINDOW + ("" if via == "get" else " — through %s" % via),
                    "samples %d .. %d: %d samples, first %r, last %r" % (first, last, len(tw), head(tw[:2]), head(tw[-2:])),
                    got if isinstance(got, str) else "%d / %d samples, first %r, last %r" % (len(got[0]), len(got[1]), head(got[0][:2]), head(got[0][-2:])))
        elif op in ("arr", "outside"):
            q, exp, frac = points(t, x, r)
            if op == "outside":
                at = int(r["at"])
                q = q.copy()
                q[at] = t[-1] + r["by"] * (t[-1] - t[-2]) if r["side"] == "after" else t[0] - r["by"] * (t[1] - t[0])
            req = q.tolist() if r.get("spell") == "list" else q.copy()
            via = r.get("via", "get")
            if via == "interpolate":
                got = attempt(lambda: (q, ts.interpolate(np.asarray(req))))
            elif via == "resample":
                got = attempt(lambda: (q, ts.resample(t=np.asarray(req))))
            else:
                got = attempt(lambda: ts.get(resample=req))
            if op == "outside":
                if not isinstance(got, str):
                    add(RAISES + " — through %s" % via, "an exception (element %d of %d is %r; the span is %r .. %r)" % (at, len(q), float(q[at]), float(t[0]), float(t[-1])),
                        head(got[1]))
                elif got not in ("ValueError", "AssertionError"):
                    add(RAISES + " — through %s" % via, "ValueError", got)
                continue
            if isinstance(got, str):
                add(INTERP + " — through %s: a result" % via, "%d values" % len(q), got)
                continue
            gt, gx = np.asarray(got[0], dtype=float), np.asarray(got[1], dtype=float)
            if gt.shape != gx.shape or gx.shape != q.shape:
                add(EQLEN, list(q.shape), [list(gt.shape), list(gx.shape)])
            elif not np.array_equal(gt, q):
                add("resampling to a given array returns the given times (long records)", head(q), head(gt))
            else:
                tol = 1e-9 * scale + 4 * slope * ulp
                w = np.abs(gx - exp) > tol
                if w.any():
                    k = int(np.argmax(w))
                    add(INTERP + " — through %s" % via, "element %d (time %r): %r" % (k, float(q[k]), float(exp[k])), float(gx[k]))
                s = frac == 0.0
                if s.any() and (np.abs(gx[s] - exp[s]) > 1e-12 * scale).any():
                    k = int(np.flatnonzero(s)[np.argmax(np.abs(gx[s] - exp[s]))])
                    add(STORED, "element %d (stored time %r): %r" % (k, float(q[k]), float(exp[k])), float(gx[k]))
        elif op == "step":
            if len(tw) < 2:
                continue
            span = float(tw[-1] - tw[0])
            d = span / (max(2, int(r["m"])) - 1) * r.get("f", 1.0)
            kw = {"resample": float(d)}
            if a is not None:
                kw["twin"] = (a, b)
            got = attempt(lambda: ts.get(**kw))
            if isinstance(got, str):
                add(GRID + ": a result", "a grid", got)
                continue
            gt, gx = np.asarray(got[0], dtype=float), np.asarray(got[1], dtype=float)
            k = len(gt) - 1
            if gt.shape != gx.shape:
                add(EQLEN, len(gt), len(gx))
            elif k < 1 or gt[0] != tw[0] or gt[-1] != tw[-1] or abs(k - span / d) > 0.5 + 1e-6 or \
                    not np.allclose(gt, tw[0] + span * (np.arange(k + 1) / k), rtol=0.0, atol=4 * ulp + 1e-12 * span):
                add(GRID, "k=%d from %r to %r" % (round(span / d), float(tw[0]), float(tw[-1])), [len(gt), head(gt[:3]), head(gt[-3:])])
            else:
                exp = ref_interp(t, x, np.clip(gt, t[0], t[-1]))
                w = np.abs(gx - exp) > 1e-9 * scale + 4 * slope * ulp
                if w.any():
                    j = int(np.argmax(w))
                    add(GRIDV, "element %d of %d (time %r): %r" % (j, len(gt), float(gt[j]), float(exp[j])), float(gx[j]))
        elif op == "alone":
            span = float(t[-1] - t[0])
            d = span / (max(2, int(r["m"])) - 1) * r.get("f", 1.0)
            if not 0 < d <= span:
                d = span
            got = attempt(lambda: np.asarray(ts.resample(dt=float(d)), dtype=float))
            if isinstance(got, str):
                add(ALONE + ": a result", "values", got)
                continue
            kmin = int(np.floor((span - (span / d + 16) * ulp) / d - 1e-9))
            kmax = int(np.ceil(span / d + 1e-9)) + 1
            if got.ndim != 1 or not (kmin + 1 <= len(got) <= kmax):
                add(ALONE + ": one value per new time", "%d .. %d values" % (kmin + 1, kmax), list(got.shape))
                continue
            rt = np.minimum(t[0] + d * np.arange(len(got)), t[-1])
            exp = ref_interp(t, x, rt)
            w = np.abs(got - exp) > 1e-9 * scale + slope * ((len(got) + 16) * ulp + 1e-12 * span)
            if w.any():
                j = int(np.argmax(w))
                add(ALONE, "element %d of %d (time %r): %r" % (j, len(got), float(rt[j]), float(exp[j])), float(got[j]))
        elif op in ("stages", "tagged"):
            if len(tw) < 200:
                continue
            span = float(tw[-1] - tw[0])
            kw = {}
            if a is not None:
                kw["twin"] = [a, b]
            if r.get("m"):
                kw["resample"] = span / (int(r["m"]) - 1)
                dt = kw["resample"]
                m = int(r["m"])
            else:
                dt = float(t[-1] - t[0]) / (n - 1)
                m = int(round(span / dt)) + 1
            if r.get("taperfrac"):
                kw["taperfrac"] = float(r["taperfrac"])
            if r.get("window_len") and r["window_len"] < m - 2:
                kw["window_len"] = int(r["window_len"])
            if op == "stages":
                if r.get("filter"):
                    nyq = 0.5 / dt
                    f1, f2 = r["fr"]
                    kw["filterargs"] = [r["filter"], f1 * nyq] + ([f2 * nyq] if r["filter"] in ("bp", "bs") else [])
                if "window_len" in kw:
                    kw["window"] = r.get("window", "rectangular")
                rr = dict(kw, via=r.get("via", "get"))
                have = [s for s, key in (("taper", "taperfrac"), ("filter", "filterargs"), ("smooth", "window_len")) if key in kw]
                if r.get("split") in have:
                    rr["split"] = r["split"]
                for oracle, e, g, _ in real_clauses({"t": t, "x": x, "requests": [rr]}):
                    add(oracle + " (long records)", e, g)
                continue
            # tag stage functions: order, the step the filter is given, the data each stage is given
            fa = {"lp": ("lp", 0.01), "hp": ("hp", 0.02), "bp": ("bp", 0.01, 0.02), "bs": ("bs", 0.01, 0.02)}.get(r.get("filter"))
            if fa:
                kw["filterargs"] = fa
            if "twin" in kw:
                kw["twin"] = tuple(kw["twin"])
            uniform = c["axis"] != "nonuniform"
            with Tags() as tg:
                got = attempt(lambda: ts.get(**kw))
                calls = list(tg.calls)
            if isinstance(got, str):
                add(ORDERED + ": a result", "time and data", got)
                continue
            gt, gx = np.asarray(got[0], dtype=float), np.asarray(got[1], dtype=float)
            if gt.shape != gx.shape:
                add(EQLEN, len(gt), len(gx))
                continue
            names = [cl[0] for cl in calls]
            want = ["taper"] * ("taperfrac" in kw) + ([{"lp": "lowpass", "hp": "highpass", "bp": "bandpass", "bs": "bandblock"}[fa[0]]] if fa else []) + \
                   ["smooth"] * ("window_len" in kw)
            if names != want:
                add(ORDERED, want, names)
                continue
            if "resample" in kw or (fa and not uniform):
                k = len(gt) - 1
                if k < 1 or gt[0] != tw[0] or gt[-1] != tw[-1] or abs(k - span / dt) > 0.5 + 1e-6:
                    add(GRID + " — before the later stages", "k=%d from %r to %r" % (round(span / dt), float(tw[0]), float(tw[-1])), [len(gt), head(gt[:3]), head(gt[-3:])])
                    continue
                base = ref_interp(t, x, np.clip(gt, t[0], t[-1]))
            else:
                if not np.array_equal(gt, tw):
                    add(WINDOW + " — before the later stages", [len(tw), head(tw[:2]), head(tw[-2:])], [len(gt), head(gt[:2]), head(gt[-2:])])
                    continue
                base = xw
            step = float(gt[1] - gt[0])
            exp = base
            if "taperfrac" in kw:
                m0 = float(np.mean(exp))
                exp = (exp - m0 + 1.0) + m0
            if fa:
                seen = [cl[1] for cl in calls if cl[0] == want[("taperfrac" in kw)]][0]
                if abs(seen - step) > 1e-9 * abs(step):
                    add(ORDERED + ": the step given to the filter", step, seen)
                    continue
                exp = 2.0 * exp + seen
            if "window_len" in kw:
                exp = exp ** 2
            w = np.abs(gx - exp) > 1e-8 * scale * scale + 16 * slope * ulp * scale
            if w.any():
                j = int(np.argmax(w))
                add(ORDERED + ": the data after the tag stages", "element %d of %d: %r" % (j, len(gt), float(exp[j])), float(gx[j]))
        got = attempt(lambda: ts.get())
        if isinstance(got, str) or not (np.array_equal(got[0], t) and np.array_equal(got[1], x)):
            add(PLAIN, [n, head(t[:3]), head(x[:3])], got if isinstance(got, str) else [len(got[0]), head(got[0][:3]), head(got[1][:3])])
            break
    return bad


def run_long(chk, helpers, corpus=()):
    rng = chk.rng
    if __import__("os").environ.get("VERIF_SKIP_LONG"):        # the check as it was before this stream (to compare what each one notices)
        return
    if chk.quick:
        sizes = [rng.choice(g) for g in QUICK_GROUPS] + [rng.choice(SIZES) for _ in range(6)]
    else:
        sizes = list(SIZES) * 10
    cases = [c for c in corpus if c.get("long")] + [gen_long(rng, n) for n in sizes]
    for c in cases:
        chk.count("long-records")
        chk.dist("long record: %d samples, %s" % (c["n"], c["axis"]))
        for r in c["requests"]:
            chk.dist("long request: %s" % r["op"])
            chk.nontriv("long %d %d %r" % (c["n"], c["seed"], r))
        _t0 = __import__("time").time()
        try:
            bad = long_clauses(c, helpers)
        except Exception as e:
            bad = [("the implementation raised where the harness did not expect it (a crash is a failing clause)", "no exception",
                    type(e).__name__ + ": " + str(e)[:120], len(c["requests"]) - 1)]
        if __import__("os").environ.get("VERIF_LONG_TIMES"):
            print("long", c["n"], c["axis"], "%.2fs" % (__import__("time").time() - _t0), file=__import__("sys").stderr)
        for oracle, exp, obs, idx in bad:
            chk.fail(oracle, dict(c, requests=c["requests"][:idx + 1]), exp, obs)


def replay_long(rp, helpers):
    inp = rp["input"]
    bad = 0
    for oracle, exp, obs, idx in long_clauses(inp, helpers):
        print("FAILS (request %d: %r):" % (idx, inp["requests"][idx]), oracle, "| expected", exp, "| observed", obs)
        bad += 1
    print("replay: %d failing clause(s)" % bad)
    return 1 if bad else 0
