"""
C15 — distribution objects are internally coherent.

Tie: translator (all closed forms of Weibull / Gumbel / GumbelMin / empirical_cdf, re-proved each run) + Float
correspondence of every method (cdf, pdf, invcdf incl. masks and defaults, mean, std, skew, kurt, median, mode, rnd).
Search: coherence clauses evaluated on the implementation: cdf monotone within [0,1], invcdf∘cdf = id, pdf = numerical
derivative of cdf, reported moments = numerical quadrature of x^k·pdf (a measurement), rnd = invcdf(uniforms), seeded.
Far tails (|x - loc| = 20 … 1e6 scales, where exp() under/overflows): cdf stays in [0,1] and monotone, the density stays finite,
non-negative and bounded by the cdf increment over one scale (mean-value form of "density = derivative of the cdf").
rnd histories: several draws on one object / two objects, seeded and unseeded mixed, scalar / int / tuple sizes, the stream
started by rnd(seed=…) or by the caller's np.random.seed: every draw is invcdf of the continued uniform stream; run twice = same.
Parameter histories on ONE object: constructed from parameters / parameters + sample / empty (GumbelMin), then re-fitted in place
(GumbelMin.fit with a new or the stored sample, every method) or through the fit classmethods (Weibull / Gumbel, called on the
instance), public parameter attributes re-assigned (all or one of them, float or int), properties read in between.  After every
step EVERY reported quantity is evaluated against the density the object has NOW, without reading any parameter: cdf(median) = 1/2,
the mode maximises pdf over the bulk, mean/std/skew/kurt = quadrature of pdf, pdf = d cdf/dx, invcdf∘cdf = id, rnd = invcdf(uniforms).
Query histories: 2-3 objects (same or different family, equal parameters spelled float / int / numpy scalar) queried in turn with a
few arrays the CALLER owns and re-uses (probabilities incl. 0, 1 and out-of-range entries; values in and below the support; float /
int / float32 / read-only / non-contiguous / 2-d ndarray, list, tuple, scalar; keyword or positional), with rejected calls in between
(invalid size / seed, non-numeric argument, unknown fit method, invalid constructor arguments, invalid scale set and restored, values
below a Weibull's location).  Every result is judged by the property's clauses against the values the caller first put into the array
(outside [0,1] -> nan, ends of the support, cdf(invcdf(p)) = p, cdf monotone in [0,1], invcdf(cdf(x)) = x, pdf = d cdf/dx, the same
entries one at a time through a fresh object), the caller's arrays are compared with a pristine copy after every step, and after every
rejected step all coherence clauses are re-evaluated on all objects.  A history runs in a worker thread with a time limit: a query
that does not return is a failing clause.
Audit round 8: stream `long` (c15_long.py) = the same clauses on ONE object queried with arrays of 999 ... 131073 probabilities / values
and asked for as many random numbers (size-conditioned code paths): special entries at the first / last elements and at / across
multiples of 1000 / 1024 / 4096 / 10000 / 65536, every element judged, the elements at the special positions tied to the model.
"""
import math

import numpy as np

from .. import core
from ..core import fbits, unfbits
from .c05 import close

USES_TRANSLATOR = True
ANCHOR_PREFIX = ("wb_", "gu_", "gm_", "ecdf_")
RULE = ("seeded parameters: loc in [-50,50], scale log-uniform [1e-2,1e2], Weibull shape in [0.5,8]; x on a grid over the bulk of "
        "the support, p in (0,1) plus 0, 1 and out-of-range values; non-trivial = every parameter set (all are non-default); "
        "distinct by (distribution, parameters); far-tail x = loc +- scale*{20,40,200,700,709,710,745,750,1e3,1e4,1e6}; rnd histories of "
        "2-5 draws (size None/int/tuple, seed given or None) on the object and a second object, started by a seeded draw or by "
        "np.random.seed; parameter histories on one object: construct (params | params+sample | empty GumbelMin) then 1-4 steps of "
        "fit (in place / classmethod on the instance; msm, lse, mle, pwm, pwm2; new or stored sample of 60-400 values drawn by "
        "inverse transform from a seeded distribution of the family), set (re-assign all / one parameter attribute, float or int), "
        "read (all properties); all coherence clauses after every step whose state has |loc| <= 1e3, scale in [1e-3,1e3], shape in "
        "[0.5,20]; query histories of 5-9 steps on 2-3 objects (same / different family, equal parameters spelled float / int / numpy "
        "scalar, positional / keyword) sharing 4 caller arrays (probabilities with 0, 1 and out-of-range entries, values in and "
        "below the support; passed as float / int / float32 / read-only ndarray, view, 2-d, list, tuple, scalar): cdf / pdf / invcdf "
        "with any array, rnd, and rejected calls (invalid size or seed, non-numeric argument, unknown fit method, invalid "
        "constructor arguments, invalid scale set and restored, values below a Weibull's location); every result judged against "
        "the values as first passed, the caller's arrays compared with a pristine copy after every step, all coherence clauses "
        "on all objects after every rejected step; each history in a worker thread with a time limit; corpus/C15 cases first; "
        "long: one object, arrays of n probabilities / values and rnd(size=n | (n/2,2) | (2,n/2) | (n,1)), n in {999,1000,1001,1023,1024,1025,"
        "4095,4096,4097,9999,10000,10001,65535,65536,65537,70001,131073} (quick: per family one <= 1025, one <= 10001, one >= 65535), entries 0 / 1 / out of "
        "range / +-1 ulp / 1e-300 / 1-2^-53 / ties and the ends of the support / median / far tails / ties at the first and last elements "
        "and at, next to and across multiples of 1000 / 1024 / 4096 / 10000 / 65536; random or sorted; ndarray / list / tuple / view / "
        "read-only / 2-d")
TAIL_K = (20.0, 40.0, 200.0, 700.0, 709.0, 710.0, 745.0, 750.0, 1e3, 1e4, 1e6)


def ext(o):
    t = o.split()
    if t[1] == "inf":
        return math.inf
    if t[1] == "nan":
        return math.nan
    return unfbits(t[1])


def make(kind, par):
    from qats.stats.weibull import Weibull
    from qats.stats.gumbel import Gumbel
    from qats.stats.gumbelmin import GumbelMin
    if kind == "wb":
        return Weibull(*par)
    if kind == "gu":
        return Gumbel(*par)
    return GumbelMin(*par)


def quad_moments(d, kind, par):
    """mean/std/skew/kurt by quadrature of the implementation's own pdf over the quantile range [1e-13, 1-1e-13]"""
    from scipy.integrate import quad
    lo = float(d.invcdf(p=[1e-13])[0])
    hi = float(d.invcdf(p=[1 - 1e-13])[0])
    med = float(d.invcdf(p=[0.5])[0])
    f = lambda x: float(d.pdf(x=[x])[0])

    def integ(g):
        pts = [med]
        a, _ = quad(lambda x: g(x) * f(x), lo, med, limit=400, epsabs=0, epsrel=1e-11)
        b, _ = quad(lambda x: g(x) * f(x), med, hi, limit=400, epsabs=0, epsrel=1e-11)
        return a + b
    m = integ(lambda x: x)
    v = integ(lambda x: (x - m) ** 2)
    s = integ(lambda x: (x - m) ** 3) / v ** 1.5
    k = integ(lambda x: (x - m) ** 4) / v ** 2
    return m, math.sqrt(v), s, k


def tail_clauses(d, kind, par):
    """far-tail clauses; returns a list of (oracle, expected, observed, x-values)"""
    loc, scale = par[0], par[1]
    K = np.array(TAIL_K)
    out = []
    sides = [(+1, loc + scale * K)] + ([] if kind == "wb" else [(-1, (loc - scale * K)[::-1])])
    for sgn, xs in sides:
        side = "upper" if sgn > 0 else "lower"
        try:
            with np.errstate(all="ignore"):
                c = np.asarray(d.cdf(x=xs), dtype=float)
                f = np.asarray(d.pdf(x=xs), dtype=float)
                # cdf increment over one scale on the side away from the mode (density is monotone there)
                inc = (np.asarray(d.cdf(x=xs), dtype=float) - np.asarray(d.cdf(x=xs - scale), dtype=float)) if sgn > 0 else \
                      (np.asarray(d.cdf(x=xs + scale), dtype=float) - np.asarray(d.cdf(x=xs), dtype=float))
        except Exception as e:
            out.append(("cdf/pdf are defined in the far %s tail" % side, "values", "%s: %s" % (type(e).__name__, e), xs.tolist()))
            continue
        if not (np.all(np.isfinite(c)) and np.all(c >= 0) and np.all(c <= 1) and np.all(np.diff(c) >= 0)):
            out.append(("cdf non-decreasing within [0,1] (far %s tail)" % side, "monotone in [0,1]", c.tolist(), xs.tolist()))
        if not (np.all(np.isfinite(f)) and np.all(f >= 0)):
            out.append(("the density is finite and non-negative in the far %s tail (derivative of a non-decreasing cdf)" % side,
                        ">= 0, finite", f.tolist(), xs.tolist()))
        elif np.all(np.isfinite(inc)) and np.any(f * scale > inc * (1 + 1e-9) + 4e-16):
            out.append(("far %s tail: pdf(x)*scale <= cdf increment over one scale away from the mode (pdf = d cdf/dx, monotone "
                        "there; slack 4e-16 for the rounding of cdf near 1)" % side, inc.tolist(), (f * scale).tolist(), xs.tolist()))
    return out


def gen_history(rng, others):
    """a history of rnd draws: [size, seed-or-None, object index]; the stream starts from a seed (caller's or first draw's)"""
    sizes = [None, 1, 3, 5, [2, 3], rng.randint(1, 9)]
    n = rng.randint(2, 5)
    gseed = rng.choice([None, 7, rng.randint(0, 2 ** 31 - 1)])
    steps = []
    for i in range(n):
        seed = rng.choice([None, None, 0, 21, rng.randint(0, 2 ** 31 - 1)])
        if i == 0 and gseed is None and seed is None:
            seed = rng.choice([0, 21, 12345])
        steps.append([rng.choice(sizes), seed, rng.choice([0, 0, 1])])
    if all(st[1] is not None for st in steps):
        steps[-1][1] = None               # at least one draw that continues the stream
    ok, op = rng.choice(others)
    return dict(global_seed=gseed, steps=steps, other=dict(dist=ok, params=list(op)))


def run_history(d, hist):
    """-> (got, expected): the draws and invcdf of the uniform stream of the governing seed, continued over the calls"""
    objs = [d, make(hist["other"]["dist"], tuple(hist["other"]["params"]))]
    rs = None
    np.random.seed(424242)                # some unrelated earlier state
    if hist["global_seed"] is not None:
        np.random.seed(hist["global_seed"])           # the caller seeds numpy's generator
        rs = np.random.RandomState(hist["global_seed"])
    got, exp = [], []
    for size, seed, who in hist["steps"]:
        size = tuple(size) if isinstance(size, list) else size
        o = objs[who]
        if seed is not None:
            rs = np.random.RandomState(seed)
            g = o.rnd(size=size, seed=seed)
        else:
            g = o.rnd(size=size) if size is not None else o.rnd()
        u = rs.random_sample(size)
        with np.errstate(all="ignore"):
            exp.append(np.asarray(o.invcdf(p=u), dtype=float))
        got.append(np.asarray(g, dtype=float))
    return got, exp


def history_clauses(d, hist):
    out = []
    try:
        g1, e1 = run_history(d, hist)
        g2, _ = run_history(d, hist)
    except Exception as e:
        return [("rnd draws succeed", "samples", "%s: %s" % (type(e).__name__, e))]
    same = lambda a, b: a.shape == b.shape and np.allclose(a, b, rtol=1e-14, atol=0, equal_nan=True)
    for i, (g, e) in enumerate(zip(g1, e1)):
        if not same(g, e):
            out.append(("rnd: draw %d of the history is invcdf of numpy's uniform stream continued from the governing seed "
                        "(seed argument of this or an earlier draw, else the caller's np.random.seed)" % i,
                        e.ravel().tolist(), g.ravel().tolist()))
            break
    if not all(a.shape == b.shape and np.array_equal(a, b, equal_nan=True) for a, b in zip(g1, g2)):
        out.append(("rnd: the same history of draws started from the same seed gives the same samples (reproducible from a seed)",
                    [a.ravel().tolist() for a in g1], [a.ravel().tolist() for a in g2]))
    return out


# ---- parameter histories on one object -------------------------------------------------------------------------------------
FIT_METHODS = dict(wb=("msm", "lse", "mle", "pwm", "pwm2"), gu=("msm", "lse", "mle", "pwm"), gm=("msm", "lse", "mle"))
STATS = ("mean", "std", "skew", "kurt", "median", "mode")


def attr_names(kind):
    """public parameter attributes, in constructor order"""
    return ("location", "scale") if kind == "gm" else (("loc", "scale", "shape") if kind == "wb" else ("loc", "scale"))


def draw_sample(kind, spec):
    """a sample by inverse transform from a seeded distribution of the same family"""
    u = np.random.RandomState(spec["seed"]).random_sample(spec["n"])
    return np.asarray(make(kind, tuple(spec["src"])).invcdf(p=u), dtype=float)


def rand_params(rng, kind):
    loc = rng.choice([0.0, round(rng.uniform(-50, 50), 3)])
    scale = round(10 ** rng.uniform(-1, 1.5), 4)
    return [loc, scale] + ([rng.choice([1.0, 2.0, 3.6, round(rng.uniform(0.8, 6), 3)])] if kind == "wb" else [])


def gen_param_history(rng, kind):
    spec = lambda: dict(src=rand_params(rng, kind), n=rng.choice([60, 150, 400]), seed=rng.randint(0, 2 ** 31 - 1))
    how = rng.choice(["params", "params+data", "params+data"] + (["empty"] if kind == "gm" else []))
    h = dict(dist=kind, check="param-history", construct=how, params=None if how == "empty" else rand_params(rng, kind),
             data=spec() if how == "params+data" else None, steps=[])
    has_data = how == "params+data"
    for i in range(rng.randint(1, 4)):
        op = "fit" if (how == "empty" and i == 0) else rng.choice(["fit", "fit", "set", "read"])
        if op == "fit":
            stored = has_data and kind == "gm" and rng.random() < 0.5     # GumbelMin.fit() re-uses the stored sample
            h["steps"].append(["fit", rng.choice(FIT_METHODS[kind]), None if stored else spec()])
            has_data = True
        elif op == "set":
            new = rand_params(rng, kind)
            if rng.random() < 0.25:
                new = [float(int(new[0])), float(max(1, int(new[1])))] + [float(max(1, int(v))) for v in new[2:]]
                new = [int(v) for v in new] if rng.random() < 0.5 else new
            names = attr_names(kind)
            which = rng.choice([list(names), list(names), [rng.choice(names)]])
            h["steps"].append(["set", {a: v for a, v in zip(names, new) if a in which}])
        else:
            h["steps"].append(["read"])
    return h


def valid_state(o, kind):
    """the object's public parameter attributes are valid parameters (finite, scale > 0, shape > 0) inside the domain the float
    tolerances are meant for: |loc| <= 1e3, scale in [1e-3, 1e3], Weibull shape in [0.5, 20] (a degenerate 3-parameter Weibull fit
    can return loc ~ -1e8, shape ~ 1e7, where the closed-form moments cancel catastrophically: not judged here)"""
    try:
        v = [float(getattr(o, a)) for a in attr_names(kind)]
    except (TypeError, ValueError, AttributeError):
        return False
    return (all(math.isfinite(x) for x in v) and abs(v[0]) <= 1e3 and 1e-3 <= v[1] <= 1e3 and
            (kind != "wb" or 0.5 <= v[2] <= 20.0))


def state_clauses(o, kind):
    """every reported quantity against the density the object has now; no parameter is read (lengths come from its quantiles).
    -> list of (oracle, expected, observed)"""
    out = []
    try:
        with np.errstate(all="ignore"):
            qs = np.array([1e-4, 0.01, 0.05, 0.1, 0.25, 0.5, 0.75, 0.9, 0.95, 0.99, 0.9999])
            xs = np.asarray(o.invcdf(p=qs), dtype=float)
            cdf = np.asarray(o.cdf(x=xs), dtype=float)
            pdf = np.asarray(o.pdf(x=xs), dtype=float)
            iqr = float(xs[6] - xs[4])
            if not (np.all(np.isfinite(xs)) and np.all(np.diff(xs) > 0)):
                return [("invcdf increasing in p", "increasing, finite", xs.tolist())]
            if np.any(np.diff(cdf) < 0) or np.any(cdf < 0) or np.any(cdf > 1):
                out.append(("cdf non-decreasing within [0,1]", "monotone in [0,1]", cdf.tolist()))
            slack = np.nan_to_num(pdf, posinf=1e300) * np.abs(xs) * 2e-14 + 1e-12
            if not np.all(np.abs(cdf - qs) <= 1e-7 * qs + slack):
                out.append(("cdf(invcdf(p)) == p", qs.tolist(), cdf.tolist()))
            # density = derivative of the cdf; the step actually taken (xp - xm) is used as the denominator
            xb = xs[2:9]
            xp, xm = xb + 1e-6 * iqr, xb - 1e-6 * iqr
            num = (np.asarray(o.cdf(x=xp), dtype=float) - np.asarray(o.cdf(x=xm), dtype=float)) / (xp - xm)
            if not np.allclose(num, pdf[2:9], rtol=2e-5, atol=0):
                out.append(("pdf is the derivative of the cdf (central difference, rel 2e-5)", num.tolist(), pdf[2:9].tolist()))
            # rnd = inverse transform of the uniforms of the seed, for the parameters the object has now
            r = np.asarray(o.rnd(size=5, seed=4711), dtype=float)
            e = np.asarray(o.invcdf(p=np.random.RandomState(4711).random_sample(5)), dtype=float)
            if not (r.shape == e.shape and np.allclose(r, e, rtol=1e-14, atol=0)):
                out.append(("rnd(seed) == invcdf(uniforms of that seed)", e.tolist(), r.tolist()))
            if kind != "wb":
                med, mode = o.median, o.mode
                if med is None or not math.isfinite(float(med)):
                    out.append(("cdf(median) == 1/2", 0.5, "median = %r" % (med,)))
                else:
                    cm = float(o.cdf(x=[float(med)])[0])
                    if not abs(cm - 0.5) <= 1e-12 + 2e-15 * float(o.pdf(x=[float(med)])[0]) * abs(float(med)):
                        out.append(("cdf(median) == 1/2", 0.5, cm))
                if mode is None or not math.isfinite(float(mode)):
                    out.append(("the reported mode maximises the density", "a finite value", "mode = %r" % (mode,)))
                else:
                    mode = float(mode)
                    grid = np.concatenate([np.asarray(o.invcdf(p=np.linspace(0.005, 0.995, 199)), dtype=float),
                                           [mode - 1e-3 * iqr, mode + 1e-3 * iqr]])
                    pg = np.asarray(o.pdf(x=grid), dtype=float)
                    pm = float(o.pdf(x=[mode])[0])
                    if not pm >= float(pg.max()) * (1 - 1e-12):
                        out.append(("the reported mode maximises the density (pdf(mode) >= pdf on 199 quantiles of the bulk and at "
                                    "mode +- 1e-3 interquartile ranges)", "pdf(mode) >= %r at x = %r" % (float(pg.max()), float(grid[int(pg.argmax())])),
                                    "mode = %r, pdf(mode) = %r" % (mode, pm)))
    except Exception as e:
        out.append(("cdf / pdf / invcdf / rnd / median / mode are defined for valid parameters", "values", "%s: %s" % (type(e).__name__, e)))
        return out
    # moments by quadrature of the object's own density
    if kind == "wb" and float(o.shape) < 0.7:
        return out        # integrable singularity at loc: quadrature too inaccurate
    try:
        with np.errstate(all="ignore"):
            qm = quad_moments(o, kind, None)
            rep = [getattr(o, a) for a in ("mean", "std", "skew", "kurt")]
        for name, a, b, t in zip(("mean", "std", "skew", "kurt"), rep, qm, (1e-6, 1e-6, 1e-5, 1e-4)):
            if a is None or not math.isfinite(float(a)):
                out.append(("reported %s is that of the density (quadrature)" % name, b, "%r" % (a,)))
                continue
            a = float(a)
            if name == "kurt" and abs(a - (b - 3.0)) <= t * max(1.0, abs(b)):
                continue    # excess kurtosis: either convention is "the kurtosis"
            if abs(a - b) > t * max(1.0, abs(b), abs(float(xs[5])) if name == "mean" else 0.0):
                out.append(("reported %s is that of the density (quadrature of x^k pdf(x) over the 1e-13 .. 1-1e-13 quantile range)" % name, b, a))
    except Exception as e:
        out.append(("the reported moments are defined for valid parameters", "values", "%s: %s" % (type(e).__name__, e)))
    return out


def run_param_history(h):
    """-> list of (step index (-1 = after construction), step, oracle, expected, observed); [] when every clause holds at every step"""
    from qats.stats.gumbelmin import GumbelMin
    kind = h["dist"]
    res = []
    try:
        if h["construct"] == "empty":
            o = GumbelMin()
        elif h["construct"] == "params+data":
            o = type(make(kind, tuple(h["params"])))(*h["params"], data=draw_sample(kind, h["data"]))
        else:
            o = make(kind, tuple(h["params"]))
    except Exception as e:
        return [(-1, ["construct"], "the distribution object can be constructed", "object", "%s: %s" % (type(e).__name__, e))]
    objs = [o]                       # Weibull / Gumbel fit returns a new object: the earlier ones must stay coherent too
    steps = [(-1, ["construct"])] + list(enumerate(h["steps"]))
    for i, st in steps:
        o = objs[-1]
        try:
            with np.errstate(all="ignore"):
                if st[0] == "fit":
                    if st[2] is None:
                        o.fit(method=st[1])                      # GumbelMin: stored sample
                    else:
                        r = o.fit(draw_sample(kind, st[2]), method=st[1])
                        if r is not None:
                            objs.append(r)
                elif st[0] == "set":
                    for a, v in st[1].items():
                        setattr(o, a, v)
                elif st[0] == "read":
                    _ = [getattr(o, a) for a in STATS if hasattr(type(o), a)]
        except Exception:
            break                    # a fit that does not converge / raises is not this property's business: the history ends
        last = objs[-1]
        for ob in (objs if i == len(h["steps"]) - 1 else [last]):
            if not valid_state(ob, kind):
                continue
            for orc, exp_, obs in state_clauses(ob, kind):
                res.append((i, st, orc + ("" if ob is last else " [object from before a later fit]"), exp_, obs))
        if res:
            break
    return res


# ---- query histories: several objects, the caller's arrays re-used, rejected calls in between ---------------------------------
# A history is {"check": "query-history", "global_seed": int, "objects": [{"dist", "params", "spell", "kw"}...],
#               "arrays": [{"values": [...], "as": spelling}...], "steps": [...], "final": object index}
# Steps (obj = object index, arr = array index):
#   ["invcdf"|"cdf"|"pdf", obj, arr, "kw"|"pos"]    query with one of the caller's arrays (any numeric array to any method)
#   ["rnd", obj, size, seed, "plain"|"np"|"pos"]     valid draw
#   ["rndbad", obj, size, seed]                      draw with an invalid size / seed                     (rejected)
#   ["junk", obj, method, junk-key]                  query with a non-numeric argument                    (rejected)
#   ["fitbad", obj, method-name]                     fit of a sample with an unknown method name          (rejected)
#   ["ctorbad", kind, args]                          construction with invalid / missing parameters       (rejected)
#   ["badscale", obj, value, method, arr]            scale set to an invalid value, one query (rejected), scale restored
#   ["read", obj]                                    the reported moments are read
# After EVERY step: the result is judged against the values the caller passed (a pristine copy), and every array of the caller
# must be unchanged.  After every rejected step and at the end: the coherence clauses on all objects of the history.
ARRAY_SPELLINGS = ("f8", "f8", "f8", "f8", "list", "tuple", "view", "2d", "i8", "f4", "ro", "scalar", "npscalar", "0d")
JUNK = {"str": "abc", "mixed": [0.1, "x"], "none-in-list": [None, 0.1], "dict": {"a": 1}, "ragged": [[0.1, 0.2], [0.3]]}
BAD_RND = ([-1, 5], [2.5, None], ["a", 3], [3, -1], [3, 2 ** 32], [3, "x"], [[2, -3], None], [-4, None])
BAD_CTOR = (["gu", [None, 1.0]], ["gu", [0.0, -1.0]], ["gu", [0.0, 0.0]], ["gu", [0.0, None]], ["gu", []], ["wb", [1.0, 2.0]],
            ["gm", [1.0, 2.0, [1.0], 4.0]], ["wb", [0.0, 1.0, 2.0, [1.0], 5.0]])
BAD_SCALE = (0, 0.0, -1.0, None, "a")
BAD_FIT = ("nope", "pwm3", "", None, 3, "lsq")
QH_LIMIT = 5.0                       # seconds allowed for one whole history (normally a few milliseconds)


def make_spelled(spec):
    """the object of a query history: parameters spelled as float / int / numpy scalars, positional or by keyword"""
    from qats.stats.weibull import Weibull
    from qats.stats.gumbel import Gumbel
    from qats.stats.gumbelmin import GumbelMin
    kind, par, sp = spec["dist"], list(spec["params"]), spec.get("spell", "float")
    conv = {"float": float, "int": int, "np": np.float64, "npint": np.int64}[sp]
    par = [conv(v) for v in par]
    cls = {"wb": Weibull, "gu": Gumbel, "gm": GumbelMin}[kind]
    if spec.get("kw"):
        return cls(**dict(zip(("loc", "scale", "shape"), par)))
    return cls(*par)


def build_arg(spec):
    """-> (argument as the caller passes it, holder = the caller's mutable object behind it or None, the values as float64)"""
    vals, how = spec["values"], spec["as"]
    if how == "list":
        a = [v for v in vals]
        return a, a, np.array(vals, dtype=float)
    if how == "tuple":
        return tuple(vals), None, np.array(vals, dtype=float)
    if how == "view":                                   # non-contiguous view of a larger array of the caller
        base = np.full(2 * len(vals), 0.5)
        base[::2] = vals
        return base[::2], base, np.array(vals, dtype=float)
    if how == "2d":
        a = np.array(vals, dtype=float).reshape(-1, 2) if len(vals) % 2 == 0 else np.array(vals, dtype=float).reshape(-1, 1)
        return a, a, a.copy()
    if how == "i8":
        a = np.array(vals, dtype=np.int64)
        return a, a, a.astype(float)
    if how == "f4":
        a = np.array(vals, dtype=np.float32)
        return a, a, a.astype(float)
    if how == "ro":
        a = np.array(vals, dtype=float)
        a.flags.writeable = False
        return a, a, a.copy()
    if how == "scalar":
        return float(vals[0]), None, np.array(float(vals[0]))
    if how == "npscalar":
        return np.float64(vals[0]), None, np.array(float(vals[0]))
    if how == "0d":
        a = np.array(float(vals[0]))
        return a, a, a.copy()
    a = np.array(vals, dtype=float)
    return a, a, a.copy()


def snapshot(holder):
    if holder is None:
        return None
    return list(holder) if isinstance(holder, list) else (holder.dtype, holder.shape, holder.copy())


def unchanged(holder, snap):
    if holder is None:
        return True
    if isinstance(holder, list):
        return len(holder) == len(snap) and all(type(a) is type(b) and a == b for a, b in zip(holder, snap))
    return holder.dtype == snap[0] and holder.shape == snap[1] and np.array_equal(holder, snap[2])


def _flt(a):
    return np.asarray(a, dtype=float)


def _each(ref, op, v):
    """the query one entry at a time on a fresh object of the same parameters"""
    kw = "p" if op == "invcdf" else "x"
    return np.array([float(_flt(getattr(ref, op)(**{kw: [float(t)]}))[0]) for t in v], dtype=float)


def q_judge(o, ref, kind, par, op, v, res, lowprec=False):
    """clauses of the property for the result of ONE query; v = the values the caller passed (float64, pristine), par as floats.
    -> list of (oracle, expected, observed).  lowprec: float32 argument, only ranges and special cases are judged."""
    out = []
    loc, scale = par[0], par[1]
    if res is None or np.shape(res) != np.shape(v):
        return [("%s returns one value per entry of the argument" % op, "shape %s" % (np.shape(v),),
                 "None" if res is None else "shape %s" % (np.shape(res),))]
    v = np.asarray(v, dtype=float).ravel()
    try:
        r = _flt(res).ravel()
    except (TypeError, ValueError):
        return [("%s returns numbers" % op, "float values", repr(res)[:120])]
    if v.size == 0:
        return out
    with np.errstate(all="ignore"):
        if op == "invcdf":
            outside, one, zero, inner = (v < 0) | (v > 1), v == 1, v == 0, (v > 0) & (v < 1)
            lo = loc if kind == "wb" else -math.inf
            at_lo = (r[zero] == lo) if not (lowprec and kind == "wb") else (np.abs(r[zero] - lo) <= 1e-6 * (abs(lo) + scale))
            if not (np.all(np.isnan(r[outside])) and np.all(r[one] == math.inf) and np.all(at_lo) and
                    not np.any(np.isnan(r[inner]))):
                exp_ = np.where(outside, math.nan, np.where(one, math.inf, np.where(zero, lo, 0.0)))
                return [("invcdf: 0 and 1 map to the ends of the support, values outside [0,1] to nan, values inside (0,1) to "
                         "quantiles", ["quantile" if i else e for e, i in zip(exp_.tolist(), inner.tolist())], r.tolist())]
            if inner.any() and not lowprec:
                xi, qi = r[inner], v[inner]
                c, f = _flt(o.cdf(x=xi)), _flt(o.pdf(x=xi))
                slack = np.nan_to_num(f, nan=0.0, posinf=1e300) * (np.abs(np.nan_to_num(xi, neginf=0.0)) + abs(loc)) * 2e-14 + 1e-12
                if not np.all(np.abs(c - qi) <= 1e-7 * qi + slack):
                    out.append(("cdf(invcdf(p)) == p", qi.tolist(), c.tolist()))
            if lowprec:
                return out                   # float32 probabilities: 1 - p and log(p) are rounded to 6e-8, only the special cases are judged
            e = _each(ref, op, v)
            if not np.allclose(r, e, rtol=1e-11, atol=1e-12 * (abs(loc) + scale), equal_nan=True):
                out.append(("invcdf(p) is a function of the parameters and the probability only (same entries one at a time through "
                            "a fresh object of the same parameters)", e.tolist(), r.tolist()))
            return out
        if kind == "wb" and np.any(v < loc):
            return out                       # values below the support: the Weibull cdf / pdf are not defined there, nothing judged
        c = r if op == "cdf" else _flt(o.cdf(x=v)).ravel()
        if op == "cdf":
            order = np.argsort(v, kind="stable")
            if not (np.all(np.isfinite(r)) and np.all(r >= 0) and np.all(r <= 1) and np.all(np.diff(r[order]) >= (-1e-6 if lowprec else -1e-15))):
                return [("cdf non-decreasing within [0,1]", "monotone in x, in [0,1]", dict(x=v[order].tolist(), cdf=r[order].tolist()))]
            sel = (r >= 1e-4) & (r <= 1 - 1e-4)
            if sel.any() and not lowprec:
                back = _flt(o.invcdf(p=r[sel]))
                if not np.allclose(back, v[sel], rtol=1e-6, atol=1e-9 * scale):
                    out.append(("invcdf(cdf(x)) == x", v[sel].tolist(), back.tolist()))
        else:
            if np.any(np.isnan(r)) or np.any(r < 0):
                return [("the density is defined and non-negative", ">= 0", r.tolist())]
            h = 1e-6 * scale
            sel = (c >= 0.02) & (c <= 0.98) & ((v - h >= loc) if kind == "wb" else True)
            if sel.any() and not lowprec:
                xp, xm = v[sel] + h, v[sel] - h
                num = (_flt(o.cdf(x=xp)) - _flt(o.cdf(x=xm))) / (xp - xm)
                if not np.allclose(num, r[sel], rtol=2e-5, atol=0):
                    out.append(("pdf is the derivative of the cdf (central difference, rel 2e-5)", num.tolist(), r[sel].tolist()))
        if not lowprec:
            e = _each(ref, op, v)
            if not np.allclose(r, e, rtol=1e-11, atol=4e-16 if op == "cdf" else 1e-300, equal_nan=True):
                out.append(("%s(x) is a function of the parameters and the value only (same entries one at a time through a fresh "
                            "object of the same parameters)" % op, e.tolist(), r.tolist()))
    return out


def moments_of(o, kind):
    names = ("mean", "std", "skew", "kurt") + (() if kind == "wb" else ("median", "mode"))
    return names, [getattr(o, a) for a in names]


def read_clauses(o, ref, kind):
    """the reported quantities are those of the density = a function of the parameters only (fresh object, same parameters)"""
    names, got = moments_of(o, kind)
    _, exp_ = moments_of(ref, kind)
    bad = [n for n, a, b in zip(names, got, exp_) if a is None or not close(float(a), float(b), 1e-12)]
    if bad:
        return [("reported %s are those of the density of the object's parameters (equal to a fresh object of the same parameters)"
                 % "/".join(bad), [float(b) for b in exp_], [None if a is None else float(a) for a in got])]
    return []


LIGHT_Q = np.array([1e-4, 0.01, 0.25, 0.5, 0.75, 0.99, 0.9999])


def light_clauses(o, ref, kind, par):
    """the cheap coherence clauses on one object (no quadrature); numpy's global random state is put back afterwards"""
    out = []
    saved = np.random.get_state()
    try:
        with np.errstate(all="ignore"):
            pe = np.array([0.0, 1.0, -0.5, 1.5, 0.3])
            out += q_judge(o, ref, kind, par, "invcdf", pe, o.invcdf(p=pe.copy()))
            xs = _flt(o.invcdf(p=LIGHT_Q.copy()))
            out += q_judge(o, ref, kind, par, "invcdf", LIGHT_Q, xs)
            if np.all(np.isfinite(xs)) and not np.all(np.diff(xs) > 0):
                out.append(("invcdf increasing in p", "increasing", xs.tolist()))
            if np.all(np.isfinite(xs)):
                out += q_judge(o, ref, kind, par, "cdf", xs, o.cdf(x=xs.copy()))
                out += q_judge(o, ref, kind, par, "pdf", xs, o.pdf(x=xs.copy()))
            r = _flt(o.rnd(size=3, seed=99))
            e = _flt(o.invcdf(p=np.random.RandomState(99).random_sample(3)))
            if not (r.shape == e.shape and np.allclose(r, e, rtol=1e-14, atol=0)):
                out.append(("rnd(seed) == invcdf(uniforms of that seed)", e.tolist(), r.tolist()))
            out += read_clauses(o, ref, kind)
    except Exception as e:
        out.append(("cdf / pdf / invcdf / rnd / moments are defined for valid parameters", "values", "%s: %s" % (type(e).__name__, e)))
    finally:
        np.random.set_state(saved)
    return out


def gen_query_history(rng):
    kinds = ["wb", "gu", "gm"]
    objs, same = [], False
    whole = lambda par: [float(round(par[0])), float(max(1, round(par[1])))] + [float(max(1, round(v))) for v in par[2:]]
    for i in range(rng.randint(2, 3)):
        if i == 1 and rng.random() < 0.5:
            kind = objs[0]["dist"]                                   # a second object of the same class ...
            same = rng.random() < 0.5                                # ... of equal (spelled differently) or of other parameters
            par = list(objs[0]["params"]) if same else rand_params(rng, kind)
        else:
            kind = rng.choice(kinds)
            par = rand_params(rng, kind)
        sp = rng.choice(["float", "float", "float", "np", "int", "npint"])
        if same and i == 1 and sp == objs[0]["spell"]:
            sp = rng.choice([x for x in ("float", "np", "int", "npint") if x != sp])
        objs.append(dict(dist=kind, params=par, spell=sp, kw=rng.random() < 0.25))
    ints = [ob["spell"] in ("int", "npint") for ob in objs]
    for i, ob in enumerate(objs):                                    # int spellings need whole numbers
        if ints[i] or (same and i < 2 and (ints[0] or ints[1])):
            ob["params"] = whole(ob["params"])
    o0 = objs[0]
    loc0, sc0 = o0["params"][0], o0["params"][1]
    inner = lambda: rng.choice([1e-6, 0.5, 1 - 1e-6, round(rng.random(), 6), round(rng.random(), 6), round(rng.random(), 6)])
    outer = lambda: rng.choice([-0.25, 1.5, -1e-9, 1 + 1e-9, 2.0, -1.0, 1e6, -3.5])

    def values(role, how):
        n = rng.choice([2, 4, 4, 6, 7])
        if how == "2d" and n % 2:
            n += 1
        if how == "i8":
            pool = [0, 1, 1, 0, -1, 2] if role != "x" else [int(round(loc0 + sc0 * t)) for t in (-2, 0, 1, 2, 3, 5)]
            return [int(rng.choice(pool)) for _ in range(n)]
        if role == "p-valid":
            return [inner() for _ in range(n)]
        if role == "p-ends":
            return [rng.choice([0.0, 1.0, inner()]) for _ in range(n)]
        if role == "p-out":
            v = [rng.choice([inner(), inner(), 0.0, 1.0, outer(), outer()]) for _ in range(n)]
            v[rng.randrange(n)] = outer()
            return v
        if role == "x-bulk":                                          # inside the support of every family at these parameters
            return [round(loc0 + sc0 * rng.uniform(0.05, 3.0), 6) for _ in range(n)]
        return [round(loc0 + sc0 * rng.uniform(-4.0, 6.0), 6) for _ in range(n)]      # x-wide: also below a Weibull's location
    roles = ["p-out", rng.choice(["p-valid", "p-ends", "p-out"]), "x-bulk", rng.choice(["x-wide", "x-bulk", "p-out"])]
    arrays = []
    for k, role in enumerate(roles):
        how = "f8" if (k == 0 and rng.random() < 0.6) else rng.choice(ARRAY_SPELLINGS)
        arrays.append(dict(values=values(role, how), **{"as": how}))
    steps = []
    hot = rng.randrange(len(arrays))
    arr = lambda: hot if rng.random() < 0.4 else rng.randrange(len(arrays))
    ob = lambda: rng.randrange(len(objs))
    ops = ["invcdf"] * 6 + ["cdf"] * 3 + ["pdf"] * 3 + ["rnd"] * 2 + ["rndbad", "junk", "fitbad", "ctorbad", "badscale", "read"]
    for _ in range(rng.randint(5, 9)):
        op = rng.choice(ops)
        if op in ("invcdf", "cdf", "pdf"):
            steps.append([op, ob(), arr(), rng.choice(["kw", "kw", "pos"])])
        elif op == "rnd":
            steps.append(["rnd", ob(), rng.choice([None, 0, 1, 3, 5, [2, 3]]), rng.choice([None, None, 0, 21, rng.randint(0, 2 ** 31 - 1)]),
                          rng.choice(["plain", "plain", "np", "pos"])])
        elif op == "rndbad":
            steps.append(["rndbad", ob()] + list(rng.choice(BAD_RND)))
        elif op == "junk":
            steps.append(["junk", ob(), rng.choice(["invcdf", "cdf", "pdf"]), rng.choice(sorted(JUNK))])
        elif op == "fitbad":
            steps.append(["fitbad", ob(), rng.choice(BAD_FIT)])
        elif op == "ctorbad":
            steps.append(["ctorbad"] + list(rng.choice(BAD_CTOR)))
        elif op == "badscale":
            steps.append(["badscale", ob(), rng.choice(BAD_SCALE), rng.choice(["invcdf", "cdf", "pdf"]), arr()])
        else:
            steps.append(["read", ob()])
    return dict(check="query-history", global_seed=rng.choice([7, rng.randint(0, 2 ** 31 - 1)]), objects=objs, arrays=arrays,
                steps=steps, final=rng.randrange(len(objs)))


def _query_history_body(h, prog, res):
    import contextlib
    import io
    specs = h["objects"]
    kinds = [s["dist"] for s in specs]
    pars = [tuple(float(v) for v in s["params"]) for s in specs]
    try:
        objs = [make_spelled(s) for s in specs]
        refs = [make(k, p) for k, p in zip(kinds, pars)]
    except Exception as e:
        res.append((-1, ["construct"], "the distribution objects can be constructed from valid parameters", "objects", "%s: %s" % (type(e).__name__, e)))
        return
    built = [build_arg(a) for a in h["arrays"]]
    snaps = [snapshot(b[1]) for b in built]
    altered = set()
    np.random.seed(h["global_seed"])                         # the caller seeds numpy's generator
    rs = np.random.RandomState(h["global_seed"])
    sample = np.array([0.3, 1.1, 0.7, 2.4, 1.9, 0.2, 1.4, 3.3, 0.9, 1.6, 2.8, 0.5])

    def coherent(i, st, which):
        for j in which:
            for orc, e_, g_ in light_clauses(objs[j], refs[j], kinds[j], pars[j]):
                res.append((i, st, "afterwards, object %d (%s%s): %s" % (j, kinds[j], list(pars[j]), orc), e_, g_))
    n = len(h["steps"])
    for i, st in enumerate(h["steps"]):
        prog["step"], prog["what"] = (i, st), "the call of"
        op = st[0]
        rejected = False
        if op in ("invcdf", "cdf", "pdf"):
            j, k = st[1], st[2]
            o, (arg, holder, vals) = objs[j], built[k]
            kw = "p" if op == "invcdf" else "x"
            below = kinds[j] == "wb" and op != "invcdf" and bool(np.any(vals < pars[j][0]))
            try:
                with np.errstate(all="ignore"):
                    r = getattr(o, op)(arg) if st[3] == "pos" else getattr(o, op)(**{kw: arg})
            except Exception as e:
                rejected = True
                if not below:
                    res.append((i, st, "%s is defined for valid parameters and every numeric argument (probabilities outside [0,1] -> nan)" % op,
                                "values", "%s: %s" % (type(e).__name__, e)))
            else:
                try:
                    for orc, e_, g_ in q_judge(o, refs[j], kinds[j], pars[j], op, vals, r, lowprec=h["arrays"][k]["as"] == "f4"):
                        res.append((i, st, "%s of the caller's array %d (values as first passed: %s): %s" % (op, k, h["arrays"][k]["values"], orc), e_, g_))
                except Exception as e:
                    res.append((i, st, "cdf / pdf / invcdf are defined for valid parameters", "values", "%s: %s" % (type(e).__name__, e)))
        elif op == "rnd":
            j, size, seed, sp = st[1], st[2], st[3], st[4]
            o = objs[j]
            size = tuple(size) if isinstance(size, list) else size
            a_size = np.int64(size) if (sp == "np" and isinstance(size, int)) else size
            a_seed = np.int64(seed) if (sp == "np" and seed is not None) else seed
            try:
                with np.errstate(all="ignore"):
                    if sp == "pos":
                        g = o.rnd(a_size, a_seed)
                    elif seed is None:
                        g = o.rnd(size=a_size) if size is not None else o.rnd()
                    else:
                        g = o.rnd(size=a_size, seed=a_seed)
                    if seed is not None:
                        rs = np.random.RandomState(seed)
                    if rs is not None:
                        u = rs.random_sample(size)
                        e = _flt(o.invcdf(p=u))
                        g = _flt(g)
                        if not (g.shape == e.shape and np.allclose(g, e, rtol=1e-14, atol=0, equal_nan=True)):
                            res.append((i, st, "rnd: the draw is invcdf of numpy's uniform stream continued from the governing seed (seed "
                                        "argument of this or an earlier draw, else the caller's np.random.seed)", e.ravel().tolist(), g.ravel().tolist()))
                        res.extend((i, st, "rnd: " + orc, e_, g_) for orc, e_, g_ in
                                   q_judge(o, refs[j], kinds[j], pars[j], "invcdf", np.asarray(u, dtype=float), g))
            except Exception as e:
                rejected = True
                res.append((i, st, "rnd draws succeed for a valid size and seed", "samples", "%s: %s" % (type(e).__name__, e)))
        else:
            rejected = True
            buf = io.StringIO()
            try:
                with contextlib.redirect_stdout(buf), np.errstate(all="ignore"):
                    if op == "rndbad":
                        size = tuple(st[2]) if isinstance(st[2], list) else st[2]
                        objs[st[1]].rnd(size=size, seed=st[3])
                    elif op == "junk":
                        getattr(objs[st[1]], st[2])(JUNK[st[3]])
                    elif op == "fitbad":
                        objs[st[1]].fit(sample * pars[st[1]][1] + pars[st[1]][0], method=st[2])
                    elif op == "ctorbad":
                        make(st[1], tuple(st[2]))
                    elif op == "badscale":
                        o = objs[st[1]]
                        keep = o.scale
                        try:
                            o.scale = st[2]
                            getattr(o, st[3])(built[st[4]][0])
                        finally:
                            o.scale = keep
                    elif op == "read":
                        rejected = False
                        for orc, e_, g_ in read_clauses(objs[st[1]], refs[st[1]], kinds[st[1]]):
                            res.append((i, st, orc, e_, g_))
            except Exception:
                pass
            if op in ("rndbad",):
                rs = None                 # the stream after a rejected draw is not specified: the next draw must carry a seed
        # the caller's arrays are what they were
        for k, (b, sn) in enumerate(zip(built, snaps)):
            if k not in altered and not unchanged(b[1], sn):
                altered.add(k)
                now = b[1] if isinstance(b[1], list) else b[1].tolist()
                res.append((i, st, "a query leaves the caller's argument array as it was (array %d, passed as %s): the next query of the "
                            "history sees the values the caller put there" % (k, h["arrays"][k]["as"]),
                            sn if isinstance(sn, list) else sn[2].tolist(), now))
        prog["what"] = "the queries following"
        if rejected or i == n - 1:
            coherent(i, st, range(len(objs)))
        if len(res) >= 6:
            return
    # every reported quantity against the density the object has now (quadrature), on one object of the history
    j = h.get("final", 0)
    if not res and valid_state(objs[j], kinds[j]):
        for orc, e_, g_ in state_clauses(objs[j], kinds[j]):
            res.append((n - 1, ["final", j], "at the end of the history, object %d: %s" % (j, orc), e_, g_))


def run_query_history(h, limit=QH_LIMIT):
    """-> list of (step index, step, oracle, expected, observed).  The history runs in a worker thread: a query that does not return
    within the time limit is a failing clause, never a hanging check."""
    import sys
    import threading
    prog, res, box = {"step": (-1, ["construct"]), "what": "the call of"}, [], {}

    def work():
        try:
            _query_history_body(h, prog, res)
        except BaseException as e:                # noqa: a harness-side surprise becomes a failing clause, not a crash
            box["exc"] = e
    out0 = sys.stdout
    state0 = np.random.get_state()
    t = threading.Thread(target=work, daemon=True)
    t.start()
    t.join(limit)
    sys.stdout = out0
    if t.is_alive():
        i, st = prog["step"]
        return list(res) + [(i, st, "every query of the history returns (time limit %g s for the whole history)" % limit, "a result or an exception",
                             "%s step %d %r has not returned" % (prog["what"], i, st))]
    np.random.set_state(state0)
    if "exc" in box:
        i, st = prog["step"]
        res.append((i, st, "the queries of the history are defined for valid parameters", "values", "%s: %s" % (type(box["exc"]).__name__, box["exc"])))
    return list(res)


def run(chk):
    chk.extra["rule"] = RULE
    chk.partial += ["Gumbel / GumbelMin mean: proved to be loc +/- gamma*scale for the generated density (gu_density_mean, gm_density_mean) "
                    "and loc +/- c*scale for the reported value (gu_gm_mean_shape); that the literal c equals the Euler-Mascheroni "
                    "constant to double precision is a numerical comparison with numpy.euler_gamma (Mathlib proves 1/2 < gamma < 2/3 only)",
                    "Gumbel / GumbelMin std, skew, kurt constants (pi/sqrt 6, zeta(3), 12/5): checked "
                    "against numerical quadrature of the implementation's density, not proved (Mathlib lacks the second and higher "
                    "derivatives of Gamma at 1)"]
    chk.assumptions += ["float tolerance 1e-9 relative for formula correspondence (Lanczos gamma vs scipy: <= 1e-13)",
                        "numerical derivative/quadrature tolerances: 1e-5 / 1e-6 relative (measurements)"]
    rng = chk.rng
    drv = core.Driver()
    from .c15_strict import run_strict
    run_strict(chk)             # inverse cdf with numpy raising on floating-point errors and warnings as errors
    N = 60 if chk.quick else 600
    cases = [("wb", (0.0, 1.0, 2.0)), ("gm", (1.0, 2.0)), ("gu", (0.0, 1.0))]
    corpus = core.load_corpus("C15")
    for c in corpus:
        if c.get("check") in ("param-history", "query-history", "long", "strict"):
            continue
        key = (c["dist"], tuple(float(v) for v in c["params"]))
        if key not in cases:
            cases.append(key)
    for _ in range(N):
        kind = rng.choice(["wb", "gu", "gm"])
        loc = rng.choice([0.0, round(rng.uniform(-50, 50), 3)])
        scale = round(10 ** rng.uniform(-2, 2), 4)
        if kind == "wb":
            cases.append((kind, (loc, scale, rng.choice([0.5, 1.0, 2.0, 3.6, round(rng.uniform(0.5, 8), 3)]))))
        else:
            cases.append((kind, (loc, scale)))
    lines, meta = [], []

    def ask(line, m):
        lines.append(line)
        meta.append(m)
    for kind, par in cases:
        d = make(kind, par)
        P = " ".join(fbits(v) for v in par)
        loc, scale = par[0], par[1]
        # grid over the bulk of the support
        qs = [1e-6, 0.01, 0.1, 0.3, 0.5, 0.7, 0.9, 0.99, 1 - 1e-6] + [rng.random() for _ in range(3)]
        xs = [float(v) for v in d.invcdf(p=qs)]
        if kind == "wb":
            xs.append(loc)
        # far tails: exp() underflow / overflow region (both sides where the support is unbounded)
        kt = rng.choice(TAIL_K)
        xs += [loc + 30.0 * scale, loc + kt * scale] + ([] if kind == "wb" else [loc - 30.0 * scale, loc - kt * scale])
        # generated parameter order is alphabetical
        for x in xs:
            if kind == "wb":
                ask("gen.wb_cdf %s %s" % (P, fbits(x)), (kind, par, "cdf", x))
                ask("gen.wb_pdf %s %s" % (P, fbits(x)), (kind, par, "pdf", x))
            elif kind == "gu":
                ask("gen.gu_cdf %s %s" % (P, fbits(x)), (kind, par, "cdf", x))
                ask("gen.gu_pdf %s %s" % (P, fbits(x)), (kind, par, "pdf", x))
            else:
                ask("gen.gm_cdf %s %s" % (P, fbits(x)), (kind, par, "cdf", x))
                ask("gen.gm_pdf %s %s" % (P, fbits(x)), (kind, par, "pdf", x))
        for p in qs + [0.0, 1.0, -0.1, 1.5]:
            ask("dist.invcdf %s %s %s" % (kind, P, fbits(p)), (kind, par, "invcdf", p))
        if kind == "wb":
            ask("gen.wb_mean %s" % P, (kind, par, "mean", None))
            ask("gen.wb_std %s %s" % (fbits(par[1]), fbits(par[2])), (kind, par, "std", None))
            ask("gen.wb_skew %s" % fbits(par[2]), (kind, par, "skew", None))
            ask("gen.wb_kurt %s" % fbits(par[2]), (kind, par, "kurt", None))
        else:
            g = kind
            ask("gen.%s_mean %s" % (g, P), (kind, par, "mean", None))
            ask("gen.%s_median %s" % (g, P), (kind, par, "median", None))
            ask("gen.%s_mode %s" % (g, fbits(loc)), (kind, par, "mode", None))
            ask("gen.%s_std %s" % (g, fbits(scale)), (kind, par, "std", None))
            ask("gen.%s_skew" % g, (kind, par, "skew", None))
            ask("gen.%s_kurt" % g, (kind, par, "kurt", None))
    outs = drv.run(lines)
    objs = {}
    for (kind, par, what, arg), o in zip(meta, outs):
        d = objs.setdefault((kind, par), make(kind, par))
        chk.count("dist." + what)
        inp = dict(dist=kind, params=par, method=what, arg=arg)
        if what in ("cdf", "pdf"):
            with np.errstate(all="ignore"):
                im = float(getattr(d, what)(x=[arg])[0])
            mv = ext(o)
        elif what == "invcdf":
            with np.errstate(all="ignore"):
                im = float(d.invcdf(p=[arg])[0])
            mv = ext(o)
        else:
            im = float(getattr(d, what))
            mv = unfbits(o.split()[1])
        chk.dist("%s.%s" % (kind, what))
        if not close(mv, im, 1e-9):
            # IEEE detail outside the real-number model: Gumbel invcdf(0) = -inf via log(0)
            if what == "invcdf" and arg == 0.0 and kind in ("gu", "gm") and im == -math.inf and mv == -math.inf:
                continue
            chk.disagree("dist.%s.%s" % (kind, what), inp, mv, im)
    # ---- coherence oracles on the implementation ---------------------------------------------------------------------
    for kind, par in cases:
        d = objs[(kind, par)]
        chk.nontriv((kind, par))
        inp = dict(dist=kind, params=par)
        qs = np.array(sorted([1e-4, 0.01, 0.1, 0.25, 0.5, 0.75, 0.9, 0.99, 0.9999] + [rng.random() for _ in range(5)]))
        xs = d.invcdf(p=qs)
        cdf = d.cdf(x=xs)
        chk.count("coherence")
        if np.any(np.diff(xs) <= 0):
            chk.fail("invcdf increasing in p", inp, "increasing", xs.tolist())
        if np.any(np.diff(cdf) < 0) or np.any(cdf < 0) or np.any(cdf > 1):
            chk.fail("cdf non-decreasing within [0,1]", inp, "monotone in [0,1]", cdf.tolist())
        with np.errstate(all="ignore"):
            slack = np.nan_to_num(d.pdf(x=xs), posinf=1e300) * (np.abs(xs) + abs(par[0])) * 1e-14 + 1e-12
        if np.any(np.abs(cdf - qs) > 1e-7 * qs + slack):
            chk.fail("cdf(invcdf(p)) == p", inp, qs.tolist(), cdf.tolist())
        back = d.invcdf(p=cdf)
        if not np.allclose(back, xs, rtol=1e-6, atol=1e-9 * par[1]):
            chk.fail("invcdf(cdf(x)) == x", inp, xs.tolist(), back.tolist())
        with np.errstate(all="ignore"):
            ends = d.invcdf(p=[0.0, 1.0, -0.5, 1.5])
        lo_exp = par[0] if kind == "wb" else -math.inf
        if not (ends[0] == lo_exp and ends[1] == math.inf and math.isnan(ends[2]) and math.isnan(ends[3])):
            chk.fail("invcdf: 0 and 1 map to the ends of the support, values outside [0,1] to nan", inp,
                     [lo_exp, math.inf, "nan", "nan"], ends.tolist())
        # density = derivative of the cdf (central differences on the bulk)
        xb = d.invcdf(p=np.array([0.05, 0.2, 0.5, 0.8, 0.95]))
        h = 1e-6 * par[1]
        num = (d.cdf(x=xb + h) - d.cdf(x=xb - h)) / (2 * h)
        pdf = d.pdf(x=xb)
        if not np.allclose(num, pdf, rtol=2e-5, atol=0):
            chk.fail("pdf is the derivative of the cdf (central difference, rel 2e-5)", inp, num.tolist(), pdf.tolist())
        # defaults
        try:
            c0, p0 = d.cdf(), d.pdf()
            ok = len(c0) == 100 and len(p0) == 100 and len(d.invcdf()) == 100
        except Exception as e:
            ok = False
            c0 = type(e).__name__
        if not ok:
            chk.fail("cdf()/pdf()/invcdf() without argument evaluate on a default grid", inp, "100 values", str(c0)[:80])
        # rnd: inverse transform of uniforms, reproducible
        for sd in (12345, 0, rng.randint(1, 2 ** 31 - 1)):
            np.random.seed(999)            # a different global state before each call: only the given seed may matter
            r1 = d.rnd(size=7, seed=sd)
            np.random.seed(777)
            r2 = d.rnd(size=7, seed=sd)
            u = np.random.RandomState(sd).random_sample(7)
            if not (np.array_equal(r1, r2) and np.allclose(r1, d.invcdf(p=u), rtol=1e-14)):
                chk.fail("rnd(seed) == invcdf(uniforms of that seed), reproducible", dict(inp, seed=sd), d.invcdf(p=u).tolist(), r1.tolist())
                break
        # rnd histories: several draws on this object and a second one, seeded / unseeded, different sizes
        hists = [dict(h) for c in corpus if c.get("check") == "rnd-history" and (c["dist"], tuple(c["params"])) == (kind, par)
                 for h in [{k: c[k] for k in ("global_seed", "steps", "other")}]]
        hists += [gen_history(rng, cases) for _ in range(2 if chk.quick else 4)]
        for h in hists:
            chk.count("rnd-history")
            chk.dist("rnd-history:%s" % ("caller-seeded" if h["global_seed"] is not None else "first-draw-seeded"))
            for orc, exp_, obs in history_clauses(d, h):
                chk.fail(orc, dict(inp, check="rnd-history", **h), exp_, obs)
        # far tails
        chk.count("far-tails")
        for orc, exp_, obs, xt in tail_clauses(d, kind, par):
            chk.fail(orc, dict(inp, check="tails"), exp_, obs, x=xt)
        # density at the lower end of the Weibull support (first point of the default grid)
        if kind == "wb" and par[2] >= 1.0:
            with np.errstate(all="ignore"):
                p_loc = float(d.pdf(x=[par[0]])[0])
            exp_loc = 1.0 / par[1] if par[2] == 1.0 else 0.0
            if not (np.isfinite(p_loc) and abs(p_loc - exp_loc) <= 1e-12 * max(1.0, exp_loc)) or not np.all(np.isfinite(d.pdf())):
                chk.fail("the density is defined on the whole support, also at x = loc (1/scale for shape 1, 0 for shape > 1)", inp, exp_loc, p_loc)
        # the reported moments follow the instance's parameters (re-assigning a public parameter attribute)
        fresh_par = (par[0] + 1.5, par[1] * 2.0) + ((par[2] * 1.5 + 0.25,) if kind == "wb" else ())
        d2 = make(kind, par)
        _ = (d2.mean, d2.std, d2.skew, d2.kurt)
        if kind == "gm":
            d2.location, d2.scale = fresh_par
        else:
            d2.loc, d2.scale = fresh_par[0], fresh_par[1]
            if kind == "wb":
                d2.shape = fresh_par[2]
        ref = make(kind, fresh_par)
        names = ("mean", "std", "skew", "kurt") + (() if kind == "wb" else ("median", "mode"))
        got = [float(getattr(d2, a)) for a in names]
        exp = [float(getattr(ref, a)) for a in names]
        if not all(close(a, b, 1e-12) for a, b in zip(got, exp)) or not np.allclose(d2.cdf(x=ref.invcdf(p=[0.3, 0.6])), [0.3, 0.6], rtol=1e-9):
            chk.fail("reported moments, median and mode are those of the density of the instance's current parameters (public parameter "
                     "attributes re-assigned)", dict(inp, reassigned=fresh_par), exp, got)
        # median / mode
        if kind != "wb":
            if not close(float(d.cdf(x=[d.median])[0]), 0.5, 1e-12):
                chk.fail("cdf(median) == 1/2", inp, 0.5, float(d.cdf(x=[d.median])[0]))
            m = d.mode
            around = d.pdf(x=[m - 1e-3 * par[1], m, m + 1e-3 * par[1]])
            if not (around[1] >= around[0] and around[1] >= around[2]):
                chk.fail("mode maximises the density", inp, "pdf(mode) >= neighbours", around.tolist())
    # ---- parameter histories on one object: every reported quantity against the density the object has after each step -----
    hs = [dict(c) for c in corpus if c.get("check") == "param-history"]
    nh = 36 if chk.quick else 300
    hs += [gen_param_history(rng, ("gm", "gu", "wb")[i % 3]) for i in range(nh)]
    for h in hs:
        chk.count("param-history")
        chk.nontriv(("param-history", h["dist"], h["construct"], tuple(st[0] + (":" + st[1] if st[0] == "fit" else "") for st in h["steps"])))
        chk.dist("param-history:%s:%s" % (h["dist"], h["construct"]))
        for st in h["steps"]:
            chk.dist("param-history-step:%s" % st[0])
        bad = run_param_history(h)
        for i, st, orc, exp_, obs in bad[:3]:
            chk.fail("after step %d (%s) of a history on one %s object: %s" % (i, st[0] + (" " + st[1] if st[0] == "fit" else ""),
                     {"wb": "Weibull", "gu": "Gumbel", "gm": "GumbelMin"}[h["dist"]], orc), h, exp_, obs, step=i)
    # the literal behind the reported Gumbel means against the Euler-Mascheroni constant (see theorem gu_gm_mean_shape)
    from qats.stats import gumbel as _gumbel_mod, gumbelmin as _gumbelmin_mod
    for modname, mod, sign in (("gumbel", _gumbel_mod, 1.0), ("gumbelmin", _gumbelmin_mod, -1.0)):
        cls = mod.Gumbel if sign > 0 else mod.GumbelMin
        chk.count("euler-constant")
        cval = sign * (float(cls(0.0, 1.0).mean) - 0.0)
        if not abs(cval - float(np.euler_gamma)) <= 1e-15:
            chk.fail("reported mean of the standard distribution is (+/-) the Euler-Mascheroni constant", dict(dist="gu" if sign > 0 else "gm",
                     params=(0.0, 1.0)), float(np.euler_gamma), cval, moment="mean")
    # moments by quadrature (measurement; fewer cases, it is slow)
    sub = cases[:3] + rng.sample(cases[3:], min(len(cases) - 3, 12 if chk.quick else 120))
    for kind, par in sub:
        if kind == "wb" and par[2] < 0.7:
            continue    # integrable singularity of the density at loc for shape < 1: quadrature too inaccurate
        d = objs[(kind, par)]
        chk.count("moments-quadrature")
        qm = quad_moments(d, kind, par)
        rep = (float(d.mean), float(d.std), float(d.skew), float(d.kurt))
        inp = dict(dist=kind, params=par)
        tol = (1e-6, 1e-6, 1e-5, 1e-4)
        for name, a, b, t in zip(("mean", "std", "skew", "kurt"), rep, qm, tol):
            if name == "kurt" and abs(a - (b - 3.0)) <= t * max(1.0, abs(b)):
                chk.dist("kurt-convention:excess(%s)" % kind)
                continue        # excess kurtosis (Fisher) — the Gumbel classes report 12/5; either convention is "the kurtosis"
            if abs(a - b) > t * max(1.0, abs(b), abs(par[0]) if name == "mean" else 0.0):
                chk.fail("reported %s is that of the density (quadrature)" % name, inp, b, a, moment=name)
    chk.sample(dict(dist="wb", params=(0.0, 1.0, 2.0), kurt=float(make("wb", (0.0, 1.0, 2.0)).kurt)))
    # ---- empirical cdf -------------------------------------------------------------------------------------------------
    from qats.stats.empirical import empirical_cdf
    el, em = [], []
    for n in [1, 2, 3, 10, 57]:
        for kind in ("mean", "median", "symmetrical", "beard", "gringorten"):
            f = empirical_cdf(n, kind=kind)
            chk.count("ecdf")
            if not (len(f) == n and np.all(f > 0) and np.all(f < 1) and np.all(np.diff(f) > 0)):
                chk.fail("plotting positions strictly inside (0,1) and increasing", dict(n=n, kind=kind), "in (0,1)", f.tolist()[:5])
            for i in (1, n):
                el.append("gen.ecdf_%s %s %s" % (kind, fbits(float(i)), fbits(float(n))))
                em.append((n, kind, i, float(f[i - 1])))
    for (n, kind, i, v), o in zip(em, drv.run(el)):
        if not close(unfbits(o.split()[1]), v, 1e-14):
            chk.disagree("ecdf_" + kind, dict(n=n, i=i), unfbits(o.split()[1]), v)

    # ---- query histories: the caller's arrays re-used over several objects, rejected calls in between -------------------------
    qhs = [dict(c) for c in corpus if c.get("check") == "query-history"]
    qhs += [gen_query_history(rng) for _ in range(40 if chk.quick else 400)]
    names = {"wb": "Weibull", "gu": "Gumbel", "gm": "GumbelMin"}
    for h in qhs:
        chk.count("query-history")
        chk.nontriv(("query-history", tuple(o["dist"] + ":" + o.get("spell", "float") for o in h["objects"]),
                     tuple(a["as"] for a in h["arrays"]), tuple(st[0] for st in h["steps"])))
        for st in h["steps"]:
            chk.dist("query-history-step:%s" % st[0])
        for a in h["arrays"]:
            chk.dist("query-history-array:%s" % a["as"])
        bad = run_query_history(h)
        for i, st, orc, exp_, obs in bad[:3]:
            chk.fail("step %d (%s) of a query history on %s objects sharing the caller's arrays: %s"
                     % (i, st[0], " + ".join(names[o["dist"]] for o in h["objects"]), orc), h, exp_, obs, step=i)
        if any(b[2].startswith("every query of the history returns") for b in bad):
            break                        # a query hangs: later histories in this process would only wait as well
    # ---- audit round 8: LONG arrays of probabilities / values, long rnd draws (c15_long.py) ------------------------------------
    from . import c15_long
    c15_long.run_long(chk, drv, corpus)


def replay(rp):
    inp = rp["input"]
    if inp.get("check") == "strict":
        from .c15_strict import replay_strict
        return replay_strict(inp)
    if inp.get("check") == "long":
        from . import c15_long
        res = c15_long.eval_long({k: v for k, v in inp.items() if k not in ("index", "arg")})
        for o, e, g in res:
            print("FAILS:", o)
            print("   expected:", e)
            print("   observed:", g)
        print("replay: %d failing clause(s)" % len(res))
        return 1 if res else 0
    if inp.get("check") == "query-history":
        res = run_query_history(inp)
        for i, st, o, e, g in res:
            print("FAILS at step %d %s: %s" % (i, st, o))
            print("   expected:", e)
            print("   observed:", g)
        print("replay: %d failing clause(s)" % len(res))
        return 1 if res else 0
    if inp.get("check") == "param-history":
        res = run_param_history(inp)
        for i, st, o, e, g in res:
            print("FAILS after step %d %s: %s" % (i, st, o))
            print("   expected:", e)
            print("   observed:", g)
        print("replay: %d failing clause(s)" % len(res))
        return 1 if res else 0
    d = make(inp["dist"], tuple(inp["params"]))
    if inp.get("check") in ("tails", "rnd-history"):
        if inp["check"] == "tails":
            res = [(o, e, g) for o, e, g, _ in tail_clauses(d, inp["dist"], tuple(inp["params"]))]
        else:
            res = history_clauses(d, inp)
        for o, e, g in res:
            print("FAILS:", o)
            print("   expected:", e)
            print("   observed:", g)
        print("replay: %d failing clause(s)" % len(res))
        return 1 if res else 0
    if "reassigned" in inp:
        kind, fresh = inp["dist"], tuple(inp["reassigned"])
        _ = (d.mean, d.std, d.skew, d.kurt)
        for a, v in zip(attr_names(kind), fresh):
            setattr(d, a, v)
        res = state_clauses(d, kind)
        for o, e, g in res:
            print("FAILS after re-assigning the parameters to %s: %s" % (list(fresh), o))
            print("   expected:", e)
            print("   observed:", g)
        print("replay: %d failing clause(s)" % len(res))
        return 1 if res else 0
    if "seed" in inp:
        sd = inp["seed"]
        r1 = d.rnd(size=7, seed=sd)
        r2 = d.rnd(size=7, seed=sd)
        ex = d.invcdf(p=np.random.RandomState(sd).random_sample(7))
        bad = 0 if (np.array_equal(r1, r2) and np.allclose(r1, ex, rtol=1e-14)) else 1
        print("rnd(size=7, seed=%d):" % sd, r1.tolist())
        print("invcdf(uniforms)    :", ex.tolist())
        print("replay: %d failing clause(s)" % bad)
        return bad
    qm = quad_moments(d, inp["dist"], tuple(inp["params"]))
    rep = (float(d.mean), float(d.std), float(d.skew), float(d.kurt))
    print("reported (mean,std,skew,kurt):", rep)
    print("quadrature of the density    :", qm)
    bad = sum(1 for i, (a, b, t) in enumerate(zip(rep, qm, (1e-6, 1e-6, 1e-5, 1e-4)))
              if abs(a - b) > t * max(1, abs(b), abs(inp["params"][0])) and not (i == 3 and abs(a - (b - 3)) <= t * max(1, abs(b))))
    qs = np.array([0.1, 0.5, 0.9])
    if not np.allclose(d.cdf(x=d.invcdf(p=qs)), qs, rtol=1e-7):
        print("FAILS: cdf(invcdf(p)) == p")
        bad += 1
    print("replay: %d failing clause(s)" % bad)
    return 1 if bad else 0
