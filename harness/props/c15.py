"""
C15 — distribution objects are internally coherent.

Tie: translator (all closed forms of Weibull / Gumbel / GumbelMin / empirical_cdf, re-proved each run) + Float
correspondence of every method (cdf, pdf, invcdf incl. masks and defaults, mean, std, skew, kurt, median, mode, rnd).
Search: coherence clauses evaluated on the implementation: cdf monotone within [0,1], invcdf∘cdf = id, pdf = numerical
derivative of cdf, reported moments = numerical quadrature of x^k·pdf (a measurement), rnd = invcdf(uniforms), seeded.
"""
import math

import numpy as np

from .. import core
from ..core import fbits, unfbits
from .c05 import close

USES_TRANSLATOR = True
ANCHOR_PREFIX = ("wb_", "gu_", "gm_", "ecdf_")
RULE = ("seeded parameters: loc in [-50,50], scale log-uniform [1e-2,1e2], Weibull shape in [0.5,8]; x on a grid over the bulk of "
        "the support, p in (0,1) plus 0, 1 and out-of-range values; non-trivial = every parameter set (all are non-default); "
        "distinct by (distribution, parameters)")


def ext(o):
    t = o.split()
    if t[1] == "inf":
        return math.inf
    if t[1] == "nan":
        return math.nan
    return unfbits(t[1])


def make(kind, par):
    from qats.stats.weibull import Weibull
    from qats.stats.gumbel import Gumbel
    from qats.stats.gumbelmin import GumbelMin
    if kind == "wb":
        return Weibull(*par)
    if kind == "gu":
        return Gumbel(*par)
    return GumbelMin(*par)


def quad_moments(d, kind, par):
    """mean/std/skew/kurt by quadrature of the implementation's own pdf over the quantile range [1e-13, 1-1e-13]"""
    from scipy.integrate import quad
    lo = float(d.invcdf(p=[1e-13])[0])
    hi = float(d.invcdf(p=[1 - 1e-13])[0])
    med = float(d.invcdf(p=[0.5])[0])
    f = lambda x: float(d.pdf(x=[x])[0])

    def integ(g):
        pts = [med]
        a, _ = quad(lambda x: g(x) * f(x), lo, med, limit=400, epsabs=0, epsrel=1e-11)
        b, _ = quad(lambda x: g(x) * f(x), med, hi, limit=400, epsabs=0, epsrel=1e-11)
        return a + b
    m = integ(lambda x: x)
    v = integ(lambda x: (x - m) ** 2)
    s = integ(lambda x: (x - m) ** 3) / v ** 1.5
    k = integ(lambda x: (x - m) ** 4) / v ** 2
    return m, math.sqrt(v), s, k


def run(chk):
    chk.extra["rule"] = RULE
    chk.partial += ["Gumbel / GumbelMin mean, std, skew, kurt constants (Euler-Mascheroni, pi/sqrt 6, zeta(3), 12/5): checked "
                    "against numerical quadrature of the implementation's density, not proved (Mathlib lacks the integrals)",
                    "Weibull central moments: proved as raw-moment integral (wb_raw_moment) + algebraic expansion "
                    "(wb_moments_algebra); the integrability bookkeeping that combines them is not restated as one theorem"]
    chk.assumptions += ["float tolerance 1e-9 relative for formula correspondence (Lanczos gamma vs scipy: <= 1e-13)",
                        "numerical derivative/quadrature tolerances: 1e-5 / 1e-6 relative (measurements)"]
    rng = chk.rng
    drv = core.Driver()
    N = 60 if chk.quick else 600
    cases = [("wb", (0.0, 1.0, 2.0)), ("gm", (1.0, 2.0)), ("gu", (0.0, 1.0))]
    for _ in range(N):
        kind = rng.choice(["wb", "gu", "gm"])
        loc = rng.choice([0.0, round(rng.uniform(-50, 50), 3)])
        scale = round(10 ** rng.uniform(-2, 2), 4)
        if kind == "wb":
            cases.append((kind, (loc, scale, rng.choice([0.5, 1.0, 2.0, 3.6, round(rng.uniform(0.5, 8), 3)]))))
        else:
            cases.append((kind, (loc, scale)))
    lines, meta = [], []

    def ask(line, m):
        lines.append(line)
        meta.append(m)
    for kind, par in cases:
        d = make(kind, par)
        P = " ".join(fbits(v) for v in par)
        loc, scale = par[0], par[1]
        # grid over the bulk of the support
        qs = [1e-6, 0.01, 0.1, 0.3, 0.5, 0.7, 0.9, 0.99, 1 - 1e-6] + [rng.random() for _ in range(3)]
        xs = [float(v) for v in d.invcdf(p=qs)]
        if kind == "wb":
            xs.append(loc)
        # generated parameter order is alphabetical
        for x in xs:
            if kind == "wb":
                ask("gen.wb_cdf %s %s" % (P, fbits(x)), (kind, par, "cdf", x))
                ask("gen.wb_pdf %s %s" % (P, fbits(x)), (kind, par, "pdf", x))
            elif kind == "gu":
                ask("gen.gu_cdf %s %s" % (P, fbits(x)), (kind, par, "cdf", x))
                ask("gen.gu_pdf %s %s" % (P, fbits(x)), (kind, par, "pdf", x))
            else:
                ask("gen.gm_cdf %s %s" % (P, fbits(x)), (kind, par, "cdf", x))
                ask("gen.gm_pdf %s %s" % (P, fbits(x)), (kind, par, "pdf", x))
        for p in qs + [0.0, 1.0, -0.1, 1.5]:
            ask("dist.invcdf %s %s %s" % (kind, P, fbits(p)), (kind, par, "invcdf", p))
        if kind == "wb":
            ask("gen.wb_mean %s" % P, (kind, par, "mean", None))
            ask("gen.wb_std %s %s" % (fbits(par[1]), fbits(par[2])), (kind, par, "std", None))
            ask("gen.wb_skew %s" % fbits(par[2]), (kind, par, "skew", None))
            ask("gen.wb_kurt %s" % fbits(par[2]), (kind, par, "kurt", None))
        else:
            g = kind
            ask("gen.%s_mean %s" % (g, P), (kind, par, "mean", None))
            ask("gen.%s_median %s" % (g, P), (kind, par, "median", None))
            ask("gen.%s_mode %s" % (g, fbits(loc)), (kind, par, "mode", None))
            ask("gen.%s_std %s" % (g, fbits(scale)), (kind, par, "std", None))
            ask("gen.%s_skew" % g, (kind, par, "skew", None))
            ask("gen.%s_kurt" % g, (kind, par, "kurt", None))
    outs = drv.run(lines)
    objs = {}
    for (kind, par, what, arg), o in zip(meta, outs):
        d = objs.setdefault((kind, par), make(kind, par))
        chk.count("dist." + what)
        inp = dict(dist=kind, params=par, method=what, arg=arg)
        if what in ("cdf", "pdf"):
            im = float(getattr(d, what)(x=[arg])[0])
            mv = unfbits(o.split()[1])
        elif what == "invcdf":
            with np.errstate(all="ignore"):
                im = float(d.invcdf(p=[arg])[0])
            mv = ext(o)
        else:
            im = float(getattr(d, what))
            mv = unfbits(o.split()[1])
        chk.dist("%s.%s" % (kind, what))
        if not close(mv, im, 1e-9):
            # IEEE detail outside the real-number model: Gumbel invcdf(0) = -inf via log(0)
            if what == "invcdf" and arg == 0.0 and kind in ("gu", "gm") and im == -math.inf and mv == -math.inf:
                continue
            chk.disagree("dist.%s.%s" % (kind, what), inp, mv, im)
    # ---- coherence oracles on the implementation ---------------------------------------------------------------------
    for kind, par in cases:
        d = objs[(kind, par)]
        chk.nontriv((kind, par))
        inp = dict(dist=kind, params=par)
        qs = np.array(sorted([1e-4, 0.01, 0.1, 0.25, 0.5, 0.75, 0.9, 0.99, 0.9999] + [rng.random() for _ in range(5)]))
        xs = d.invcdf(p=qs)
        cdf = d.cdf(x=xs)
        chk.count("coherence")
        if np.any(np.diff(xs) <= 0):
            chk.fail("invcdf increasing in p", inp, "increasing", xs.tolist())
        if np.any(np.diff(cdf) < 0) or np.any(cdf < 0) or np.any(cdf > 1):
            chk.fail("cdf non-decreasing within [0,1]", inp, "monotone in [0,1]", cdf.tolist())
        with np.errstate(all="ignore"):
            slack = np.nan_to_num(d.pdf(x=xs), posinf=1e300) * (np.abs(xs) + abs(par[0])) * 1e-14 + 1e-12
        if np.any(np.abs(cdf - qs) > 1e-7 * qs + slack):
            chk.fail("cdf(invcdf(p)) == p", inp, qs.tolist(), cdf.tolist())
        back = d.invcdf(p=cdf)
        if not np.allclose(back, xs, rtol=1e-6, atol=1e-9 * par[1]):
            chk.fail("invcdf(cdf(x)) == x", inp, xs.tolist(), back.tolist())
        with np.errstate(all="ignore"):
            ends = d.invcdf(p=[0.0, 1.0, -0.5, 1.5])
        lo_exp = par[0] if kind == "wb" else -math.inf
        if not (ends[0] == lo_exp and ends[1] == math.inf and math.isnan(ends[2]) and math.isnan(ends[3])):
            chk.fail("invcdf: 0 and 1 map to the ends of the support, values outside [0,1] to nan", inp,
                     [lo_exp, math.inf, "nan", "nan"], ends.tolist())
        # density = derivative of the cdf (central differences on the bulk)
        xb = d.invcdf(p=np.array([0.05, 0.2, 0.5, 0.8, 0.95]))
        h = 1e-6 * par[1]
        num = (d.cdf(x=xb + h) - d.cdf(x=xb - h)) / (2 * h)
        pdf = d.pdf(x=xb)
        if not np.allclose(num, pdf, rtol=2e-5, atol=0):
            chk.fail("pdf is the derivative of the cdf (central difference, rel 2e-5)", inp, num.tolist(), pdf.tolist())
        # defaults
        try:
            c0, p0 = d.cdf(), d.pdf()
            ok = len(c0) == 100 and len(p0) == 100 and len(d.invcdf()) == 100
        except Exception as e:
            ok = False
            c0 = type(e).__name__
        if not ok:
            chk.fail("cdf()/pdf()/invcdf() without argument evaluate on a default grid", inp, "100 values", str(c0)[:80])
        # rnd: inverse transform of uniforms, reproducible
        for sd in (12345, 0, rng.randint(1, 2 ** 31 - 1)):
            np.random.seed(999)            # a different global state before each call: only the given seed may matter
            r1 = d.rnd(size=7, seed=sd)
            np.random.seed(777)
            r2 = d.rnd(size=7, seed=sd)
            u = np.random.RandomState(sd).random_sample(7)
            if not (np.array_equal(r1, r2) and np.allclose(r1, d.invcdf(p=u), rtol=1e-14)):
                chk.fail("rnd(seed) == invcdf(uniforms of that seed), reproducible", dict(inp, seed=sd), d.invcdf(p=u).tolist(), r1.tolist())
                break
        # density at the lower end of the Weibull support (first point of the default grid)
        if kind == "wb" and par[2] >= 1.0:
            with np.errstate(all="ignore"):
                p_loc = float(d.pdf(x=[par[0]])[0])
            exp_loc = 1.0 / par[1] if par[2] == 1.0 else 0.0
            if not (np.isfinite(p_loc) and abs(p_loc - exp_loc) <= 1e-12 * max(1.0, exp_loc)) or not np.all(np.isfinite(d.pdf())):
                chk.fail("the density is defined on the whole support, also at x = loc (1/scale for shape 1, 0 for shape > 1)", inp, exp_loc, p_loc)
        # the reported moments follow the instance's parameters (re-assigning a public parameter attribute)
        fresh_par = (par[0] + 1.5, par[1] * 2.0) + ((par[2] * 1.5 + 0.25,) if kind == "wb" else ())
        d2 = make(kind, par)
        _ = (d2.mean, d2.std, d2.skew, d2.kurt)
        if kind == "gm":
            d2.location, d2.scale = fresh_par
        else:
            d2.loc, d2.scale = fresh_par[0], fresh_par[1]
            if kind == "wb":
                d2.shape = fresh_par[2]
        ref = make(kind, fresh_par)
        got = [float(getattr(d2, a)) for a in ("mean", "std", "skew", "kurt")]
        exp = [float(getattr(ref, a)) for a in ("mean", "std", "skew", "kurt")]
        if not all(close(a, b, 1e-12) for a, b in zip(got, exp)) or not np.allclose(d2.cdf(x=ref.invcdf(p=[0.3, 0.6])), [0.3, 0.6], rtol=1e-9):
            chk.fail("reported moments are those of the density of the instance's current parameters", dict(inp, reassigned=fresh_par), exp, got)
        # median / mode
        if kind != "wb":
            if not close(float(d.cdf(x=[d.median])[0]), 0.5, 1e-12):
                chk.fail("cdf(median) == 1/2", inp, 0.5, float(d.cdf(x=[d.median])[0]))
            m = d.mode
            around = d.pdf(x=[m - 1e-3 * par[1], m, m + 1e-3 * par[1]])
            if not (around[1] >= around[0] and around[1] >= around[2]):
                chk.fail("mode maximises the density", inp, "pdf(mode) >= neighbours", around.tolist())
    # moments by quadrature (measurement; fewer cases, it is slow)
    sub = cases[:3] + rng.sample(cases[3:], min(len(cases) - 3, 12 if chk.quick else 120))
    for kind, par in sub:
        if kind == "wb" and par[2] < 0.7:
            continue    # integrable singularity of the density at loc for shape < 1: quadrature too inaccurate
        d = objs[(kind, par)]
        chk.count("moments-quadrature")
        qm = quad_moments(d, kind, par)
        rep = (float(d.mean), float(d.std), float(d.skew), float(d.kurt))
        inp = dict(dist=kind, params=par)
        tol = (1e-6, 1e-6, 1e-5, 1e-4)
        for name, a, b, t in zip(("mean", "std", "skew", "kurt"), rep, qm, tol):
            if name == "kurt" and abs(a - (b - 3.0)) <= t * max(1.0, abs(b)):
                chk.dist("kurt-convention:excess(%s)" % kind)
                continue        # excess kurtosis (Fisher) — the Gumbel classes report 12/5; either convention is "the kurtosis"
            if abs(a - b) > t * max(1.0, abs(b), abs(par[0]) if name == "mean" else 0.0):
                chk.fail("reported %s is that of the density (quadrature)" % name, inp, b, a, moment=name)
    chk.sample(dict(dist="wb", params=(0.0, 1.0, 2.0), kurt=float(make("wb", (0.0, 1.0, 2.0)).kurt)))
    # ---- empirical cdf -------------------------------------------------------------------------------------------------
    from qats.stats.empirical import empirical_cdf
    el, em = [], []
    for n in [1, 2, 3, 10, 57]:
        for kind in ("mean", "median", "symmetrical", "beard", "gringorten"):
            f = empirical_cdf(n, kind=kind)
            chk.count("ecdf")
            if not (len(f) == n and np.all(f > 0) and np.all(f < 1) and np.all(np.diff(f) > 0)):
                chk.fail("plotting positions strictly inside (0,1) and increasing", dict(n=n, kind=kind), "in (0,1)", f.tolist()[:5])
            for i in (1, n):
                el.append("gen.ecdf_%s %s %s" % (kind, fbits(float(i)), fbits(float(n))))
                em.append((n, kind, i, float(f[i - 1])))
    for (n, kind, i, v), o in zip(em, drv.run(el)):
        if not close(unfbits(o.split()[1]), v, 1e-14):
            chk.disagree("ecdf_" + kind, dict(n=n, i=i), unfbits(o.split()[1]), v)


def replay(rp):
    inp = rp["input"]
    d = make(inp["dist"], tuple(inp["params"]))
    qm = quad_moments(d, inp["dist"], tuple(inp["params"]))
    rep = (float(d.mean), float(d.std), float(d.skew), float(d.kurt))
    print("reported (mean,std,skew,kurt):", rep)
    print("quadrature of the density    :", qm)
    bad = sum(1 for i, (a, b, t) in enumerate(zip(rep, qm, (1e-6, 1e-6, 1e-5, 1e-4)))
              if abs(a - b) > t * max(1, abs(b), abs(inp["params"][0])) and not (i == 3 and abs(a - (b - 3)) <= t * max(1, abs(b))))
    qs = np.array([0.1, 0.5, 0.9])
    if not np.allclose(d.cdf(x=d.invcdf(p=qs)), qs, rtol=1e-7):
        print("FAILS: cdf(invcdf(p)) == p")
        bad += 1
    print("replay: %d failing clause(s)" % bad)
    return 1 if bad else 0
