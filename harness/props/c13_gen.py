"""C13, tie of the regenerated expressions `psd_fs` (sampling frequency handed to scipy.signal.welch by qats.signal.psd) and
`psd_nperseg_frac` (argument of int(...) in TimeSeries.psd's default segment length): the arguments the real code hands to
scipy.signal.welch are recorded and compared with the generated definitions executed by the driver (ops gen.psd_fs,
gen.psd_nperseg_frac), which the theorems welch_fs_is_source / psd_fs_reciprocal / default_nperseg_is_source relate to the model."""
import math

import numpy as np

from ..core import fbits, unfbits


def run_gen(chk, drv):
    import qats.signal as qs
    from qats import TimeSeries
    rng = chk.rng
    rec = []
    real = qs.welch

    def spy(x, *a, **kw):
        rec.append(dict(n=int(np.size(x)), fs=kw.get("fs", a[0] if a else None), nperseg=kw.get("nperseg")))
        return real(x, *a, **kw)

    cases = []
    for _ in range(12 if chk.quick else 60):
        n = rng.choice([4, 5, 7, 8, 9, 16, 31, 100, 1003, rng.randint(4, 3000)])
        dt = rng.choice([1.0, 0.5, 0.1, 0.01, 2.0, 10 ** rng.uniform(-3, 1), 1, 0.125])
        cases.append((n, dt))
    qs.welch = spy
    try:
        obs = []
        for n, dt in cases:
            x = np.sin(np.arange(n) * 0.7) + 0.1 * np.arange(n) % 3
            del rec[:]
            try:
                qs.psd(x, dt)
                a = dict(rec[-1]) if rec else None
            except Exception as e:      # noqa
                a = dict(error="%s: %s" % (type(e).__name__, e))
            del rec[:]
            try:
                TimeSeries("s", np.arange(n) * float(dt), x).psd()
                b = dict(rec[-1]) if rec else None
            except Exception as e:      # noqa
                b = dict(error="%s: %s" % (type(e).__name__, e))
            obs.append((a, b))
    finally:
        qs.welch = real
    lines = []
    for n, dt in cases:
        lines.append("gen.psd_fs %s" % fbits(float(dt)))
        lines.append("gen.psd_nperseg_frac %s" % fbits(float(n)))
    outs = drv.run(lines)
    for i, ((n, dt), (a, b)) in enumerate(zip(cases, obs)):
        chk.count("gen.psd")
        o_fs, o_np = outs[2 * i].split(), outs[2 * i + 1].split()
        inp = dict(kind="gen.psd", n=n, dt=dt)
        if o_fs[0] != "ok" or o_np[0] != "ok":
            chk.disagree("gen.psd", inp, [outs[2 * i], outs[2 * i + 1]], [a, b])
            continue
        m_fs, m_np = unfbits(o_fs[1]), int(math.floor(unfbits(o_np[1])))
        if a is None or "error" in a or a.get("fs") is None or abs(float(a["fs"]) - m_fs) > 1e-14 * abs(m_fs):
            chk.disagree("gen.psd_fs", inp, m_fs, a)
        if b is None or "error" in b or b.get("nperseg") != m_np or b.get("fs") is None or \
                abs(float(b["fs"]) - m_fs) > 1e-9 * abs(m_fs):
            chk.disagree("gen.psd_nperseg_frac", inp, dict(nperseg=m_np, fs=m_fs), b)
        chk.nontriv(("gen.psd", n, dt))
