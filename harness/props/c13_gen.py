"""C13, tie of the regenerated expressions `psd_fs` (sampling frequency handed to scipy.signal.welch by qats.signal.psd) and
`psd_nperseg_frac` (argument of int(...) in TimeSeries.psd's default segment length): the arguments the real code hands to
scipy.signal.welch are recorded and compared with the generated definitions executed by the driver (ops gen.psd_fs,
gen.psd_nperseg_frac), which the theorems welch_fs_is_source / psd_fs_reciprocal / default_nperseg_is_source relate to the model."""
import math

import numpy as np

from ..core import fbits, unfbits


def run_gen(chk, drv):
    import qats.signal as qs
    from qats import TimeSeries
    rng = chk.rng
    rec = []
    real = qs.welch

    def spy(x, *a, **kw):
        rec.append(dict(n=int(np.size(x)), fs=kw.get("fs", a[0] if a else None), nperseg=kw.get("nperseg")))
        return real(x, *a, **kw)

    cases = []
    for _ in range(12 if chk.quick else 60):
        n = rng.choice([4, 5, 7, 8, 9, 16, 31, 100, 1003, rng.randint(4, 3000)])
        dt = rng.choice([1.0, 0.5, 0.1, 0.01, 2.0, 10 ** rng.uniform(-3, 1), 1, 0.125])
        cases.append((n, dt))
    qs.welch = spy
    try:
        obs = []
        for n, dt in cases:
            x = np.sin(np.arange(n) * 0.7) + 0.1 * np.arange(n) % 3
            del rec[:]
            try:
                qs.psd(x, dt)
                a = dict(rec[-1]) if rec else None
            except Exception as e:      # noqa
                a = dict(error="%s: %s" % (type(e).__name__, e))
            del rec[:]
            try:
                TimeSeries("s", np.arange(n) * float(dt), x).psd()
                b = dict(rec[-1]) if rec else None
            except Exception as e:      # noqa
                b = dict(error="%s: %s" % (type(e).__name__, e))
            obs.append((a, b))
    finally:
        qs.welch = real
    lines = []
    for n, dt in cases:
        lines.append("gen.psd_fs %s" % fbits(float(dt)))
        lines.append("gen.psd_nperseg_frac %s" % fbits(float(n)))
    outs = drv.run(lines)
    for i, ((n, dt), (a, b)) in enumerate(zip(cases, obs)):
        chk.count("gen.psd")
        o_fs, o_np = outs[2 * i].split(), outs[2 * i + 1].split()
        inp = dict(kind="gen.psd", n=n, dt=dt)
        if o_fs[0] != "ok" or o_np[0] != "ok":
            chk.disagree("gen.psd", inp, [outs[2 * i], outs[2 * i + 1]], [a, b])
            continue
        m_fs, m_np = unfbits(o_fs[1]), int(math.floor(unfbits(o_np[1])))
        if a is None or "error" in a or a.get("fs") is None or abs(float(a["fs"]) - m_fs) > 1e-14 * abs(m_fs):
            chk.disagree("gen.psd_fs", inp, m_fs, a)
        if b is None or "error" in b or b.get("nperseg") != m_np or b.get("fs") is None or \
                abs(float(b["fs"]) - m_fs) > 1e-9 * abs(m_fs):
            chk.disagree("gen.psd_nperseg_frac", inp, dict(nperseg=m_np, fs=m_fs), b)
        chk.nontriv(("gen.psd", n, dt))
    run_stamps(chk)


def run_stamps(chk):
    """a uniformly sampled signal whose time array is given as naive date-time stamps (a spelling TimeSeries accepts), spanning the
    daylight-saving changes of the zones ./check runs in: its spectrum is that of the same samples on the
    float time axis (the time step does not vary, whatever the local time zone is)"""
    from datetime import datetime, timedelta
    from qats import TimeSeries
    rng = chk.rng
    for _ in range(2 if chk.quick else 8):
        n = rng.choice([256, 400, 600])
        dt = rng.choice([3600.0, 3600.0, 1800.0])      # 12 to 25 days: the span holds the daylight-saving change of every zone ./check uses
        t = np.arange(n) * dt
        x = np.sin(2 * np.pi * t / (12 * dt)) + 0.3 * np.sin(2 * np.pi * t / (5 * dt)) + rng.choice([0.0, 4.0])
        t0 = datetime(2000, 3, 15, 0, 30) if rng.random() < 0.7 else datetime(2000, 10, 20, 0, 30)
        stamps = [t0 + timedelta(seconds=float(v)) for v in t]
        inp = dict(kind="stamps", n=n, dt=dt, start=str(t0), TZ=__import__("os").environ.get("TZ"))
        chk.count("stamps")
        chk.nontriv(("stamps", n, dt, str(t0)))
        try:
            f0, p0 = TimeSeries("s", t, x).psd()
            f1, p1 = TimeSeries("s", np.array(stamps), x).psd()
            ok = np.shape(f0) == np.shape(f1) and np.allclose(f0, f1, rtol=1e-9, atol=0) and np.allclose(p0, p1, rtol=1e-9, atol=1e-300)
            obs = [np.asarray(f1)[:4].tolist(), np.asarray(p1)[:4].tolist()]
        except Exception as e:      # noqa
            ok, obs = False, "raised %s: %s" % (type(e).__name__, e)
            f0, p0 = [], []
        if not ok:
            chk.fail("the spectrum of a uniformly sampled signal given with date-time stamps is the Welch density of its samples at its "
                     "time step (frequencies k/(nperseg dt)), in every local time zone", inp,
                     [np.asarray(f0)[:4].tolist(), np.asarray(p0)[:4].tolist()], obs)
