"""
C07 — export then reload reproduces names, time and data; unsafe exports are refused.

Tie (model `Qats.Export` vs /repo, exact Rat execution on dyadic inputs):
  check    `TsDB._check_time_arrays(container, twin=, resample=)` and `TsDB.is_common_time`: decision, dtg rule, recommended
           window, deviations left after the handled ones are removed
  cct      `TsDB.create_common_time(names, twin)`
  names    `TsDB._make_export_friendly_names` (basename / shortened keys, collisions)
  export   the *effect trace* of `TsDB.export` observed by wrapping `os.makedirs`, `getm`, `_make_export_friendly_names`,
           `_check_time_arrays`, `create_common_time`, `TimeSeries.get` and the four writers (what they are handed), with the stage
           functions replaced by the tag functions of C11 on both sides
  codec    key file text / `read_ts_names`, `.dat` header / `read_dat_names`, direct-access words / `read_ts_data`,
           h5 attributes + rebuilt time array / `read_sima_h5_*` against files written by the real writers
Search (oracles on the unpatched implementation): export -> `TsDB.fromfile` -> arrays compared, at the format's precision, with
in-memory retrieval with the same options of every selected series ON ITS OWN from a reference database in which nothing is ever
stored (so a request for several series, in whatever order, cannot hide behind an equally wrong reference); the request as a whole
(`getda(names=..., **kwargs)`) must return exactly those arrays; without options a file-backed source returns what its file was
written with. Four target formats x options x in-memory / file-backed (.pkl .ts .dat .h5) sources x histories of the exporting
database (nothing read yet / selection retrieved and stored / one selected series stored) x target named by absolute path / bare
file name in the working directory / relative path; "differing processed time arrays were written"; "target modified although
export raised"; "existing file overwritten although exist_ok=False"; `is_common_time` on lattice series.
Known findings reported through matchers (ids below): F19 (.dat name like time*), F19b (.pkl name 'Time'), F30 (fewer than two
processed samples), F31 ('.ts' elsewhere in the target path), F32 (resample given as a list + .ts).  The model also encodes
that `_check_time_arrays` raises TypeError for non-overlapping series (robustness defect, the export is still refused).
"""
import contextlib
import datetime
import fnmatch as pyfnmatch
import io
import json
import os
import shutil
import struct
import tempfile
from collections import OrderedDict
from fractions import Fraction

import numpy as np

from .. import core
from ..core import rat
from ..dbutil import hx, unhx, hxlist, unhxlist

# ids of the known findings this check reports through matchers (see the report to the lead / known_findings.json)
F19 = "F19"      # .dat: a series name matching [Tt]ime* makes the reload fail (duplicate time vectors)
F19B = "F19b"    # .pkl: a series named exactly 'Time' makes the reload fail (df.insert(0, "Time", …))
F30 = "F30"      # processed arrays with fewer than two samples are written but cannot be reloaded (.ts garbage, .dat/.pkl error,
                 # .h5 raises after truncating the target)
F31 = "F31"      # .ts target whose path contains '.ts' elsewhere: load looks for the wrong key file (str.replace)
F32 = "F32"      # resample given as a list + .ts target: RuntimeError after the target was truncated

RULE = ("correspondence: seeded dyadic databases of 1-4 series in the families identical / common lattice / off lattice / same span "
        "non-uniform / different step / disjoint, with and without dtg_ref, x twin (inside, on, beyond the common window) x resample "
        "(step, array, none) x force_common_time x basename x target exists/exist_ok x missing directory x extension; friendly names "
        "on generated key sets (files in 1-3 directories, in-memory names, unit brackets); codecs on names over the formats' alphabets. "
        "round trips: decimal and dyadic time grids (2-1200 samples incl. the 500-row flush boundary of the ascii writer), data over "
        "six decades, in-memory / pickle- / direct-access- / ascii- / h5-backed sources (several series per file), selections (all, "
        "one, list in file order / reversed / shuffled, wildcard), exporting database fresh / selection stored / one series stored, "
        "target as absolute path / bare file name in the working directory / relative path, options (window, resample step/array, "
        "low/high/band-pass, taper, smoothing), pre-existing targets with overwriting allowed or not; direct-access records "
        "requested by index in any order (codec); non-trivial = more than one series or any option; distinct by full case")

EXTS = [".ts", ".dat", ".h5", ".pkl"]


# ----------------------------------------------------------------------------------------------------------------------------------
# small helpers
# ----------------------------------------------------------------------------------------------------------------------------------
def quiet(f, *a, **k):
    with contextlib.redirect_stdout(io.StringIO()):
        return f(*a, **k)


def dtg_of(i):
    return None if i is None else datetime.datetime(2020, 1, 1) + datetime.timedelta(hours=int(i))


def err_kind(e):
    if isinstance(e, FileExistsError):
        return "fileexists"
    if isinstance(e, KeyError):
        return "key"
    if isinstance(e, AssertionError):
        return "assertion"
    if isinstance(e, IndexError):
        return "index"
    if isinstance(e, NotImplementedError):
        return "notimplemented"
    if isinstance(e, ValueError):
        return "value"
    if isinstance(e, TypeError):
        return "type"
    return type(e).__name__


def kw_of(kwj):
    """JSON description of the processing options -> keyword arguments of TimeSeries.get / TsDB.export"""
    kw = {}
    if kwj.get("twin") is not None:
        kw["twin"] = (float(kwj["twin"][0]), float(kwj["twin"][1]))
    r = kwj.get("resample")
    if r is not None:
        if r[0] == "step":
            kw["resample"] = float(r[1])
        elif r[0] == "arr":
            kw["resample"] = np.array([float(v) for v in r[1]])
        else:
            kw["resample"] = [float(v) for v in r[1]]
    if kwj.get("filterargs") is not None:
        kw["filterargs"] = tuple(kwj["filterargs"])
    if kwj.get("taperfrac") is not None:
        kw["taperfrac"] = float(kwj["taperfrac"])
    if kwj.get("window_len") is not None:
        kw["window_len"] = int(kwj["window_len"])
    return kw


def write_pickle(path, names, t, cols):
    import pandas as pd
    os.makedirs(os.path.dirname(path), exist_ok=True)
    df = pd.DataFrame(OrderedDict((n, np.asarray(c, dtype=float)) for n, c in zip(names, cols)))
    df.index = np.asarray(t, dtype=float)
    df.to_pickle(path)


def build_db(case, root, write=True):
    """database described by case['series'] (name, file, t, x, dtg) from case['source'] in {'mem','pkl','ts','dat','h5'};
    write=False: the source files exist already (a second, freshly loaded database on the same files)"""
    from qats import TsDB, TimeSeries
    from qats.io.direct_access import write_ts_data
    from qats.io.other import write_dat_data
    from qats.io.sima_h5 import write_data as write_h5
    db = TsDB()
    if case["source"] == "mem":
        for s in case["series"]:
            db.add(TimeSeries(s["name"], np.array(s["t"], dtype=float), np.array(s["x"], dtype=float), dtg_ref=dtg_of(s.get("dtg"))))
        return db
    files = OrderedDict()
    for s in case["series"]:
        files.setdefault(s["file"], []).append(s)
    paths = []
    for rel, sers in files.items():
        p = os.path.join(root, "src", rel)
        paths.append(p)
        if not write:
            continue
        os.makedirs(os.path.dirname(p), exist_ok=True)
        t = np.array(sers[0]["t"], dtype=float)
        recs = OrderedDict((s["name"], (t, np.array(s["x"], dtype=float))) for s in sers)
        if case["source"] == "pkl":
            write_pickle(p, [s["name"] for s in sers], t, [s["x"] for s in sers])
        elif case["source"] == "dat":
            write_dat_data(p, t, recs)
        elif case["source"] == "h5":
            write_h5(p, recs)
        else:
            write_ts_data(p, t, recs)
    db.load(paths)
    return db


# ----------------------------------------------------------------------------------------------------------------------------------
# generators (every random choice derives from the check's rng)
# ----------------------------------------------------------------------------------------------------------------------------------
FAMILIES = ["ident", "ident", "lattice", "lattice", "offlattice", "samespan", "diffdt", "disjoint"]


def gen_times(rng, nser, family, exact=True, nmax=12):
    """time arrays (Fractions when exact) of `nser` series of the given family"""
    F = Fraction if exact else (lambda a, b=1: a / b)
    h = F(1, rng.choice([1, 2, 4])) * rng.choice([1, 2]) if exact else rng.choice([0.1, 0.25, 0.01, 1.0, 0.5, 0.05])
    o = F(rng.randint(-8, 8), 2) if exact else rng.choice([0.0, 0.0, 10.0, -3.5, 100.0, 1000.0])
    n = rng.randint(3, nmax)
    base = [o + i * h for i in range(n)]
    out = []
    for j in range(nser):
        if family == "ident" or j == 0:
            out.append(list(base))
        elif family == "lattice":
            m = rng.randint(-2, 3)
            k = rng.randint(2, nmax)
            out.append([o + (m + i) * h for i in range(k)])
        elif family == "offlattice":
            m = rng.randint(-1, 2)
            k = rng.randint(2, nmax)
            out.append([o + (m + i) * h + h / 2 for i in range(k)])
        elif family == "samespan":
            # same start, end and mean step, but (for n > 2) different interior points
            t = list(base)
            if n > 2:
                i = rng.randrange(1, n - 1)
                t[i] = t[i] + (t[i + 1] - t[i]) / 2
            out.append(t)
        elif family == "diffdt":
            f = rng.choice([2, 3]) if exact else rng.choice([2, 2.5])
            k = rng.randint(2, nmax)
            s0 = base[0] if rng.random() < 0.6 else base[0] + h
            out.append([s0 + i * h * f for i in range(k)])
        else:  # disjoint
            k = rng.randint(2, 6)
            gap = h * rng.randint(0, 2)
            out.append([base[-1] + gap + i * h for i in range(k)])
    return out


def gen_twin(rng, times):
    cs, ce = max(t[0] for t in times), min(t[-1] for t in times)
    lo, hi = min(t[0] for t in times), max(t[-1] for t in times)
    pts = sorted(set(v for t in times for v in t))
    a = rng.choice([cs, lo, cs + (pts[1] - pts[0]), lo - 1, rng.choice(pts), cs])
    b = rng.choice([ce, hi, ce - (pts[1] - pts[0]), hi + 1, rng.choice(pts), ce])
    return (a, b)


def gen_resample(rng, times, twin_given):
    cs, ce = max(t[0] for t in times), min(t[-1] for t in times)
    k = rng.random()
    if k < 0.5:
        span = (ce - cs) if ce > cs else (times[0][-1] - times[0][0])
        return ("step", span / rng.choice([1, 2, 3, 4, 8]))
    if twin_given and k < 0.9:
        return None
    if ce > cs:
        m = rng.choice([2, 3, 5])
        pts = [cs + (ce - cs) * Fraction(i, m - 1) if isinstance(cs, Fraction) else cs + (ce - cs) * i / (m - 1) for i in range(m)]
        if rng.random() < 0.25:
            pts = sorted(set(cs + (ce - cs) * Fraction(rng.randint(0, 8), 8) for _ in range(m))) if isinstance(cs, Fraction) else pts
        if rng.random() < 0.15:
            pts = pts + [max(t[-1] for t in times) + 1]       # beyond a series' end: interpolation must raise
        if len(pts) < 2 and rng.random() < 0.5:
            pts = pts + [ce]
        return ("arr", pts)
    return ("arr", [times[0][0], times[0][-1]])


def opts_line(twin, res, taper=0, filt=0, smooth=0):
    tw = "-" if twin is None else "%s,%s" % (rat(twin[0]), rat(twin[1]))
    if res is None:
        rs = "-"
    elif res[0] == "step":
        rs = "step:" + rat(res[1])
    else:
        rs = "arr:" + ",".join(rat(v) for v in res[1])
    return "twin=%s res=%s taper=%d filter=%d smooth=%d" % (tw, rs, taper, filt, smooth)


def ser_line(dtg, t, x=None, key=None):
    s = ""
    if key is not None:
        s += hx(key) + " "
    s += ("-" if dtg is None else str(dtg)) + " | " + " ".join(rat(v) for v in t)
    if x is not None:
        s += " | " + " ".join(rat(v) for v in x)
    return s


class Tags:
    """stage functions of qats.ts replaced by the tag functions of Qats.Driver.Pipeline.tagStages (positional or keyword calls)"""

    def __enter__(self):
        import qats.ts as m
        self.m, self.saved = m, {}

        def taper(x, *a, **kw):
            return np.asarray(x, dtype=float) + 1.0, 1.0

        def filt(x, *a, **kw):
            dt = kw.get("dt", a[0] if a else None)
            return 2.0 * np.asarray(x, dtype=float) + dt

        def smooth(x, *a, **kw):
            return np.asarray(x, dtype=float) ** 2
        for name, fn in [("taper", taper), ("lowpass", filt), ("highpass", filt), ("bandpass", filt), ("bandblock", filt),
                         ("smooth", smooth)]:
            if hasattr(m, name):
                self.saved[name] = getattr(m, name)
                setattr(m, name, fn)
        return self

    def __exit__(self, *a):
        for k, v in self.saved.items():
            setattr(self.m, k, v)


WRITERS = [("ts", "qats.io.direct_access", "write_ts_data"), ("dat", "qats.io.other", "write_dat_data"),
           ("h5", "qats.io.sima_h5", "write_data"), ("pkl", "qats.io.pickle_format", "write_data")]


class Tracer:
    """Observes TsDB.export. *Hard* observations (compared strictly with the model): the writer that is called and the
    records it is handed (the four writer functions are replaced by recorders wherever they are referenced, so no file is
    written), and the exception. *Soft* observations (internal steps, reported in the evidence when they differ from the model's
    but not a broken tie by themselves, so that extracting / inlining helpers stays harmless): calls of `os.makedirs`, `getm`,
    `_make_export_friendly_names`, `_check_time_arrays`, `create_common_time`, `TimeSeries.get`."""

    def __init__(self):
        self.trace = []
        self.in_cct = 0
        self.undo = []

    def _set(self, obj, name, val):
        old = obj.__dict__[name] if isinstance(obj, type) else getattr(obj, name)
        self.undo.append((obj, name, old))
        setattr(obj, name, val)

    def __enter__(self):
        import importlib
        import sys
        import qats.tsdb as m
        import qats.ts as mts
        T, S = m.TsDB, mts.TimeSeries
        tr, me = self.trace, self

        def wrap_method(cls, name, token, nested=False, is_cct=False):
            if name not in cls.__dict__:
                return
            raw = cls.__dict__[name]
            fn = raw.__func__ if isinstance(raw, (staticmethod, classmethod)) else raw

            def w(*a, **k):
                if is_cct:
                    tr.append(token)
                    me.in_cct += 1
                    try:
                        return fn(*a, **k)
                    finally:
                        me.in_cct -= 1
                if not (nested and me.in_cct):
                    tr.append(token)
                return fn(*a, **k)
            self._set(cls, name, staticmethod(w) if isinstance(raw, staticmethod) else w)
        wrap_method(T, "getm", "select", nested=True)
        wrap_method(T, "_make_export_friendly_names", "friendly")
        wrap_method(T, "_check_time_arrays", "timecheck", nested=True)
        wrap_method(T, "create_common_time", "commontime", is_cct=True)
        wrap_method(S, "get", "process")
        real_makedirs = os.makedirs

        def makedirs(*a, **k):
            tr.append("mkdirs")
            return real_makedirs(*a, **k)
        self._set(os, "makedirs", makedirs)

        def recorder(ext):
            def w(*a, **k):
                data = k.get("data")
                if data is None:
                    data = [v for v in a if isinstance(v, dict)][0]
                tr.append("open:" + ext)
                for name, (t, x) in data.items():
                    tr.append(("write", name, np.asarray(t, dtype=float), np.asarray(x, dtype=float)))
            return w
        for ext, modname, fname in WRITERS:
            mod = importlib.import_module(modname)
            orig = getattr(mod, fname)
            rec = recorder(ext)
            # every reference to the writer inside the package (defining module, `from … import … as …` copies)
            for mn, mo in list(sys.modules.items()):
                if mn == "qats" or mn.startswith("qats."):
                    for an, av in list(vars(mo).items()):
                        if av is orig:
                            self._set(mo, an, rec)
        return self

    def __exit__(self, *a):
        for obj, name, old in reversed(self.undo):
            setattr(obj, name, old)


SOFT = ("mkdirs", "select", "friendly", "timecheck", "commontime", "process")


def hard(tr):
    """the part of a trace that is compared strictly: writer, records, exception"""
    return [t for t in tr if not (isinstance(t, str) and t in SOFT)]


def parse_model_trace(out):
    """model reply -> list of tokens / ('write', name, t, x)"""
    res = []
    for tok in out.split()[1:]:
        if tok.startswith("write:"):
            _, n, t, x = tok.split(":")
            res.append(("write", unhx(n), [float(Fraction(v)) for v in t.split(",")] if t != "=" else [],
                        [float(Fraction(v)) for v in x.split(",")] if x != "=" else []))
        elif tok == "raise:bounds":
            res.append("raise:value")          # interp1d raises ValueError as well
        else:
            res.append(tok)
    return res


def traces_equal(mt, it):
    if len(mt) != len(it):
        return False
    for a, b in zip(mt, it):
        if isinstance(a, tuple) != isinstance(b, tuple):
            return False
        if isinstance(a, tuple):
            if a[1] != b[1] or len(a[2]) != len(b[2]) or len(a[3]) != len(b[3]):
                return False
            if not (np.allclose(a[2], b[2], rtol=1e-12, atol=1e-12) and np.allclose(a[3], b[3], rtol=1e-9, atol=1e-9)):
                return False
        elif a != b:
            return False
    return True


def show_trace(tr):
    return [t if not isinstance(t, tuple) else "write:%s:%s:%s" % (t[1], [round(float(v), 9) for v in t[2]][:8],
                                                                 [round(float(v), 9) for v in t[3]][:8]) for t in tr]


# ----------------------------------------------------------------------------------------------------------------------------------
# clauses evaluated on the implementation from a JSON input (used by the streams and by replay)
# ----------------------------------------------------------------------------------------------------------------------------------
def fr(v):
    return float(Fraction(v))


def clause_is_common(inp):
    """kind 'check', lattice / identical families, no dtg, no resample: True from is_common_time => equal (windowed) arrays"""
    from qats import TsDB, TimeSeries
    fails = []
    if inp.get("family") not in ("ident", "lattice") or inp.get("resample") is not None or any(d is not None for d in inp["dtg"]):
        return None, fails
    times = [np.array([fr(v) for v in t]) for t in inp["times"]]
    twin = None if inp["twin"] is None else (fr(inp["twin"][0]), fr(inp["twin"][1]))
    db = TsDB()
    for i, tf in enumerate(times):
        db.add(TimeSeries("s%d" % i, tf, tf * 0.0))
    ic = db.is_common_time(twin=twin)
    if ic:
        w = times if twin is None else [a[(a >= twin[0]) & (a <= twin[1])] for a in times]
        if not all(a.shape == w[0].shape and np.array_equal(a, w[0]) for a in w):
            fails.append(("is_common_time(twin) is True only if the windowed time arrays of lattice series are equal",
                          "equal windowed arrays", [a.tolist() for a in w]))
    return bool(ic), fails


def clause_cct(inp, ct=None):
    """kind 'cct': the common time array lies inside [latest start, earliest end]"""
    from qats import TsDB, TimeSeries
    fails = []
    times = [np.array([fr(v) for v in t]) for t in inp["times"]]
    if ct is None:
        db = TsDB()
        for i, tf in enumerate(times):
            db.add(TimeSeries("s%d" % i, tf, tf * 0.0))
        try:
            ct = np.asarray(db.create_common_time(twin=None if inp["twin"] is None else (fr(inp["twin"][0]), fr(inp["twin"][1]))), dtype=float)
        except Exception:
            return fails
    if len(ct) and inp.get("family") != "ident":
        cs, ce = max(t[0] for t in times), min(t[-1] for t in times)
        if ct[0] < cs - 1e-12 or ct[-1] > ce + 1e-12:
            fails.append(("create_common_time stays inside [latest start, earliest end]", [float(cs), float(ce)], [float(ct[0]), float(ct[-1])]))
    return fails


def clause_names(inp):
    """kind 'names': distinct, none lost. Observed through `_make_export_friendly_names`; if that helper is gone, through the names
    `export` hands to the writer for series with one time array registered under the given keys."""
    from qats import TsDB, TimeSeries
    fails = []
    keys = inp["keys"]
    fn = getattr(TsDB, "_make_export_friendly_names", None)
    try:
        if fn is not None:
            got = list(TsDB()._make_export_friendly_names(OrderedDict((k, None) for k in keys), keep_basename=inp["basename"]).keys())
        else:
            db = TsDB()
            t = np.arange(3.0)
            for k in keys:
                db.register[k] = TimeSeries(os.path.basename(k), t, t)
                db.register_parent[k] = None
                db.register_indices[k] = None
                db.register_keys.append(k)
            with Tracer() as trc:
                quiet(db.export, os.path.join(tempfile.gettempdir(), "qv07_never_written.pkl"), basename=inp["basename"])
                got = [w[1] for w in trc.trace if isinstance(w, tuple)]
    except Exception as e:
        return None, "err " + err_kind(e), fails
    if len(got) != len(keys) or len(set(got)) != len(got):
        fails.append(("export-friendly names are distinct and as many as the selected series", len(keys), got))
    return got, "ok " + hxlist(got), fails


def impl_trace(inp, d):
    """kind 'trace': run TsDB.export with the steps observed (writers replaced by recorders, tag stages)"""
    from qats import TsDB, TimeSeries
    flags = inp["flags"]
    db = TsDB()
    for k, dg, t, x in zip(inp["keys"], inp["dtg"], inp["times"], inp["x"]):
        ts = TimeSeries(os.path.basename(k), np.array([fr(v) for v in t]), np.array([fr(v) for v in x]), dtg_ref=dtg_of(dg))
        db.register[k] = ts
        db.register_parent[k] = None
        db.register_indices[k] = None
        db.register_keys.append(k)
    kw = {}
    if inp["twin"] is not None:
        kw["twin"] = (fr(inp["twin"][0]), fr(inp["twin"][1]))
    res = inp["resample"]
    if res is not None:
        kw["resample"] = fr(res[1]) if res[0] == "step" else np.array([fr(v) for v in res[1]])
    if inp["stages"][0]:
        kw["taperfrac"] = 0.1
    if inp["stages"][1]:
        kw["filterargs"] = ("lp", 0.01)
    if inp["stages"][2]:
        kw["window_len"] = 3
    os.makedirs(d)
    sub = os.path.join(d, "new") if flags["mkdir"] else d
    target = os.path.join(sub, "out." + ("csv" if flags["ext"] == "other" else flags["ext"]))
    if flags["exists"]:
        open(target, "w").write("sentinel")
    with Tags(), Tracer() as trc:
        try:
            quiet(db.export, target, exist_ok=flags["existok"], basename=flags["base"], force_common_time=flags["force"], **kw)
        except Exception as e:
            trc.trace.append("raise:" + err_kind(e))
        tr = list(trc.trace)
    # the directory of the target: observed on the file system, not through the call that creates it
    if flags["mkdir"] and os.path.isdir(sub) and "mkdirs" not in tr:
        tr.insert(0, "mkdirs")
    return tr


def clause_trace(itrace):
    """nothing touches the target before a raise; what is handed to a writer has one time array"""
    fails = []
    last = itrace[-1] if itrace else ""
    if isinstance(last, str) and last.startswith("raise") and \
            any(isinstance(t, tuple) or (isinstance(t, str) and t.startswith("open")) for t in itrace):
        fails.append(("export raises before the target is opened", "no open/write before raise", show_trace(itrace)))
    wr = [t for t in itrace if isinstance(t, tuple)]
    if wr and not all(len(w[2]) == len(wr[0][2]) and np.allclose(w[2], wr[0][2], rtol=1e-9, atol=1e-12) for w in wr):
        fails.append(("series handed to a writer share one time array", wr[0][2].tolist(), [w[2].tolist() for w in wr]))
    return fails


# ----------------------------------------------------------------------------------------------------------------------------------
# correspondence streams
# ----------------------------------------------------------------------------------------------------------------------------------
def corr_check(chk, drv, rng, N):
    from qats import TsDB, TimeSeries
    lines, meta = [], []
    for _ in range(N):
        nser = rng.choice([1, 2, 2, 3, 4])
        fam = rng.choice(FAMILIES)
        times = gen_times(rng, nser, fam)
        dtgs = [None] * nser
        k = rng.random()
        if k < 0.12:
            dtgs = [0] * nser
        elif k < 0.3:
            dtgs = [rng.choice([None, 0, 1]) for _ in range(nser)]
        twin = gen_twin(rng, times) if rng.random() < 0.55 else None
        res = gen_resample(rng, times, twin is not None) if rng.random() < 0.4 else None
        if res is not None and res[0] == "arr" and rng.random() < 0.05:
            res = ("arr", res[1][:1])                      # degenerate: np.min of an empty diff raises
        lines.append("ex.check %s ; %s" % (" ".join(opts_line(twin, res).split()[:2]),
                                            " ; ".join(ser_line(d, t) for d, t in zip(dtgs, times))))
        meta.append((times, dtgs, twin, res, fam))
    outs = drv.run(lines)
    for (times, dtgs, twin, res, fam), out in zip(meta, outs):
        cont = OrderedDict()
        for i, (t, d) in enumerate(zip(times, dtgs)):
            tf = np.array([float(v) for v in t])
            cont["k%d" % i] = TimeSeries("s%d" % i, tf, tf * 0.0, dtg_ref=dtg_of(d))
        kw = {}
        if twin is not None:
            kw["twin"] = (float(twin[0]), float(twin[1]))
        if res is not None:
            kw["resample"] = float(res[1]) if res[0] == "step" else (np.array([float(v) for v in res[1]]) if rng.random() < 0.7
                                                                         else [float(v) for v in res[1]])
        inp = dict(kind="check", family=fam, times=[[str(v) for v in t] for t in times], dtg=dtgs,
                   twin=None if twin is None else [str(v) for v in twin],
                   resample=None if res is None else [res[0], str(res[1]) if res[0] == "step" else [str(v) for v in res[1]]])
        chk.count("check")
        chk.dist("check:%s twin=%d res=%s dtg=%s" % (fam, twin is not None, "-" if res is None else res[0],
                                                      "none" if all(d is None for d in dtgs) else ("same" if len(set(dtgs)) == 1 else "mixed")))
        if len(times) > 1 or kw:
            chk.nontriv(("check", repr(inp)))
        chkfn = getattr(TsDB, "_check_time_arrays", None)
        if chkfn is None:
            # the private helper is gone (renamed / inlined): the decision is still compared through is_common_time below
            chk.dist("check: _check_time_arrays not found, decision compared through is_common_time only")
            im = "ok (not observed)" if out.startswith("ok") else out
        else:
            try:
                tc = chkfn(cont, **kw)
                dref = "-" if tc["dtg_ref"] is None else str(dtgs[0])
                rec = "-" if tc["common"] is None else ",".join(rat(float(v)) for v in tc["common"])
                im = "ok common=%d dtgdef=%d dtgref=%s rec=%s devs=%s" % (tc["is_common"], tc["dtg_defined"], dref, rec,
                                                                          ",".join(tc["deviations"].keys()))
            except Exception as e:
                im = "err " + err_kind(e)
            if out.strip() != im.strip():
                chk.disagree("check", inp, out, im)
        if im.startswith("ok") and len(chk.samples) < 2:
            chk.sample(dict(stream="check", input=inp, reply=im))
        # the public face of the same decision; partial theorem, measured side: on a common lattice (or identical arrays) a
        # positive answer means that the (windowed) time arrays are equal
        if res is None and all(d is None for d in dtgs) and im.startswith("ok"):
            db = TsDB()
            for i, t in enumerate(times):
                tf = np.array([float(v) for v in t])
                db.add(TimeSeries("s%d" % i, tf, tf * 0.0))
            ic = db.is_common_time(twin=kw.get("twin"))
            chk.count("is_common_time")
            if ("common=1" in out) != bool(ic):
                chk.disagree("is_common_time", inp, out, bool(ic))
            for oracle, expected, observed in clause_is_common(inp)[1]:
                chk.fail(oracle, inp, expected, observed)


def corr_cct(chk, drv, rng, N):
    from qats import TsDB, TimeSeries
    lines, meta = [], []
    for _ in range(N):
        nser = rng.choice([1, 2, 2, 3])
        fam = rng.choice(FAMILIES)
        times = gen_times(rng, nser, fam)
        twin = gen_twin(rng, times) if rng.random() < 0.4 else None
        lines.append("ex.cct %s ; %s" % (opts_line(twin, None).split()[0], " ; ".join(ser_line(None, t) for t in times)))
        meta.append((times, twin, fam))
    outs = drv.run(lines)
    for (times, twin, fam), out in zip(meta, outs):
        db = TsDB()
        for i, t in enumerate(times):
            tf = np.array([float(v) for v in t])
            db.add(TimeSeries("s%d" % i, tf, tf * 0.0))
        inp = dict(kind="cct", family=fam, times=[[str(v) for v in t] for t in times], twin=None if twin is None else [str(v) for v in twin])
        chk.count("cct")
        chk.dist("cct:%s twin=%d" % (fam, twin is not None))
        chk.nontriv(("cct", repr(inp)))
        try:
            ct = db.create_common_time(twin=None if twin is None else (float(twin[0]), float(twin[1])))
            im = ("ok", np.asarray(ct, dtype=float))
        except Exception as e:
            im = ("err " + err_kind(e),)
        if out.startswith("err") or im[0] != "ok":
            if out.strip() != im[0]:
                chk.disagree("cct", inp, out, im[0])
            continue
        body = out[3:].strip()
        mt = [] if body == "=" else [float(Fraction(v)) for v in body.split(",")]
        if len(mt) != len(im[1]) or not np.allclose(mt, im[1], rtol=1e-12, atol=1e-12):
            chk.disagree("cct", inp, mt[:12], im[1][:12].tolist())
        # clause: the common time array lies inside every series' span (so that resampling never extrapolates)
        for oracle, expected, observed in clause_cct(inp, im[1]):
            chk.fail(oracle, inp, expected, observed)


NAME_POOL = ["a", "b", "x", "Tension [kN]", "Moment [kNm]", "vel[m/s]", "acc [m/s^2]", "Acc(1)", "m_1-2.5", "Force", "force_2", "p[0]",
             "x y", "a.b", "_lead", "surge"]


def gen_keys(rng, root="/data"):
    """key sets as TsDB registers them: abspath(file)/name for loaded files, join(common, name) for in-memory series"""
    k = rng.random()
    if k < 0.2:
        names = rng.sample(NAME_POOL, rng.choice([1, 2, 3, 4]))
        return names                                           # in-memory only (relative keys)
    layouts = rng.choice([["f.ts"], ["f.ts", "g.ts"], ["f.ts", "sub/f.ts"], ["d1/f.ts", "d2/f.ts", "d1/g.ts"], ["a_b/c.ts", "a/b_c.ts"],
                          ["run.1/f.pkl", "run.2/f.pkl"], [".hidden/f.h5", "v1.0/f.tar.h5"], ["f.ts", "f.dat"]])
    keys = []
    for rel in layouts:
        for nm in rng.sample(NAME_POOL, rng.choice([1, 1, 2, 3])):
            keys.append(os.path.join(root, rel, nm))
    if rng.random() < 0.5:
        rng.shuffle(keys)
    if rng.random() < 0.3:
        keys = keys[:rng.randint(1, len(keys))]
    return keys


def corr_names(chk, drv, rng, N):
    cwd = os.getcwd()
    lines, meta = [], []
    for _ in range(N):
        keys = gen_keys(rng)
        base = rng.random() < 0.4
        lines.append("ex.names cwd=%s base=%d %s" % (hx(cwd), base, " ".join(hx(k) for k in keys)))
        meta.append((keys, base))
    outs = drv.run(lines)
    for (keys, base), out in zip(meta, outs):
        inp = dict(kind="names", keys=keys, basename=base, cwd=cwd)
        chk.count("names")
        chk.dist("names:base=%d n=%d" % (base, min(len(keys), 4)))
        chk.nontriv(("names", repr(inp)))
        got, im, fails = clause_names(inp)
        if out.strip() != im.strip():
            chk.disagree("names", inp, out if not out.startswith("ok") else unhxlist(out[3:].strip()), got if got is not None else im)
        for oracle, expected, observed in fails:
            chk.fail(oracle, inp, expected, observed)
        if got is not None and len(chk.samples) < 4 and not base and len(keys) > 2:
            chk.sample(dict(stream="names", keys=keys, friendly=got))


def corr_export(chk, drv, rng, N, root):
    cwd = os.getcwd()
    lines, meta = [], []
    for ci in range(N):
        nser = rng.choice([1, 2, 2, 3, 4])
        fam = rng.choice(FAMILIES)
        times = gen_times(rng, nser, fam, nmax=9)
        dtgs = [None] * nser
        if rng.random() < 0.15:
            dtgs = [rng.choice([None, 0, 1]) for _ in range(nser)]
        # keys: flat in-memory names, or file-like keys (registered directly, the trace does not depend on where the data come from)
        if rng.random() < 0.5:
            keys = rng.sample(["a", "b", "c", "d", "T [kN]", "v[m/s]"], nser)
        else:
            files = rng.choice([["f.ts"], ["f.ts", "g.ts"], ["d1/f.ts", "d2/f.ts"], ["a_b/c.ts", "a/b_c.ts"]])
            nm = rng.sample(["x", "y", "z", "w"], 2)
            allk = [os.path.join("/data", f, n) for f in files for n in nm]
            nser = min(nser, len(allk))
            keys = rng.sample(allk, nser)
            times, dtgs = times[:nser], dtgs[:nser]
        xs = [[Fraction(rng.randint(-32, 32), rng.choice([1, 2, 4])) for _ in t] for t in times]
        twin = gen_twin(rng, times) if rng.random() < 0.4 else None
        res = gen_resample(rng, times, twin is not None) if rng.random() < 0.35 else None
        stages = (rng.random() < 0.15, rng.random() < 0.2, rng.random() < 0.1)
        flags = dict(exists=rng.random() < 0.3, existok=rng.random() < 0.7, mkdir=rng.random() < 0.2, base=rng.random() < 0.6,
                     force=rng.random() < 0.35, ext=rng.choice(["ts", "dat", "h5", "pkl", "other"] if rng.random() < 0.3 else ["ts", "dat", "h5", "pkl"]))
        if flags["mkdir"]:
            flags["exists"] = False          # a target inside a missing directory cannot exist
        head = "ex.export exists=%d existok=%d mkdir=%d base=%d force=%d ext=%s cwd=%s %s ;" % (
            flags["exists"], flags["existok"], flags["mkdir"], flags["base"], flags["force"], flags["ext"], hx(cwd),
            opts_line(twin, res, *stages))
        lines.append(head + " " + " ; ".join(ser_line(d, t, x, key=k) for k, d, t, x in zip(keys, dtgs, times, xs)))
        meta.append((keys, dtgs, times, xs, twin, res, stages, flags, fam, ci))
    outs = drv.run(lines)
    for (keys, dtgs, times, xs, twin, res, stages, flags, fam, ci), out in zip(meta, outs):
        inp = dict(kind="trace", keys=keys, dtg=dtgs, times=[[str(v) for v in t] for t in times], x=[[str(v) for v in x] for x in xs],
                   twin=None if twin is None else [str(v) for v in twin],
                   resample=None if res is None else [res[0], str(res[1]) if res[0] == "step" else [str(v) for v in res[1]]],
                   stages=list(stages), flags=flags)
        chk.count("export-trace")
        chk.nontriv(("trace", repr(inp)))
        itrace = impl_trace(inp, os.path.join(root, "tr%05d" % ci))
        mt = parse_model_trace(out) if out.startswith("ok") else [out]
        last = itrace[-1] if itrace else ""
        chk.dist("trace:%s %s" % (fam, last if isinstance(last, str) and last.startswith("raise") else "written"))
        if not traces_equal(hard(mt), hard(itrace)) or ("mkdirs" in mt) != ("mkdirs" in itrace):
            chk.disagree("export-trace", inp, show_trace(mt), show_trace(itrace))
        elif not traces_equal(mt, itrace):
            chk.dist("trace: internal steps differ from the model's (outcome, records and directory creation agree)")
            if not any("internal steps" in n for n in chk.notes):
                chk.notes.append("export-trace: internal steps differ from the model's, e.g. model %s / observed %s" % (
                    [t for t in show_trace(mt) if t in SOFT], [t for t in show_trace(itrace) if t in SOFT]))
        # clauses on the observed trace: nothing touches the target before a raise; what is written has one time array
        for oracle, expected, observed in clause_trace(itrace):
            chk.fail(oracle, inp, expected, observed)
        wr = [t for t in itrace if isinstance(t, tuple)]
        if len(chk.samples) < 6 and wr and len(keys) > 1:
            chk.sample(dict(stream="export-trace", input=inp, trace=show_trace(itrace)))


def corr_codec(chk, drv, rng, N, root):
    """record-level codecs against files written / read by the real functions"""
    from qats.io.direct_access import write_ts_data, read_ts_names, read_ts_data
    from qats.io.other import write_dat_data, read_dat_names
    from qats.io.sima_h5 import write_data as write_h5, read_names as read_h5_names, read_data as read_h5_data
    alpha = ["a", "b", "Time", "time", "Timer", "END", "end", " lead", "trail ", "**c", "'q", "x y", "T [kN]", "*a", "a'b", "t\tb", "En d",
             "e**", "tIME", "m/s", "_"]
    lines, meta = [], []
    for ci in range(N):
        k = rng.choice([1, 2, 3])
        names = rng.sample(alpha, k)
        # (1) key file: text written by write_ts_data vs encodeKey; read_ts_names vs decodeKey
        n = rng.choice([2, 3, 5])
        t = np.arange(n, dtype=float) * 0.5
        cols = [np.array([float(rng.randint(-8, 8)) / 4 for _ in range(n)]) for _ in names]
        p = os.path.join(root, "cd%05d.ts" % ci)
        write_ts_data(p, t, OrderedDict((nm, (t, c)) for nm, c in zip(names, cols)))
        text = open(p[:-3] + ".key", newline="").read()
        lines.append("ex.keyenc " + hxlist(names))
        meta.append(("keyenc", names, text))
        lines.append("ex.keydec " + hx(text))
        meta.append(("keydec", names, read_ts_names(p[:-3] + ".key")))
        # (2) words of the binary file
        raw = open(p, "rb").read()
        nw = len(raw) // 4
        words = ["i%d" % v for v in struct.unpack("<%di" % n, raw[:4 * n])] + ["v" + rat(v) for v in struct.unpack("<%df" % (nw - n), raw[4 * n:])]
        lines.append("ex.tsenc " + " | ".join(" ".join(rat(v) for v in arr) for arr in [t] + cols))
        meta.append(("tsenc", names, " ".join(words)))
        lines.append("ex.tsdec " + " ".join(words))
        meta.append(("tsdec", names, read_ts_data(p)))
        # ... and records requested by index, in any order (row i of the reply is the i-th requested record)
        req = [0] + rng.sample(range(1, k + 1), rng.randint(1, k))
        if rng.random() < 0.3:
            rng.shuffle(req)
        lines.append("ex.tsdec " + " ".join(words))
        meta.append(("tsdec-ind", names, (req, read_ts_data(p, ind=list(req)))))
        # (3) .dat header
        dnames = [nm for nm in names if "\t" not in nm or True]
        p2 = os.path.join(root, "cd%05d.dat" % ci)
        write_dat_data(p2, t, OrderedDict((nm, (t, c)) for nm, c in zip(dnames, cols)))
        header = open(p2).readline().rstrip("\n")
        lines.append("ex.datenc %s %s" % (hx("\t"), hxlist(dnames)))
        meta.append(("datenc", dnames, header))
        try:
            rn = read_dat_names(p2)
        except KeyError:
            rn = "err key"
        lines.append("ex.datdec " + hx(header))
        meta.append(("datdec", dnames, rn))
        # (4) h5: names in reader order, rebuilt time arrays
        hn = [nm for nm in names if nm not in ("m/s",)] or ["a"]
        hn = list(dict.fromkeys(hn))
        p3 = os.path.join(root, "cd%05d.h5" % ci)
        items = []
        for nm in hn:
            m = rng.choice([2, 3, 6])
            t0, h = Fraction(rng.randint(-4, 4), 2), Fraction(1, rng.choice([1, 2, 4]))
            tt = [t0 + i * h for i in range(m)]
            items.append((nm, tt, [Fraction(rng.randint(-8, 8), 2) for _ in range(m)]))
        write_h5(p3, OrderedDict((nm, (np.array([float(v) for v in tt]), np.array([float(v) for v in xx]))) for nm, tt, xx in items))
        got = read_h5_names(p3)
        arrs = read_h5_data(p3, names=got)
        lines.append("ex.h5 " + " ; ".join("%s | %s | %s" % (hx(nm), " ".join(rat(v) for v in tt), " ".join(rat(v) for v in xx)) for nm, tt, xx in items))
        meta.append(("h5", hn, (got, arrs)))
    outs = drv.run(lines)
    for (kind, names, im), out in zip(meta, outs):
        chk.count("codec-" + kind)
        inp = dict(kind="codec", codec=kind, names=names)
        chk.nontriv(("codec", kind, repr(names), repr(im)[:200]))
        if kind in ("keyenc", "datenc"):
            if out != "ok " + hx(im):
                chk.disagree("codec-" + kind, inp, unhx(out[3:]) if out.startswith("ok ") else out, im)
        elif kind == "keydec":
            if out != "ok " + hxlist(im):
                chk.disagree("codec-keydec", inp, unhxlist(out[3:]) if out.startswith("ok ") else out, im)
        elif kind == "datdec":
            exp = im if isinstance(im, str) else "ok " + hxlist(im)
            if out != exp:
                chk.disagree("codec-datdec", inp, out, exp)
        elif kind == "tsenc":
            if out != "ok " + im:
                chk.disagree("codec-tsenc", inp, out, im)
        elif kind == "tsdec":
            exp = "ok " + " | ".join(",".join(rat(v) for v in row) for row in im)
            if out != exp:
                chk.disagree("codec-tsdec", inp, out, exp)
        elif kind == "tsdec-ind":
            req, rows = im
            mrows = out[3:].split(" | ") if out.startswith("ok ") else []
            exp = "ok " + " | ".join(",".join(rat(v) for v in row) for row in rows)
            mod = "ok " + " | ".join(mrows[i] for i in req) if mrows and max(req) < len(mrows) else out
            if mod != exp:
                chk.disagree("codec-tsdec-ind", dict(inp, ind=req), mod, exp)
        elif kind == "h5":
            got, arrs = im
            toks = out.split()[1:] if out.startswith("ok") else []
            ok = len(toks) == len(got)
            for tok, nm, (tt, xx) in zip(toks, got, arrs):
                parts = tok.split(":")
                if len(parts) != 3 or unhx(parts[0]) != nm:
                    ok = False
                    break
                mt = [float(Fraction(v)) for v in parts[1].split(",")]
                mx = [float(Fraction(v)) for v in parts[2].split(",")]
                if len(mt) != len(tt) or not np.allclose(mt, tt, rtol=0, atol=1e-12) or not np.array_equal(mx, xx):
                    ok = False
            if not ok:
                chk.disagree("codec-h5", inp, out, [got, [[a.tolist() for a in p] for p in arrs]])


# ----------------------------------------------------------------------------------------------------------------------------------
# end-to-end oracles on the unpatched implementation
# ----------------------------------------------------------------------------------------------------------------------------------
SAFE_NAMES = ["a", "b", "surge", "heave_1", "Fx", "m-2.5", "acc(1)", "T[kN]", "p.q", "Moment", "X2", "z_"]
SPACE_NAMES = ["Tension [kN]", "x y", "acc [m/s^2]"]          # fine for .ts/.pkl, not for .dat (white space) / .h5 ('/')
TIME_NAMES = ["time_lag", "Timer", "Time", "timeseries"]      # F19 (.dat) / F19b (.pkl, 'Time' only)


def representable(name, ext):
    if ext == ".dat":
        return name != "" and not any(c.isspace() for c in name)
    if ext == ".h5":
        return "/" not in name and "\\" not in name and name != ""
    if ext == ".ts":
        return name == name.strip() and "\n" not in name and "\r" not in name and not name.startswith(("**", "'")) and \
            name.upper().strip() != "END"
    return True


def gen_e2e(rng, corner=None):
    """one export/reload case (JSON-serialisable)"""
    exact = rng.random() < 0.4
    source = rng.choice(["mem", "mem", "mem", "pkl", "ts", "ts", "dat", "h5"])
    nser = rng.choice([1, 2, 2, 3, 4])
    if source == "mem":
        fam = rng.choice(["ident", "ident", "ident", "lattice", "offlattice", "samespan", "diffdt", "disjoint"])
    elif source == "h5":
        fam = rng.choice(["ident", "ident", "lattice", "diffdt"])     # (an h5 source holds start + step: uniform series only)
    else:
        fam = rng.choice(["ident", "ident", "lattice", "diffdt", "samespan"])
    nmax = rng.choice([6, 12, 40, 200])
    times = gen_times(rng, nser, fam, exact=exact, nmax=nmax)
    big = rng.random() < 0.12
    if big:
        n = rng.choice([500, 501, 502, 1001, 1200])
        h = rng.choice([0.1, 0.25, 0.02])
        times = [[i * h for i in range(n)] for _ in range(nser)]
        fam = "ident"
    times = [[float(v) for v in t] for t in times]
    scale = rng.choice([1e-3, 1.0, 1.0, 37.5, 1e4, 1e6])
    ext = rng.choice(EXTS + [".pickle"] if rng.random() < 0.1 else EXTS)
    pool = list(SAFE_NAMES) + (rng.sample(SPACE_NAMES, 2) if rng.random() < 0.3 else [])
    pool = [n for n in pool if representable(n, ext)]        # the property's domain: names representable in the target format
    if source in ("ts", "dat", "h5"):
        pool = [n for n in pool if representable(n, "." + source)]      # ... and in the format of the source file
    names = rng.sample(pool, nser)
    series = []
    if source == "mem":
        for nm, t in zip(names, times):
            series.append(dict(name=nm, file=None, t=t, x=[scale * rng.gauss(0.3, 1.0) for _ in t], dtg=None))
        if rng.random() < 0.1:
            for s in series:
                s["dtg"] = 0
    else:
        # series with the same time array share a file, others get their own file
        sext = "." + source
        layouts = rng.choice([["f", "g", "h", "k"], ["d1/f", "d2/f", "d1/g", "d2/g"], ["f", "sub/f", "sub/g", "g"]])
        groups = []
        for nm, t in zip(names, times):
            for g in groups:
                if g[0] == t and rng.random() < 0.7:
                    g[1].append(nm)
                    break
            else:
                groups.append((t, [nm]))
        for (t, nms), rel in zip(groups, layouts):
            for nm in nms:
                series.append(dict(name=nm, file=rel + sext, t=t, x=[scale * rng.gauss(0.3, 1.0) for _ in t], dtg=None))
        if rng.random() < 0.2 and len(groups) > 1:
            # same series name in two files: basename collision
            series[-1]["name"] = series[0]["name"]
    # selection
    k = rng.random()
    allnames = [s["name"] for s in series]
    if source != "mem" and len(allnames) > 1:
        k = 0.25 + 0.75 * k                 # file-backed: more requests that name several series (in any order)
    if k < 0.6:
        select = None
    elif k < 0.7:
        select = rng.choice(allnames)
    elif k < 0.9:
        select = rng.sample(allnames, rng.randint(1, len(allnames)))
        if rng.random() < 0.4:
            select = list(reversed(allnames)) if rng.random() < 0.5 else rng.sample(allnames, len(allnames))
    else:
        select = "*" + rng.choice(allnames)[-1]
    # options
    kwj = {}
    tt = [s["t"] for s in series]
    cs, ce = max(t[0] for t in tt), min(t[-1] for t in tt)
    if rng.random() < 0.35:
        a, b = gen_twin(rng, tt)
        kwj["twin"] = [float(a), float(b)]
    k = rng.random()
    if k < 0.15:
        span = (ce - cs) if ce > cs else (tt[0][-1] - tt[0][0])
        kwj["resample"] = ["step", float(span / rng.choice([2, 3, 4, 7, 10]))]
    elif k < 0.25 and "twin" not in kwj and ce > cs:
        m = rng.choice([2, 3, 5, 11])
        kwj["resample"] = ["arr", [cs + (ce - cs) * i / (m - 1) for i in range(m)]]
    if big and rng.random() < 0.7:
        dt = tt[0][1] - tt[0][0]
        kwj["filterargs"] = rng.choice([["lp", 0.1 / dt], ["hp", 0.05 / dt], ["bp", 0.05 / dt, 0.2 / dt], ["bs", 0.05 / dt, 0.2 / dt], ["tp", 0.5]])
    if rng.random() < 0.1:
        kwj["taperfrac"] = 0.1
    if rng.random() < 0.08 and min(len(t) for t in tt) >= 8 and "twin" not in kwj and "resample" not in kwj:
        kwj["window_len"] = 3          # (smoothing of very short arrays changes their length: C11's subject)
    case = dict(kind="e2e", source=source, family=fam, series=series, select=select, kw=kwj, ext=ext,
                basename=rng.random() < 0.75, force=rng.random() < 0.25, exist_ok=rng.random() < 0.8, preexisting=rng.random() < 0.35,
                subdir=rng.random() < 0.15, target="out",
                # how the target is named: absolute path / bare file name in the working directory / relative path with a directory
                target_style=rng.choice(["abs", "abs", "abs", "bare", "bare", "rel"]),
                # what happened to the exporting database before: the selection was retrieved (and stored) / nothing was read yet /
                # one of the selected series was read and stored
                history=rng.choice(["read-first", "fresh", "fresh", "partial"]), partial_index=rng.randrange(4))
    if case["target_style"] == "bare":
        case["subdir"] = False               # a bare file name has no directory that could be missing
    return case


def corner_cases():
    """cases that are always run (past failures, boundary shapes, the known findings)"""
    t4 = [0.0, 1.0, 2.0, 3.0]
    base = dict(kind="e2e", source="mem", family="ident", select=None, kw={}, basename=True, force=False, exist_ok=True, preexisting=False,
                subdir=False, target="out")
    out = []

    def mk(series, **kw):
        c = dict(base)
        c["series"] = [dict(name=n, file=None, t=list(t), x=list(x), dtg=None) for n, t, x in series]
        c.update(kw)
        return c
    two = [("a", t4, [1.0, 2.0, 3.0, 4.0]), ("b", t4, [5.0, 6.5, 7.25, 8.0])]
    for ext in EXTS:
        out.append(mk(two, ext=ext))
        out.append(mk(two, ext=ext, kw={"twin": [0.5, 2.5]}))                       # two samples left
        out.append(mk(two, ext=ext, kw={"resample": ["step", 0.75]}))
        out.append(mk(two, ext=ext, preexisting=True, exist_ok=False))               # refused, target untouched
        # F9a shape (fixed): 0..10 and 0..8 with windows ending beyond / inside the shorter series
        s10 = [float(i) for i in range(11)]
        s8 = [float(i) for i in range(9)]
        lat = [("a", s10, [float(i % 3) for i in range(11)]), ("b", s8, [float(i % 4) for i in range(9)])]
        out.append(mk(lat, ext=ext, family="lattice", kw={"twin": [0.0, 9.0]}, preexisting=True))
        out.append(mk(lat, ext=ext, family="lattice", kw={"twin": [0.0, 7.0]}))
        out.append(mk(lat, ext=ext, family="lattice", force=True))
        # F9b shape (fixed): same start / end / mean step, different interior
        nu = [("a", [0.0, 1.0, 3.0, 4.0], [1.0, 2.0, 3.0, 4.0]), ("b", [0.0, 1.5, 2.0, 4.0], [5.0, 6.0, 7.0, 8.0])]
        out.append(mk(nu, ext=ext, family="samespan", preexisting=True))
        out.append(mk(nu, ext=ext, family="samespan", kw={"resample": ["step", 0.5]}))
        # off lattice + window
        off = [("a", [0.0, 1.0, 2.0, 3.0, 4.0], [1.0] * 5), ("b", [0.5, 1.5, 2.5, 3.5], [2.0] * 4)]
        out.append(mk(off, ext=ext, family="offlattice", kw={"twin": [1.0, 3.0]}, preexisting=True))
        # F20 shape (fixed): shortened keys collide
        col = dict(base)
        col.update(source="pkl", ext=ext, basename=False, preexisting=True, family="ident",
                   series=[dict(name="x", file="a_b/c.pkl", t=t4, x=[1.0, 2.0, 3.0, 4.0], dtg=None),
                           dict(name="x", file="a/b_c.pkl", t=t4, x=[5.0, 6.0, 7.0, 8.0], dtg=None)])
        out.append(col)
        col2 = dict(col)
        col2.update(basename=True)
        out.append(col2)
        ok2 = dict(col)
        ok2.update(series=[dict(name="x", file="r1/c.pkl", t=t4, x=[1.0, 2.0, 3.0, 4.0], dtg=None),
                           dict(name="x", file="r2/c.pkl", t=t4, x=[5.0, 6.0, 7.0, 8.0], dtg=None)], preexisting=False)
        out.append(ok2)
    # the target named as a bare file name in the working directory / as a relative path: existing file, overwriting (dis)allowed
    for ext in EXTS:
        for style in ("bare", "rel"):
            out.append(mk(two, ext=ext, preexisting=True, exist_ok=False, target_style=style))
            out.append(mk(two, ext=ext, preexisting=True, exist_ok=True, target_style=style))
        out.append(mk(two, ext=ext, target_style="bare"))
        out.append(mk(two, ext=ext, target_style="rel", subdir=True))
    # file-backed sources of every format holding three series; requests that name the series in another order than the file,
    # from a database that has read nothing / the selection / one of the series before
    t5 = [0.0, 0.5, 1.0, 1.5, 2.0]
    abc = [("a", [1.0, 2.0, 3.0, 4.0, 5.0]), ("b", [10.0, 10.25, 10.5, 10.75, 11.0]), ("c", [-5.0, -2.5, 0.0, 2.5, 5.0])]
    for src in ("ts", "dat", "h5", "pkl"):
        for ext, select, hist in zip(EXTS, [["c", "a"], ["c", "b", "a"], ["b", "a"], ["c", "a", "b"]], ["fresh", "read-first", "partial", "fresh"]):
            fb = dict(base)
            fb.update(source=src, ext=ext, select=select, history=hist, partial_index=1,
                      series=[dict(name=n, file="f." + src, t=t5, x=x, dtg=None) for n, x in abc])
            out.append(fb)
        fb2 = dict(base)
        fb2.update(source=src, ext=".pkl", select=["c", "a"], history="fresh", kw={"twin": [0.5, 1.5]},
                   series=[dict(name=n, file="f." + src, t=t5, x=x, dtg=None) for n, x in abc])
        out.append(fb2)
    # known findings
    out.append(mk([("time_lag", t4, [1.0, 2.0, 3.0, 4.0]), ("b", t4, [5.0, 6.0, 7.0, 8.0])], ext=".dat"))             # F19
    out.append(mk([("Timer", t4, [1.0, 2.0, 3.0, 4.0])], ext=".dat"))                                                # F19
    out.append(mk([("Time", t4, [1.0, 2.0, 3.0, 4.0]), ("b", t4, [5.0, 6.0, 7.0, 8.0])], ext=".pkl"))                 # F19b
    for ext in EXTS:
        out.append(mk(two, ext=ext, kw={"twin": [0.5, 1.5]}, preexisting=(ext == ".h5")))                             # F30: one sample
        out.append(mk(two, ext=ext, kw={"twin": [0.25, 0.75]}))                                                       # F30: no sample
    out.append(mk(two, ext=".ts", target="res.tsx/out"))                                                               # F31
    out.append(mk(two, ext=".ts", kw={"resample": ["list", [0.0, 0.5, 1.0]]}, preexisting=True))                       # F32
    for ext in (".dat", ".h5", ".pkl"):
        out.append(mk(two, ext=ext, kw={"resample": ["list", [0.0, 0.5, 1.0]]}))
    return out


def tolerances(ext, t_exp, x_exp):
    """(rtol_t, atol_t, rtol_x, atol_x) of the format"""
    eps = np.finfo(float).eps
    if ext == ".ts":
        return 1.2e-7, 1e-37, 1.2e-7, 1e-37
    if ext == ".dat":
        return 5.1e-7, 0.0, 5.1e-7, 0.0
    if ext == ".h5":
        n = max(len(t_exp), 1)
        return 0.0, 8 * n * eps * max(1.0, float(np.max(np.abs(t_exp))) if len(t_exp) else 1.0), 0.0, 0.0
    return 0.0, 0.0, 0.0, 0.0


def is_uniform(t):
    if len(t) < 3:
        return True
    d = np.diff(t)
    return bool(np.allclose(d, d[0], rtol=1e-9, atol=1e-12 * max(1.0, abs(float(t[-1])))))


def snapshot(d):
    res = {}
    for dp, _, fns in os.walk(d):
        for fn in fns:
            p = os.path.join(dp, fn)
            st = os.stat(p)
            res[os.path.relpath(p, d)] = (st.st_mtime_ns, st.st_size, open(p, "rb").read())
    return res


def retrieve_each(db, keys, kw):
    """in-memory retrieval of every key on its own, nothing stored in the database: key -> (t, x)"""
    out = OrderedDict()
    for k in keys:
        t, x = db.geta(ind=db.register_keys.index(k), store=False, **kw)
        out[k] = (np.array(t, dtype=float), np.array(x, dtype=float))
    return out


def eval_e2e(case, root):
    """returns (failures, info): failures = [(oracle, expected, observed, extra)]"""
    cwd0 = os.getcwd()
    try:
        return _eval_e2e(case, root)
    finally:
        os.chdir(cwd0)           # (targets given relative to the working directory)


def _eval_e2e(case, root):
    from qats import TsDB
    fails, info = [], {}
    ext = case["ext"]
    # reference database: nothing is ever stored in it (every retrieval below reads the source again)
    db = build_db(case, root)
    select = case["select"]
    kw = kw_of(case["kw"])
    sel = db.getm(names=select, fullkey=True, store=False)
    keys = list(sel.keys())
    if not keys:
        info["outcome"] = "empty-selection"
        return fails, info
    stored = [np.array(sel[k].t) for k in keys]
    ident = all(a.shape == stored[0].shape and np.array_equal(a, stored[0]) for a in stored)
    # names the file should contain
    ser_by_key = {}
    for s in case["series"]:
        for k in keys:
            if k.endswith("/" + s["name"]) or k == s["name"]:
                if s["file"] is None or ("/" + s["file"] + "/") in k:
                    ser_by_key[k] = s
    exp_names = [ser_by_key[k]["name"] for k in keys]
    info["names"] = exp_names
    # in-memory retrieval with the same options: (1) every selected series on its own, (2) the selection in one request
    try:
        exp1 = retrieve_each(db, keys, kw)
    except Exception:
        exp1 = None
    try:
        exp = db.getda(names=select, fullkey=True, store=False, **kw)
        exp = OrderedDict((k, (np.asarray(v[0], dtype=float), np.asarray(v[1], dtype=float))) for k, v in exp.items())
        exp_err = None
    except Exception as e:
        exp, exp_err = None, e
    if exp is not None and exp1 is not None:
        # the same code on the same stored arrays: equal to the last bit
        for k, n in zip(keys, exp_names):
            one, req = exp1[k], exp.get(k)
            if req is None or req[0].shape != one[0].shape or req[1].shape != one[1].shape or \
                    not (np.array_equal(req[0], one[0], equal_nan=True) and np.array_equal(req[1], one[1], equal_nan=True)):
                fails.append(("in-memory retrieval of a selection returns for every series what retrieval of that series alone returns",
                              dict(series=n, t=one[0].tolist()[:6], x=one[1].tolist()[:6]),
                              None if req is None else dict(series=n, t=req[0].tolist()[:6], x=req[1].tolist()[:6]), dict(series=n)))
                break
        exp = exp1               # what the reloaded file is compared with: each series retrieved on its own
    if exp1 is not None and not kw and case["source"] != "mem":
        # a file-backed source was itself written by the format's writer: without options, retrieval returns the arrays that were
        # written, within the source format's precision (round trip of the source file)
        for k, n in zip(keys, exp_names):
            te, xe = np.array(ser_by_key[k]["t"], dtype=float), np.array(ser_by_key[k]["x"], dtype=float)
            tg, xg = exp1[k]
            rt, at, rx, ax = tolerances("." + case["source"], te, xe)
            okt = len(tg) == len(te) and ((case["source"] == "h5" and not is_uniform(te)) or bool(np.all(np.abs(tg - te) <= at + rt * np.abs(te))))
            okx = len(xg) == len(xe) and bool(np.all(np.abs(xg - xe) <= ax + rx * np.abs(xe)))
            if not (okt and okx):
                fails.append(("a file-backed database retrieves for every name the arrays its source file was written with (source "
                              "format's precision)", dict(series=n, t=te.tolist()[:6], x=xe.tolist()[:6]),
                              dict(series=n, t=tg.tolist()[:6], x=xg.tolist()[:6]), dict(series=n)))
                break
    # target
    tdir = os.path.join(root, "tgt")
    os.makedirs(tdir)
    sub = os.path.join(tdir, "newdir") if case["subdir"] else tdir
    target = os.path.join(sub, case.get("target", "out") + ext)
    if case["preexisting"]:
        os.makedirs(os.path.dirname(target), exist_ok=True)
        with open(target, "wb") as f:
            f.write(b"SENTINEL-" + ext.encode())
        if ext == ".ts":
            with open(os.path.splitext(target)[0] + ".key", "w") as f:
                f.write("sentinel\nEND\n")
    # how the target is named in the call: absolute path, bare file name in the working directory, relative path with a directory
    style = case.get("target_style", "abs")
    if style == "bare" and case["subdir"]:
        style = "rel"
    arg = target
    if style == "bare":
        os.makedirs(os.path.dirname(target), exist_ok=True)
        os.chdir(os.path.dirname(target))
        arg = os.path.basename(target)
    elif style == "rel":
        os.chdir(root)
        arg = os.path.relpath(target, root)
    info["target_arg"] = arg
    # what should be written: the in-memory retrievals if their time arrays agree; with force_common_time (and no resampling
    # requested) otherwise the retrievals resampled to the common time array
    exp0, forced = exp, False
    if exp is not None:
        ts_ = [v[0] for v in exp.values()]
        same = all(a.shape == ts_[0].shape and np.allclose(a, ts_[0], rtol=1e-9, atol=1e-12) for a in ts_)
    else:
        same = False
    if not same and case["force"] and "resample" not in kw:
        try:
            ct = db.create_common_time(names=select, twin=kw.get("twin"))
            kw2 = dict(kw)
            kw2["resample"] = ct
            exp = retrieve_each(db, keys, kw2)
            forced, same = True, True
        except Exception:
            pass
    nproc = None if exp is None else min(len(v[0]) for v in exp.values())
    xtra = dict(processed_samples=nproc)
    # the exporting database and what happened to it before: in memory -> the reference database itself; file-backed -> a second
    # database on the same files, with the selection retrieved and stored / nothing read / one selected series read and stored
    dbx, hist = db, case.get("history", "read-first")
    if case["source"] != "mem":
        dbx = build_db(case, root, write=False)
        try:
            if hist == "read-first":
                dbx.getda(names=select, fullkey=True, **kw)
            elif hist == "partial":
                dbx.get(ind=dbx.register_keys.index(keys[case.get("partial_index", 0) % len(keys)]))
        except Exception:
            pass
    before = snapshot(tdir)
    try:
        quiet(dbx.export, arg, names=select, exist_ok=case["exist_ok"], basename=case["basename"], force_common_time=case["force"], **kw)
        raised = None
    except Exception as e:
        raised = e
    after = snapshot(tdir)
    changed = sorted(set(k for k in set(before) | set(after) if before.get(k) != after.get(k)))
    info["written_names"] = exp_names
    if raised is not None:
        info["outcome"] = "raise:" + type(raised).__name__
        if after != before:
            fails.append(("an export that raises leaves the target (and every other file) untouched", "no file created or modified",
                          dict(raised="%s: %s" % (type(raised).__name__, str(raised)[:120]), changed=changed), xtra))
        # exports that must not be refused: identical stored time arrays, valid options, distinct names, overwriting allowed
        must = ident and exp_err is None and (case["exist_ok"] or not case["preexisting"]) and ext in EXTS + [".pickle"] and \
            (len(set(exp_names)) == len(exp_names)) and all(len(v[0]) >= 2 for v in exp0.values())
        if must:
            fails.append(("series with identical time arrays and valid options are exported", "file written",
                          "%s: %s" % (type(raised).__name__, str(raised)[:160]), xtra))
        return fails, info
    info["outcome"] = "written"
    if case["preexisting"] and not case["exist_ok"]:
        fails.append(("an existing file is not overwritten when exist_ok=False", "FileExistsError, target untouched",
                      dict(outcome="export returned", target_argument=arg, files_changed=changed), xtra))
        return fails, info
    if exp is None or not same:
        fails.append(("series whose processed time arrays differ are never written side by side", "export raises",
                      dict(written=True, processed_time_arrays=None if exp is None else [v[0].tolist()[:12] for v in exp.values()],
                           retrieval_error=None if exp_err is None else repr(exp_err)[:160]), xtra))
        return fails, info
    info["forced"] = forced
    # reload (the file is named as it was in the export call)
    try:
        db2 = TsDB.fromfile(arg)
        keys2 = list(db2.register_keys)
        got_names = [k[len(os.path.abspath(arg)) + 1:] for k in keys2]
        da = db2.getda(ind=list(range(len(keys2))), fullkey=True, store=False)
        got = [(np.asarray(da[k][0], dtype=float), np.asarray(da[k][1], dtype=float)) for k in keys2]
    except Exception as e:
        fails.append(("the written file can be loaded again", "names, time and data", "%s: %s" % (type(e).__name__, str(e)[:160]), xtra))
        return fails, info
    # names
    if case["basename"] or len(keys) == 1:
        want = list(exp_names)
        okn = sorted(got_names) == sorted(want)         # (the order of the records is not part of the property; h5 sorts them)
        if not okn:
            fails.append(("reloaded names equal the exported names", want, got_names, xtra))
            return fails, info
        order = [got_names.index(n) for n in want]
    else:
        okn = len(got_names) == len(keys) and len(set(got_names)) == len(got_names) and \
            all(g == n or g.endswith("_" + n) for g, n in zip(got_names if ext != ".h5" else sorted(got_names), exp_names if ext != ".h5" else
                                                              [n for _, n in sorted(zip(got_names, got_names))]))
        if ext == ".h5":
            okn = len(got_names) == len(keys) and len(set(got_names)) == len(got_names)
        if not okn:
            fails.append(("with basename=False every series is written under a distinct shortened key ending in its name", exp_names, got_names, xtra))
            return fails, info
        if ext == ".h5":
            # match by suffix and data
            order = []
            for (k, (te, xe)), n in zip(exp.items(), exp_names):
                cands = [i for i, g in enumerate(got_names) if (g == n or g.endswith("_" + n)) and i not in order and len(got[i][1]) == len(xe)
                         and np.array_equal(got[i][1], xe)]
                if not cands:
                    fails.append(("with basename=False every series is written under a distinct shortened key ending in its name", exp_names, got_names, xtra))
                    return fails, info
                order.append(cands[0])
        else:
            order = list(range(len(keys)))
    # arrays
    for (k, (te, xe)), i, n in zip(exp.items(), order, exp_names):
        tg, xg = got[i]
        rt, at, rx, ax = tolerances(ext if ext != ".pickle" else ".pkl", te, xe)
        if len(tg) != len(te) or len(xg) != len(xe):
            fails.append(("reloaded arrays have the length of the processed arrays", [len(te), len(xe)], [len(tg), len(xg)], dict(series=n, **xtra)))
            continue
        if ext == ".h5" and not is_uniform(te):
            info["h5_nonuniform"] = True
        elif not np.all(np.abs(tg - te) <= at + rt * np.abs(te)):
            j = int(np.argmax(np.abs(tg - te) - (at + rt * np.abs(te))))
            fails.append(("reloaded time equals the processed time within the format's precision", float(te[j]), float(tg[j]), dict(series=n, index=j, **xtra)))
        if not np.all(np.abs(xg - xe) <= ax + rx * np.abs(xe)):
            j = int(np.argmax(np.abs(xg - xe) - (ax + rx * np.abs(xe))))
            fails.append(("reloaded data equal the processed data within the format's precision", float(xe[j]), float(xg[j]), dict(series=n, index=j, **xtra)))
    # forced resampling: independent reading of "resampled to the common window"
    if forced:
        sel = OrderedDict((k, db.get(ind=db.register_keys.index(k), store=False)) for k in keys)     # each series read on its own
        t_all = [np.array(sel[k].t) for k in keys]
        cs, ce = max(a[0] for a in t_all), min(a[-1] for a in t_all)
        T = got[0][0]
        tol = 1e-6 * max(1.0, abs(ce))
        if len(T) and (T[0] < cs - tol or T[-1] > ce + tol):
            fails.append(("forced common time lies inside the common window", [float(cs), float(ce)], [float(T[0]), float(T[-1])], xtra))
        if not any(x in case["kw"] for x in ("filterargs", "taperfrac", "window_len")):
            for k, i, n in zip(keys, order, exp_names):
                ref = np.interp(exp[k][0], sel[k].t, sel[k].x)
                if len(got[i][1]) != len(ref):
                    continue                    # (length mismatch is reported above)
                rt, at, rx, ax = tolerances(ext if ext != ".pickle" else ".pkl", exp[k][0], ref)
                sc = max(1.0, float(np.max(np.abs(sel[k].x))))
                if not np.all(np.abs(got[i][1] - ref) <= 1e-9 * sc + ax + max(rx, 1e-12) * np.abs(ref) + 2e-7 * sc * (ext in (".ts", ".dat"))):
                    fails.append(("forced resampling writes the linear interpolation of each series on the common time", "np.interp",
                                  "differs", dict(series=n, **xtra)))
    return fails, info


def f19_shape(f):
    inp = f.get("input") or {}
    if not isinstance(inp, dict) or inp.get("kind") != "e2e" or inp.get("ext") != ".dat":
        return False
    names = [s["name"] for s in inp.get("series", [])]
    return "can be loaded again" in f.get("oracle", "") and "time vector" in str(f.get("observed")) and \
        any(pyfnmatch.fnmatchcase(n, "[Tt]ime*") for n in names)


def f19b_shape(f):
    inp = f.get("input") or {}
    if not isinstance(inp, dict) or inp.get("kind") != "e2e" or inp.get("ext") not in (".pkl", ".pickle"):
        return False
    return "can be loaded again" in f.get("oracle", "") and "cannot insert Time" in str(f.get("observed")) and \
        any(s["name"] == "Time" for s in inp.get("series", []))


def f30_shape(f):
    """the processed arrays (as in-memory retrieval returns them) have fewer than two samples"""
    inp = f.get("input") or {}
    n = f.get("processed_samples")
    return isinstance(inp, dict) and inp.get("kind") == "e2e" and n is not None and n < 2


def f31_shape(f):
    inp = f.get("input") or {}
    return isinstance(inp, dict) and inp.get("kind") == "e2e" and inp.get("ext") == ".ts" and ".ts" in str(inp.get("target", "")) and \
        "can be loaded again" in f.get("oracle", "") and "FileNotFoundError" in str(f.get("observed"))


def f32_shape(f):
    inp = f.get("input") or {}
    r = (inp.get("kw") or {}).get("resample") if isinstance(inp, dict) else None
    return isinstance(inp, dict) and inp.get("kind") == "e2e" and inp.get("ext") == ".ts" and r is not None and r[0] == "list" and \
        "RuntimeError" in str(f.get("observed"))


def run_e2e(chk, case):
    root = tempfile.mkdtemp(prefix="qv07_")
    try:
        try:
            fails, info = eval_e2e(case, root)
        except KeyError:
            # building the database itself can refuse (same key twice in memory)
            chk.dist("e2e:build-refused")
            return
        chk.count("roundtrip")
        ext = case["ext"]
        chk.dist("e2e:%s %s %s" % (ext, case["source"], info.get("outcome", "?")))
        if info.get("forced"):
            chk.dist("e2e:forced-resampling written")
        if info.get("h5_nonuniform"):
            chk.dist("e2e:h5 non-uniform time (outside the property: not compared)")
        if len(case["series"]) > 1 or case["kw"] or case["force"]:
            chk.nontriv(("e2e", json.dumps(case, sort_keys=True)))
        for oracle, expected, observed, extra in fails:
            chk.fail(oracle, case, expected, observed, **extra)
        if info.get("outcome") == "written" and not fails and len(case["series"]) > 1 and case["kw"] and len(chk.samples) < 6 and \
                len(case["series"][0]["t"]) < 8:
            chk.sample(dict(stream="roundtrip", case=case, outcome=info))
    finally:
        shutil.rmtree(root, ignore_errors=True)


def run(chk):
    chk.extra["rule"] = RULE
    chk.assumptions += [
        "POSIX paths; every selected series has at least two samples; names are representable in the target format (no white space "
        "for .dat, no '/' or '\\' for .h5, no leading '**' or quote / not END / no surrounding blanks for key files)",
        "dyadic times and values in the model correspondence (float arithmetic exact or compared to 1e-12 / 1e-9)",
        "float32 / %15.7g / pandas pickle / h5py are exercised by the round trips only (tolerances: 1.2e-7 relative, 5.1e-7 relative, "
        "exact, 8 n eps max|t|)",
        "the .dat column delimiter is white space (default tab) and the header is written (skip_header=False)"]
    chk.partial += [
        "common_safe_twin_partial: a positive `is_common` answer with a window (and optionally a resampling step) implies equal windowed "
        "time arrays only for series on one lattice (false off the lattice and for non-uniform series: machine-checked "
        "counterexamples); the export itself is safe for all inputs because of the final comparison (written_times_close)",
        "roundtrip_h5: the time array is reproduced only for uniformly sampled series (start + i*delta)"]
    chk.matchers[F19] = f19_shape
    chk.matchers[F30] = f30_shape
    rng = chk.rng
    drv = core.Driver()
    root = tempfile.mkdtemp(prefix="qv07c_")
    try:
        q = chk.quick
        for c in core.load_corpus("C07"):
            if c.get("kind") == "e2e":
                run_e2e(chk, c)
        corr_check(chk, drv, rng, 1500 if q else 30000)
        corr_cct(chk, drv, rng, 600 if q else 12000)
        corr_names(chk, drv, rng, 1200 if q else 24000)
        corr_export(chk, drv, rng, 900 if q else 18000, root)
        corr_codec(chk, drv, rng, 150 if q else 2400, root)
    finally:
        shutil.rmtree(root, ignore_errors=True)
    for c in corner_cases():
        run_e2e(chk, c)
    for _ in range(1500 if chk.quick else 18000):
        run_e2e(chk, gen_e2e(rng))


def replay(rp):
    inp = rp.get("input")
    kind = inp.get("kind") if isinstance(inp, dict) else None
    root = tempfile.mkdtemp(prefix="qv07r_")
    try:
        if kind == "e2e":
            fails, info = eval_e2e(inp, root)
            print("case: %d series from %s -> %s, options %s, basename=%s force=%s" % (len(inp["series"]), inp["source"], inp["ext"], inp["kw"],
                                                                                   inp["basename"], inp["force"]))
            print("outcome:", info.get("outcome"))
            fails = [(o, e, ob) for o, e, ob, _ in fails]
        elif kind == "check":
            ic, fails = clause_is_common(inp)
            print("is_common_time(twin=%s) on %s -> %s" % (inp["twin"], inp["times"], ic))
        elif kind == "cct":
            fails = clause_cct(inp)
            print("create_common_time(twin=%s) on %s" % (inp["twin"], inp["times"]))
        elif kind == "names":
            got, im, fails = clause_names(inp)
            print("_make_export_friendly_names(%s, keep_basename=%s) -> %s" % (inp["keys"], inp["basename"], got if got is not None else im))
        elif kind == "trace":
            itrace = impl_trace(inp, os.path.join(root, "t"))
            print("observed steps of export:", show_trace(itrace))
            fails = clause_trace(itrace)
        else:
            print("no failing input stored (%s); broken: %s" % (rp.get("kind"), rp.get("broken")))
            print("re-run:  VERIF_SEED=%s ./check C07 %s" % (rp.get("seed"), rp.get("tier")))
            print(json.dumps(rp.get("first_disagreement"), indent=1, default=str)[:3000])
            return 1
    finally:
        shutil.rmtree(root, ignore_errors=True)
    for oracle, expected, observed in fails:
        print("FAILS: %s\n   expected: %s\n   observed: %s" % (oracle, expected, observed))
    if not fails:
        print("all clauses hold for this input")
    return 1 if fails else 0
